//! C11 — all integer encoders agree on the canonical CLVM integer form.
//!
//! Oracle: `vcore::ints` (`minimal_be`, `decode_signed`, `classify_uint`, defined on
//! big integers; `minimal_be_u64_fast` — derived from the bit length, cross-checked
//! against `minimal_be` here — for the large sweep), `vcore::sha256` (sha2 crate) for
//! coin ids, and `vcore::Sx::serialize` for the CLVM serialization of a generator.
//!
//! Observed (all real code):
//!  * chia-protocol   `Coin::coin_id`
//!  * chia-consensus  `u64_to_bytes`, `make_aggsig_final_message` (the four opcodes whose
//!    message carries the amount or the coin id), `calculate_generator_length` (the private
//!    `clvm_bytes_len` ladder), `solution_generator`, `sanitize_uint`,
//!    `process_single_spend` (private `compute_coin_id` + amount parsing)
//!  * clvm-traits     `encode_number`, `decode_number`, `ToClvm`/`FromClvm<Allocator>` for
//!    u8..u128, i8..i128, usize, isize and BigInt
//!  * clvmr           `Allocator::new_number`, `new_malachite_number`, `new_u64`, `new_i64`,
//!    `number`
//!
//! Streams (one global case index space, see `Plan`):
//!  small    exhaustive u8 / i8 / u16 / i16
//!  u64win   every u64 within 2^16 of 0, 2^(8k-1), 2^(8k), 2^64 — all ladders incl. hashing
//!  typewin  every value within 2^12 of each byte-length boundary of the other wide types
//!  short    all atoms of length <= 2 through sanitize_uint(4|8) and every decoder
//!  len3     atoms of length 3 (quick: every 2-byte prefix x 8 sampled last bytes; thorough: all)
//!  pattern  atoms of 3..=10 bytes, first two bytes in {00,01,7f,80,ff}^2, special + random tails
//!  random   random values of every width (random bit length, random sign)
//!  sweep    contiguous u64 range [0, N) in blocks of 2^16 through the non-hashing ladders
//!
//! `--lane miri` replaces all of this by a tiny fixed plan (boundary +-2, a few atoms).

use std::collections::BTreeMap;

use chia_consensus::conditions::{
    process_single_spend, EmptyVisitor, ParseState, SpendBundleConditions,
};
use chia_consensus::consensus_constants::TEST_CONSTANTS;
use chia_consensus::flags::ConsensusFlags;
use chia_consensus::make_aggsig_final_message::{make_aggsig_final_message, u64_to_bytes};
use chia_consensus::opcodes::{
    AGG_SIG_AMOUNT, AGG_SIG_ME, AGG_SIG_PARENT_AMOUNT, AGG_SIG_PUZZLE_AMOUNT,
};
use chia_consensus::owned_conditions::OwnedSpendConditions;
use chia_consensus::sanitize_int::{sanitize_uint, SanitizedUint};
use chia_consensus::solution_generator::{calculate_generator_length, solution_generator};
use chia_consensus::validation_error::{ErrorCode, ValidationErr};
use chia_protocol::{Bytes32, Coin, CoinSpend, Program};
use clvm_traits::{decode_number, encode_number, FromClvm, ToClvm};
use clvmr::allocator::{Allocator, Checkpoint, NodePtr};
use clvmr::number::Malachite;
use num_bigint::BigInt;
use serde_json::{json, Value};
use vcore::ints::{classify_uint, decode_signed, minimal_be, minimal_be_u64_fast, UintClass};
use vcore::report::run_cases;
use vcore::sx::{atom_ser_len, Repr};
use vcore::{hx, sha256, Args, Report, Rng, Sx};

// ---------------------------------------------------------------------------
// integer types under observation

trait IntTy:
    Copy + std::fmt::Debug + PartialEq + ToClvm<Allocator> + FromClvm<Allocator> + 'static
{
    const NAME: &'static str;
    const TO_CLVM: &'static str;
    const FROM_CLVM: &'static str;
    const DECODE: &'static str;
    const SIGNED: bool;
    const LEN: usize;
    fn big(self) -> BigInt;
    fn mal(self) -> Malachite;
    fn from_big(b: &BigInt) -> Option<Self>;
    fn be(self) -> Vec<u8>;
    fn neg(self) -> bool;
    /// the real `decode_number::<LEN>` followed by `from_be_bytes` (what FromClvm does)
    fn decode(slice: &[u8]) -> Option<Self>;
    fn min_big() -> BigInt;
    fn max_big() -> BigInt;
}

macro_rules! int_ty {
    ($t:ty, $signed:expr) => {
        impl IntTy for $t {
            const NAME: &'static str = stringify!($t);
            const TO_CLVM: &'static str = concat!("ToClvm/", stringify!($t));
            const FROM_CLVM: &'static str = concat!("FromClvm/", stringify!($t));
            const DECODE: &'static str = concat!("decode_number/", stringify!($t));
            const SIGNED: bool = $signed;
            const LEN: usize = std::mem::size_of::<$t>();
            fn big(self) -> BigInt {
                BigInt::from(self)
            }
            fn mal(self) -> Malachite {
                Malachite::from(self)
            }
            fn from_big(b: &BigInt) -> Option<Self> {
                <$t>::try_from(b).ok()
            }
            fn be(self) -> Vec<u8> {
                self.to_be_bytes().to_vec()
            }
            #[allow(unused_comparisons)]
            fn neg(self) -> bool {
                self < 0
            }
            fn decode(slice: &[u8]) -> Option<Self> {
                decode_number::<{ std::mem::size_of::<$t>() }>(slice, $signed)
                    .map(<$t>::from_be_bytes)
            }
            fn min_big() -> BigInt {
                BigInt::from(<$t>::MIN)
            }
            fn max_big() -> BigInt {
                BigInt::from(<$t>::MAX)
            }
        }
    };
}

int_ty!(u8, false);
int_ty!(i8, true);
int_ty!(u16, false);
int_ty!(i16, true);
int_ty!(u32, false);
int_ty!(i32, true);
int_ty!(u64, false);
int_ty!(i64, true);
int_ty!(u128, false);
int_ty!(i128, true);
int_ty!(usize, false);
int_ty!(isize, true);

const NTYPES: usize = 12;

macro_rules! with_type {
    ($idx:expr, $T:ident => $body:expr) => {
        match $idx {
            0 => { type $T = u8; $body }
            1 => { type $T = i8; $body }
            2 => { type $T = u16; $body }
            3 => { type $T = i16; $body }
            4 => { type $T = u32; $body }
            5 => { type $T = i32; $body }
            6 => { type $T = u64; $body }
            7 => { type $T = i64; $body }
            8 => { type $T = u128; $body }
            9 => { type $T = i128; $body }
            10 => { type $T = usize; $body }
            11 => { type $T = isize; $body }
            _ => unreachable!("type index"),
        }
    };
}

/// every typed decoder, erased to big integers so one atom can be pushed through all of them
struct Dec {
    name_dn: &'static str,
    name_fc: &'static str,
    dn: fn(&[u8]) -> Option<BigInt>,
    fc: fn(&Allocator, NodePtr) -> Option<BigInt>,
    min: BigInt,
    max: BigInt,
}

fn dec_entry<T: IntTy>() -> Dec {
    Dec {
        name_dn: T::DECODE,
        name_fc: T::FROM_CLVM,
        dn: |s| T::decode(s).map(IntTy::big),
        fc: |a, n| T::from_clvm(a, n).ok().map(IntTy::big),
        min: T::min_big(),
        max: T::max_big(),
    }
}

fn all_decoders() -> Vec<Dec> {
    (0..NTYPES).map(|i| with_type!(i, T => dec_entry::<T>())).collect()
}

// ---------------------------------------------------------------------------
// tallies (flushed into the Report once per case; keeps the hot loops cheap)

const LEN_CAP: usize = 18;

#[derive(Default)]
struct Tally {
    /// (encoder, value class) -> evaluations
    enc: BTreeMap<(&'static str, u8), u64>,
    /// (decoder, atom length, outcome) -> evaluations
    dec: BTreeMap<(&'static str, u8, u8), u64>,
    /// (width, model class, atom length) -> evaluations
    san: BTreeMap<(u8, u8, u8), u64>,
    vclass: BTreeMap<u8, u64>,
    misc: BTreeMap<&'static str, u64>,
}

/// value class = byte length of the minimal form and the sign
fn vclass(len: usize, neg: bool) -> u8 {
    (len.min(LEN_CAP) * 2 + usize::from(neg)) as u8
}

fn vclass_name(c: u8) -> String {
    format!("{}{}B", if c & 1 == 1 { "neg" } else { "pos" }, c >> 1)
}

const DEC_OUTCOMES: [&str; 4] = ["ok-canonical", "ok-padded", "reject-out-of-range", "reject-padded"];
const SAN_CLASSES: [&str; 4] = ["ok", "negative", "too-big", "malformed"];

impl Tally {
    fn misc(&mut self, k: &'static str, n: u64) {
        *self.misc.entry(k).or_insert(0) += n;
    }

    fn flush(&mut self, rep: &mut Report) {
        for ((e, c), n) in std::mem::take(&mut self.enc) {
            rep.add(&format!("enc:{e}"), n);
            rep.evals(n);
            rep.cell(&format!("enc:{e}:{}", vclass_name(c)));
        }
        for ((d, l, o), n) in std::mem::take(&mut self.dec) {
            rep.add(&format!("dec:{d}"), n);
            rep.add(&format!("decode-outcome:{}", DEC_OUTCOMES[o as usize]), n);
            rep.evals(n);
            rep.cell(&format!("dec:{d}:len{l}:{}", DEC_OUTCOMES[o as usize]));
        }
        for ((w, c, l), n) in std::mem::take(&mut self.san) {
            rep.add(&format!("sanitize:w{w}:{}", SAN_CLASSES[c as usize]), n);
            rep.evals(n);
            rep.cell(&format!("sanitize:w{w}:{}:len{l}", SAN_CLASSES[c as usize]));
        }
        for (c, n) in std::mem::take(&mut self.vclass) {
            rep.add(&format!("vclass:{}", vclass_name(c)), n);
        }
        for (k, n) in std::mem::take(&mut self.misc) {
            rep.add(k, n);
        }
    }
}

/// keep witnesses for the first violations only (a broken ladder fails millions of times)
fn viol(rep: &mut Report, sig: &str, msg: impl FnOnce() -> String, detail: impl FnOnce() -> Value) {
    if rep.violation_count() < 100 {
        rep.violation(sig, &msg(), detail());
    } else {
        rep.violation(sig, "(witness suppressed after the first 100 violations)", Value::Null);
    }
}

fn show(b: &[u8]) -> String {
    if b.is_empty() {
        "<empty>".into()
    } else {
        hx(b)
    }
}

#[allow(clippy::too_many_arguments)]
fn enc_check(
    t: &mut Tally,
    rep: &mut Report,
    enc: &'static str,
    cls: u8,
    got: &[u8],
    want: &[u8],
    desc: &dyn Fn() -> String,
) {
    *t.enc.entry((enc, cls)).or_insert(0) += 1;
    if got != want {
        viol(
            rep,
            &format!("int-encode-mismatch:{enc}"),
            || {
                format!(
                    "{enc} produced {} for {}; the minimal two's-complement form of the integer gives {}",
                    show(got),
                    desc(),
                    show(want)
                )
            },
            || json!({"encoder": enc, "value": desc(), "got": hx(got), "want": hx(want)}),
        );
    }
}

#[allow(clippy::too_many_arguments)]
fn judge_decode(
    t: &mut Tally,
    rep: &mut Report,
    name: &'static str,
    atom: &[u8],
    val: &BigInt,
    canonical: bool,
    in_range: bool,
    got: Option<BigInt>,
) {
    let l = atom.len().min(LEN_CAP) as u8;
    let outcome = match &got {
        Some(g) => {
            if g != val {
                viol(
                    rep,
                    &format!("int-decode-mismatch:{name}"),
                    || format!("{name} decoded atom {} as {g} but it denotes {val}", show(atom)),
                    || json!({"decoder": name, "atom": hx(atom), "got": g.to_string(), "want": val.to_string()}),
                );
            }
            if canonical { 0 } else { 1 }
        }
        None => {
            if canonical && in_range {
                viol(
                    rep,
                    &format!("int-decode-rejected-canonical:{name}"),
                    || format!("{name} refused the canonical form {} of the in-range value {val}", show(atom)),
                    || json!({"decoder": name, "atom": hx(atom), "value": val.to_string()}),
                );
            }
            if in_range { 3 } else { 2 }
        }
    };
    *t.dec.entry((name, l, outcome)).or_insert(0) += 1;
}

/// push one atom through every decoder. Judged: a decoder that answers must answer the value
/// the atom denotes (never a truncation); the canonical form of an in-range value must be accepted.
/// Padded (non-canonical) spellings of in-range values may be accepted or refused — only counted.
fn check_decoders(
    t: &mut Tally,
    rep: &mut Report,
    decs: &[Dec],
    a: &Allocator,
    atom: &[u8],
    node: NodePtr,
    val: &BigInt,
    canonical: bool,
) {
    for d in decs {
        let in_range = *val >= d.min && *val <= d.max;
        judge_decode(t, rep, d.name_dn, atom, val, canonical, in_range, (d.dn)(atom));
        judge_decode(t, rep, d.name_fc, atom, val, canonical, in_range, (d.fc)(a, node));
    }
    judge_decode(t, rep, "Allocator::number", atom, val, canonical, true, Some(a.number(node)));
    judge_decode(t, rep, "FromClvm/BigInt", atom, val, canonical, true, BigInt::from_clvm(a, node).ok());
}

fn check_sanitize(t: &mut Tally, rep: &mut Report, a: &Allocator, node: NodePtr, atom: &[u8], w: usize) {
    let model = classify_uint(atom, w);
    let got = sanitize_uint(a, node, w, ValidationErr::Err(ErrorCode::InvalidCoinAmount));
    let mc: u8 = match &model {
        UintClass::Ok(_) => 0,
        UintClass::Negative => 1,
        UintClass::TooBig => 2,
        UintClass::Malformed => 3,
    };
    let ic: u8 = match &got {
        Ok(SanitizedUint::Ok(_)) => 0,
        Ok(SanitizedUint::NegativeOverflow) => 1,
        Ok(SanitizedUint::PositiveOverflow) => 2,
        Err(_) => 3,
    };
    *t.san.entry((w as u8, mc, atom.len().min(LEN_CAP) as u8)).or_insert(0) += 1;
    if mc != ic {
        let (m, i) = (SAN_CLASSES[mc as usize], SAN_CLASSES[ic as usize]);
        viol(
            rep,
            &format!("sanitize-uint-class:{m}->{i}"),
            || format!("sanitize_uint(width {w}) classifies atom {} as {i}; the rule says {m}", show(atom)),
            || json!({"atom": hx(atom), "width": w, "model": m, "impl": i}),
        );
    } else if let (UintClass::Ok(m), Ok(SanitizedUint::Ok(g))) = (&model, &got) {
        if m != g {
            viol(
                rep,
                "sanitize-uint-class:ok->ok-wrong-value",
                || format!("sanitize_uint(width {w}) returns {g} for atom {} which denotes {m}", show(atom)),
                || json!({"atom": hx(atom), "width": w, "got": g, "want": m}),
            );
        }
    }
}

// ---------------------------------------------------------------------------
// per-case context

struct Cx<'r> {
    a: Allocator,
    cp: Checkpoint,
    t: Tally,
    decs: &'r [Dec],
    rep: &'r mut Report,
    rng: &'r mut Rng,
    /// 1 in `pad_rate` values additionally goes through the decoders in a padded spelling
    pad_rate: u64,
}

impl<'r> Cx<'r> {
    fn new(decs: &'r [Dec], rep: &'r mut Report, rng: &'r mut Rng) -> Self {
        let a = Allocator::new();
        let cp = a.checkpoint();
        Cx { a, cp, t: Tally::default(), decs, rep, rng, pad_rate: 8 }
    }
    fn reset(&mut self) {
        self.a.restore_checkpoint(&self.cp);
    }
    fn finish(mut self) {
        self.t.flush(self.rep);
    }
}

fn atom_node(cx: &mut Cx, atom: &[u8], substr: bool) -> NodePtr {
    if substr {
        Sx::atom(atom).to_node(&mut cx.a, Repr::Substr, cx.rng)
    } else {
        cx.a.new_atom(atom).expect("new_atom")
    }
}

/// One value of type T through every width-generic encoder and every decoder.
/// Returns (minimal form by the model, value class). Does not reset the allocator.
fn check_value<T: IntTy>(v: T, cx: &mut Cx) -> (Vec<u8>, u8) {
    let big = v.big();
    let want = minimal_be(&big);
    let cls = vclass(want.len(), v.neg());
    *cx.t.vclass.entry(cls).or_insert(0) += 1;
    let desc = || format!("{}({:?})", T::NAME, v);

    // clvm-traits
    let be = v.be();
    enc_check(&mut cx.t, cx.rep, "encode_number", cls, &encode_number(&be, v.neg()), &want, &desc);
    match v.to_clvm(&mut cx.a) {
        Ok(n) => enc_check(&mut cx.t, cx.rep, T::TO_CLVM, cls, cx.a.atom(n).as_ref(), &want, &desc),
        Err(e) => cx.rep.harness_error(&format!("{} failed for {}: {e:?}", T::TO_CLVM, desc())),
    }
    match big.to_clvm(&mut cx.a) {
        Ok(n) => enc_check(&mut cx.t, cx.rep, "ToClvm/BigInt", cls, cx.a.atom(n).as_ref(), &want, &desc),
        Err(e) => cx.rep.harness_error(&format!("ToClvm/BigInt failed for {}: {e:?}", desc())),
    }
    // the interpreter's own constructors
    match cx.a.new_number(big.clone()) {
        Ok(n) => enc_check(&mut cx.t, cx.rep, "Allocator::new_number", cls, cx.a.atom(n).as_ref(), &want, &desc),
        Err(e) => cx.rep.harness_error(&format!("new_number failed for {}: {e:?}", desc())),
    }
    match cx.a.new_malachite_number(v.mal()) {
        Ok(n) => enc_check(&mut cx.t, cx.rep, "Allocator::new_malachite_number", cls, cx.a.atom(n).as_ref(), &want, &desc),
        Err(e) => cx.rep.harness_error(&format!("new_malachite_number failed for {}: {e:?}", desc())),
    }
    if let Ok(u) = u64::try_from(&big) {
        match cx.a.new_u64(u) {
            Ok(n) => enc_check(&mut cx.t, cx.rep, "Allocator::new_u64", cls, cx.a.atom(n).as_ref(), &want, &desc),
            Err(e) => cx.rep.harness_error(&format!("new_u64 failed for {}: {e:?}", desc())),
        }
    }
    if let Ok(i) = i64::try_from(&big) {
        match cx.a.new_i64(i) {
            Ok(n) => enc_check(&mut cx.t, cx.rep, "Allocator::new_i64", cls, cx.a.atom(n).as_ref(), &want, &desc),
            Err(e) => cx.rep.harness_error(&format!("new_i64 failed for {}: {e:?}", desc())),
        }
    }

    // every decoder, from the canonical form (typed round trip first: the value itself must come back)
    let substr = cx.rng.bool();
    let node = atom_node(cx, &want, substr);
    match T::from_clvm(&cx.a, node) {
        Ok(back) if back == v => {}
        other => viol(
            cx.rep,
            &format!("int-decode-mismatch:{}", T::FROM_CLVM),
            || format!("{} of the canonical form {} of {} returned {other:?}", T::FROM_CLVM, show(&want), desc()),
            || json!({"decoder": T::FROM_CLVM, "value": desc(), "atom": hx(&want), "got": format!("{other:?}")}),
        ),
    }
    check_decoders(&mut cx.t, cx.rep, cx.decs, &cx.a, &want, node, &big, true);
    check_sanitize(&mut cx.t, cx.rep, &cx.a, node, &want, 4);
    check_sanitize(&mut cx.t, cx.rep, &cx.a, node, &want, 8);

    // a padded spelling of the same value: decoders may refuse it but must never misread it;
    // sanitize_uint must refuse it (non-negative) or call it negative
    if cx.rng.below(cx.pad_rate) == 0 {
        let k = *cx.rng.pick(&[1usize, 1, 2, 7, 63, 64, 65]);
        let pad = if v.neg() { 0xffu8 } else { 0 };
        let mut padded = vec![pad; k];
        padded.extend_from_slice(&want);
        let substr = cx.rng.bool();
        let pn = atom_node(cx, &padded, substr);
        check_decoders(&mut cx.t, cx.rep, cx.decs, &cx.a, &padded, pn, &big, false);
        check_sanitize(&mut cx.t, cx.rep, &cx.a, pn, &padded, 4);
        check_sanitize(&mut cx.t, cx.rep, &cx.a, pn, &padded, 8);
        cx.t.misc("padded_spellings", 1);
    }
    (want, cls)
}

// ---------------------------------------------------------------------------
// the u64-only ladders (coin id, signature messages, generator length)

fn gen_small_tree(rng: &mut Rng, budget: &mut i32) -> Sx {
    *budget -= 1;
    if *budget <= 0 || rng.chance(2, 5) {
        let n = match rng.below(6) {
            0 => 0,
            1 => 1,
            2 => 32,
            3 => 1 + rng.usize(4),
            4 => 60 + rng.usize(10),
            _ => rng.usize(12),
        };
        return Sx::atom(&rng.bytes(n));
    }
    let l = gen_small_tree(rng, budget);
    let r = gen_small_tree(rng, budget);
    Sx::pair(l, r)
}

/// `(q . (((parent puzzle amount solution))))` — the generator `solution_generator` documents
fn model_generator(parent: &[u8; 32], puzzle: &Sx, amount_atom: &[u8], solution: &Sx) -> Sx {
    let spend = Sx::list(&[Sx::atom(parent), puzzle.clone(), Sx::atom(amount_atom), solution.clone()]);
    Sx::pair(Sx::atom(&[1]), Sx::list(&[Sx::list(&[spend])]))
}

struct U64Env {
    parent: [u8; 32],
    ph: [u8; 32],
    puzzle: Sx,
    solution: Sx,
    puzzle_ser: Vec<u8>,
    solution_ser: Vec<u8>,
    cs: CoinSpend,
    osc: OwnedSpendConditions,
    msg_prefix: Vec<u8>,
    /// model length of the one-spend generator without its amount atom
    k_len: usize,
}

fn edge_hash(rng: &mut Rng) -> [u8; 32] {
    match rng.below(8) {
        0 => [0u8; 32],
        1 => [0xffu8; 32],
        _ => rng.bytes32(),
    }
}

impl U64Env {
    fn new(rng: &mut Rng) -> Self {
        let parent = edge_hash(rng);
        let ph = edge_hash(rng);
        let mut b = 1 + rng.below(12) as i32;
        let puzzle = gen_small_tree(rng, &mut b);
        let mut b = 1 + rng.below(12) as i32;
        let solution = gen_small_tree(rng, &mut b);
        let puzzle_ser = puzzle.serialize();
        let solution_ser = solution.serialize();
        let cs = CoinSpend::new(
            Coin::new(Bytes32::new(parent), Bytes32::new(ph), 0),
            Program::from(puzzle_ser.clone()),
            Program::from(solution_ser.clone()),
        );
        let osc = OwnedSpendConditions {
            parent_id: Bytes32::new(parent),
            puzzle_hash: Bytes32::new(ph),
            ..Default::default()
        };
        let n = rng.usize(40);
        let msg_prefix = rng.bytes(n);
        let k_len = model_generator(&parent, &puzzle, &[], &solution).serialize().len() - atom_ser_len(&[]);
        U64Env { parent, ph, puzzle, solution, puzzle_ser, solution_ser, cs, osc, msg_prefix, k_len }
    }
}

#[derive(Clone, Copy)]
struct Mode {
    /// Coin::coin_id, make_aggsig_final_message, process_single_spend
    hashing: bool,
    /// the real serializer (allocates a fresh Allocator per call)
    solgen: bool,
}

fn check_u64_ladders(v: u64, want: &[u8], cls: u8, env: &mut U64Env, cx: &mut Cx, mode: Mode) {
    let desc = || format!("u64({v})");
    enc_check(&mut cx.t, cx.rep, "u64_to_bytes", cls, &u64_to_bytes(v), want, &desc);

    // generator length prediction = serialized length of the model generator
    env.cs.coin.amount = v;
    let predicted = calculate_generator_length(std::slice::from_ref(&env.cs));
    let want_len = env.k_len + atom_ser_len(want);
    *cx.t.enc.entry(("calculate_generator_length", cls)).or_insert(0) += 1;
    if predicted != want_len {
        viol(
            cx.rep,
            "int-encode-mismatch:calculate_generator_length",
            || {
                format!(
                    "calculate_generator_length predicts {predicted} bytes for a one-spend generator with amount {v}; \
                     its serialization has {want_len} bytes (amount atom {} takes {})",
                    show(want),
                    atom_ser_len(want)
                )
            },
            || json!({"amount": v, "predicted": predicted, "model_length": want_len,
                       "puzzle": hx(&env.puzzle_ser), "solution": hx(&env.solution_ser)}),
        );
    }
    if mode.solgen {
        let model = model_generator(&env.parent, &env.puzzle, want, &env.solution).serialize();
        if model.len() != want_len {
            cx.rep.harness_error("model generator length inconsistent with k_len + atom length");
        }
        match solution_generator([(env.cs.coin, env.puzzle_ser.as_slice(), env.solution_ser.as_slice())]) {
            Ok(b) => enc_check(&mut cx.t, cx.rep, "solution_generator", cls, &b, &model, &desc),
            Err(e) => cx.rep.harness_error(&format!("solution_generator failed for amount {v}: {e:?}")),
        }
    }
    if !mode.hashing {
        return;
    }

    let id = sha256(&[&env.parent, &env.ph, want]);
    let coin = Coin::new(Bytes32::new(env.parent), Bytes32::new(env.ph), v);
    enc_check(&mut cx.t, cx.rep, "Coin::coin_id", cls, coin.coin_id().as_ref(), &id, &desc);

    // signature message suffixes
    env.osc.coin_amount = v;
    let c = &TEST_CONSTANTS;
    let cases: [(_, &'static str, Vec<&[u8]>); 4] = [
        (AGG_SIG_AMOUNT, "make_aggsig_final_message/AGG_SIG_AMOUNT",
         vec![want, c.agg_sig_amount_additional_data.as_ref()]),
        (AGG_SIG_PUZZLE_AMOUNT, "make_aggsig_final_message/AGG_SIG_PUZZLE_AMOUNT",
         vec![&env.ph, want, c.agg_sig_puzzle_amount_additional_data.as_ref()]),
        (AGG_SIG_PARENT_AMOUNT, "make_aggsig_final_message/AGG_SIG_PARENT_AMOUNT",
         vec![&env.parent, want, c.agg_sig_parent_amount_additional_data.as_ref()]),
        (AGG_SIG_ME, "make_aggsig_final_message/AGG_SIG_ME",
         vec![&id, c.agg_sig_me_additional_data.as_ref()]),
    ];
    for (op, name, parts) in cases {
        let mut msg = env.msg_prefix.clone();
        make_aggsig_final_message(op, &mut msg, &env.osc, c);
        let mut expect = env.msg_prefix.clone();
        for p in parts {
            expect.extend_from_slice(p);
        }
        enc_check(&mut cx.t, cx.rep, name, cls, &msg, &expect, &desc);
    }

    // consensus path: amount atom in canonical form -> parsed amount and compute_coin_id
    let substr = cx.rng.bool();
    let p = cx.a.new_atom(&env.parent).expect("new_atom");
    let h = cx.a.new_atom(&env.ph).expect("new_atom");
    let amt = atom_node(cx, want, substr);
    let mut ret = SpendBundleConditions::default();
    let mut st = ParseState::default();
    let mut max_cost: u64 = 1 << 60;
    let nil = cx.a.nil();
    let r = process_single_spend::<EmptyVisitor>(
        &cx.a, &mut ret, &mut st, p, h, amt, nil, ConsensusFlags::empty(), &mut max_cost, 0, c,
    );
    match r {
        Ok(sp) => {
            let got_amount = sp.coin_amount;
            let got_id: [u8; 32] = (*sp.coin_id).into();
            judge_decode(&mut cx.t, cx.rep, "process_single_spend/amount", want, &BigInt::from(v), true, true,
                         Some(BigInt::from(got_amount)));
            enc_check(&mut cx.t, cx.rep, "compute_coin_id", cls, &got_id, &id, &desc);
        }
        Err(e) => viol(
            cx.rep,
            "canonical-amount-rejected:process_single_spend",
            || format!("process_single_spend refused a spend whose amount atom {} is the canonical form of {v}: {e:?}", show(want)),
            || json!({"amount": v, "atom": hx(want)}),
        ),
    }
}

/// full treatment of one u64: generic encoders/decoders + the u64 ladders
fn check_u64_full(v: u64, env: &mut U64Env, cx: &mut Cx, mode: Mode) {
    let (want, cls) = check_value::<u64>(v, cx);
    let (buf, start) = minimal_be_u64_fast(v);
    cx.t.misc("fast_model_crosschecks", 1);
    if buf[start..] != want[..] {
        cx.rep.harness_error(&format!("fast u64 model disagrees with the big-integer model at {v}"));
    }
    check_u64_ladders(v, &want, cls, env, cx, mode);
    cx.reset();
}

// ---------------------------------------------------------------------------
// streams

const FULL: Mode = Mode { hashing: true, solgen: true };

/// centers of the u64 windows: 0, 2^(8k-1) and 2^(8k) for k = 1..=8 (2^64 = one past the top)
fn u64_centers() -> Vec<u128> {
    let mut c = vec![0u128];
    for k in 1..=8u32 {
        c.push(1u128 << (8 * k - 1));
        c.push(1u128 << (8 * k));
    }
    c
}

const U64_RADIUS_BLOCKS: u64 = 32; // 32 blocks of 4096 = +-2^16
const U64_BLOCK: i128 = 4096;

/// ring r -> signed block offset, nearest blocks first: 0, -1, 1, -2, 2, ...
fn ring_offset(r: u64) -> i128 {
    if r % 2 == 0 {
        (r / 2) as i128
    } else {
        -((r / 2) as i128) - 1
    }
}

fn case_u64_window(j: u64, cx: &mut Cx) {
    let centers = u64_centers();
    let c = centers[(j % centers.len() as u64) as usize];
    let ring = j / centers.len() as u64;
    let lo = c as i128 + ring_offset(ring) * U64_BLOCK;
    let mut env = U64Env::new(cx.rng);
    let mut n = 0u64;
    for x in lo..lo + U64_BLOCK {
        if let Ok(v) = u64::try_from(x) {
            check_u64_full(v, &mut env, cx, FULL);
            n += 1;
        }
    }
    cx.t.misc("u64_window_values", n);
    if cx.rep.want_sample() {
        if let Ok(v) = u64::try_from(lo.max(0)) {
            let want = minimal_be(&BigInt::from(v));
            cx.rep.sample(json!({"kind": "u64-window", "first_value": v, "block": U64_BLOCK as u64,
                "minimal_form": hx(&want), "parent": hx(&env.parent), "puzzle_hash": hx(&env.ph),
                "coin_id_model": hx(&sha256(&[&env.parent, &env.ph, &want])),
                "sanitize_w4_model": format!("{:?}", classify_uint(&want, 4))}));
        }
    }
}

fn centers_for<T: IntTy>(radius: u64) -> Vec<BigInt> {
    let mut c = vec![BigInt::from(0)];
    for k in 1..=T::LEN {
        for e in [8 * k - 1, 8 * k] {
            let p = BigInt::from(1) << e;
            c.push(p.clone());
            if T::SIGNED {
                c.push(-p);
            }
        }
    }
    let r = BigInt::from(radius);
    c.retain(|x| x - &r <= T::max_big() && x + &r > T::min_big());
    c.sort();
    c.dedup();
    c
}

const TYPE_BLOCK: u64 = 1024;
const TYPE_RINGS: u64 = 8; // 8 blocks of 1024 = +-2^12

/// (type index, center) pairs for the wide types other than u64 (which has its own stream)
fn type_windows() -> Vec<(usize, BigInt)> {
    let mut v = vec![];
    for ti in [4usize, 5, 7, 8, 9, 10, 11] {
        let cs = with_type!(ti, T => centers_for::<T>(TYPE_BLOCK * TYPE_RINGS / 2));
        for c in cs {
            v.push((ti, c));
        }
    }
    v
}

fn run_values<T: IntTy>(lo: &BigInt, n: u64, cx: &mut Cx) -> u64 {
    let mut done = 0;
    let mut x = lo.clone();
    for _ in 0..n {
        if let Some(v) = T::from_big(&x) {
            check_value::<T>(v, cx);
            cx.reset();
            done += 1;
        }
        x += 1;
    }
    done
}

fn case_type_window(j: u64, wins: &[(usize, BigInt)], cx: &mut Cx) {
    let (ti, c) = &wins[(j % wins.len() as u64) as usize];
    let ring = j / wins.len() as u64;
    let lo = c + BigInt::from(ring_offset(ring) * TYPE_BLOCK as i128);
    let n = with_type!(*ti, T => run_values::<T>(&lo, TYPE_BLOCK, cx));
    cx.t.misc("type_window_values", n);
}

/// exhaustive u8 (case 0), i8 (case 1), u16 (cases 2..18), i16 (cases 18..34)
fn case_small(j: u64, cx: &mut Cx) {
    let n = match j {
        0 => run_values::<u8>(&BigInt::from(0), 256, cx),
        1 => run_values::<i8>(&BigInt::from(-128), 256, cx),
        2..=17 => run_values::<u16>(&BigInt::from((j - 2) * 4096), 4096, cx),
        _ => run_values::<i16>(&BigInt::from(-32768 + (j as i64 - 18) * 4096), 4096, cx),
    };
    cx.t.misc("small_type_values", n);
}

fn check_atom(atom: &[u8], cx: &mut Cx) {
    let val = decode_signed(atom);
    let canonical = minimal_be(&val) == atom;
    cx.t.misc(if canonical { "atoms_canonical" } else { "atoms_noncanonical" }, 1);
    let plain = atom_node(cx, atom, false);
    let sub = atom_node(cx, atom, true);
    for node in [plain, sub] {
        check_sanitize(&mut cx.t, cx.rep, &cx.a, node, atom, 4);
        check_sanitize(&mut cx.t, cx.rep, &cx.a, node, atom, 8);
    }
    let node = if cx.rng.bool() { plain } else { sub };
    check_decoders(&mut cx.t, cx.rep, cx.decs, &cx.a, atom, node, &val, canonical);
    cx.reset();
}

/// interesting first bytes first, so a scaled-down run still sees them
fn first_byte_order(k: u64) -> u8 {
    const HEAD: [u8; 5] = [0x00, 0x01, 0x7f, 0x80, 0xff];
    if (k as usize) < HEAD.len() {
        return HEAD[k as usize];
    }
    let mut rest = (0u16..256).map(|b| b as u8).filter(|b| !HEAD.contains(b));
    rest.nth(k as usize - HEAD.len()).expect("first byte index")
}

/// case 0: a pair, the empty atom and all 1-byte atoms; cases 1..=256: 2-byte atoms by first byte
fn case_short_atoms(j: u64, cx: &mut Cx) {
    if j == 0 {
        // A.2: a pair is malformed
        let nil = cx.a.nil();
        let pair = cx.a.new_pair(nil, nil).expect("new_pair");
        for w in [4usize, 8] {
            cx.t.misc("sanitize_pair", 1);
            cx.rep.eval();
            if sanitize_uint(&cx.a, pair, w, ValidationErr::Err(ErrorCode::InvalidCoinAmount)).is_ok() {
                viol(cx.rep, "sanitize-uint-class:malformed->accepted-pair",
                     || format!("sanitize_uint(width {w}) accepted a pair"), || json!({"width": w}));
            }
        }
        cx.reset();
        check_atom(&[], cx);
        for b in 0..=255u8 {
            check_atom(&[b], cx);
        }
        cx.t.misc("short_atoms", 257);
    } else {
        let b0 = first_byte_order(j - 1);
        for b1 in 0..=255u8 {
            check_atom(&[b0, b1], cx);
        }
        cx.t.misc("short_atoms", 256);
    }
}

/// atoms of length 3 with first byte `first_byte_order(j)`; all of them, or 8 sampled last bytes per prefix
fn case_len3_atoms(j: u64, all: bool, cx: &mut Cx) {
    let b0 = first_byte_order(j);
    let mut n = 0;
    for b1 in 0..=255u8 {
        if all {
            for b2 in 0..=255u8 {
                check_atom(&[b0, b1, b2], cx);
                n += 1;
            }
        } else {
            for k in 0..8 {
                let b2 = match k {
                    0 => 0x00,
                    1 => 0x7f,
                    2 => 0x80,
                    3 => 0xff,
                    _ => cx.rng.u8(),
                };
                check_atom(&[b0, b1, b2], cx);
                n += 1;
            }
        }
    }
    cx.t.misc("len3_atoms", n);
}

const LEAD: [u8; 5] = [0x00, 0x01, 0x7f, 0x80, 0xff];
const PATTERN_LENS: std::ops::RangeInclusive<usize> = 3..=10;
const PATTERN_PAIRS: u64 = 25 * 8;
const PATTERN_TAILS: usize = 256;

fn pattern_tail(kind: usize, n: usize, rng: &mut Rng) -> Vec<u8> {
    match kind {
        0 => vec![0; n],
        1 => vec![0xff; n],
        2 => {
            let mut t = vec![0; n];
            t[0] = 0x80;
            t
        }
        3 => {
            let mut t = vec![0xff; n];
            t[0] = 0x7f;
            t
        }
        4 => {
            let mut t = vec![0; n];
            t[n - 1] = 1;
            t
        }
        _ => rng.bytes(n),
    }
}

fn case_pattern_atoms(j: u64, tails: usize, cx: &mut Cx) {
    let p = j % PATTERN_PAIRS;
    let (combo, li) = (p / 8, p % 8);
    let (b0, b1) = (LEAD[(combo / 5) as usize], LEAD[(combo % 5) as usize]);
    let len = PATTERN_LENS.start() + li as usize;
    for k in 0..tails {
        let mut atom = vec![b0, b1];
        atom.extend(pattern_tail(k, len - 2, cx.rng));
        check_atom(&atom, cx);
    }
    cx.t.misc("pattern_atoms", tails as u64);
    if cx.rep.want_sample() {
        let mut atom = vec![b0, b1];
        atom.extend(pattern_tail(2, len - 2, cx.rng));
        cx.rep.sample(json!({"kind": "pattern-atom", "atom": hx(&atom), "denotes": decode_signed(&atom).to_string(),
            "uint4_model": format!("{:?}", classify_uint(&atom, 4)), "uint8_model": format!("{:?}", classify_uint(&atom, 8))}));
    }
}

fn random_value<T: IntTy>(rng: &mut Rng) -> T {
    let maxbits = if T::SIGNED { 8 * T::LEN - 1 } else { 8 * T::LEN } as u64;
    let bits = rng.below(maxbits + 1) as u32;
    let raw: u128 = (u128::from(rng.u64()) << 64) | u128::from(rng.u64());
    let mag = if bits == 0 {
        0
    } else {
        let m = if bits == 128 { raw } else { raw & ((1u128 << bits) - 1) };
        m | (1u128 << (bits - 1))
    };
    let mut b = BigInt::from(mag);
    if T::SIGNED && rng.bool() {
        b = -b - 1;
    }
    T::from_big(&b).expect("random value in range")
}

fn case_random(values: u64, cx: &mut Cx) {
    let mut env = U64Env::new(cx.rng);
    for k in 0..values {
        if k % 2 == 0 {
            let v = if cx.rng.bool() { cx.rng.u64() } else { random_value::<u64>(cx.rng) };
            check_u64_full(v, &mut env, cx, FULL);
            cx.t.misc("random_u64_values", 1);
        } else {
            let ti = if cx.rng.chance(1, 3) { 9 } else { cx.rng.usize(NTYPES) };
            with_type!(ti, T => {
                let v = random_value::<T>(cx.rng);
                check_value::<T>(v, cx);
            });
            cx.reset();
            cx.t.misc("random_typed_values", 1);
        }
    }
}

// ---- the large contiguous sweep through the non-hashing ladders ----

const SWEEP_BLOCK: u64 = 1 << 16;

fn atom_is(a: &Allocator, n: NodePtr, want: &[u8]) -> bool {
    a.atom(n).as_ref() == want
}

fn sweep_fail(cx: &mut Cx, enc: &'static str, v: u64, got: &[u8], want: &[u8]) {
    viol(
        cx.rep,
        &format!("int-encode-mismatch:{enc}"),
        || format!("{enc} produced {} for u64({v}) where the minimal two's-complement form gives {}", show(got), show(want)),
        || json!({"encoder": enc, "value": v, "got": hx(got), "want": hx(want), "stream": "sweep"}),
    );
}

fn sweep_dec_fail(cx: &mut Cx, dec: &'static str, v: u64, want: &[u8], got: String) {
    viol(
        cx.rep,
        &format!("int-decode-mismatch:{dec}"),
        || format!("{dec} of the canonical form {} of u64({v}) returned {got}", show(want)),
        || json!({"decoder": dec, "value": v, "atom": hx(want), "got": got, "stream": "sweep"}),
    );
}

const SWEEP_ENCODERS: [&str; 7] = [
    "u64_to_bytes",
    "calculate_generator_length",
    "encode_number",
    "ToClvm/u64",
    "Allocator::new_number",
    "Allocator::new_u64",
    "ToClvm/u32",
];
const SWEEP_DECODERS: [&str; 4] = ["decode_number/u64", "FromClvm/u64", "decode_number/u32", "FromClvm/u32"];

/// One block of 2^16 consecutive values starting at `lo` (`lo + 2^16 - 1` must not overflow).
fn case_sweep_block(lo: u64, cx: &mut Cx) {
    let hi = lo + (SWEEP_BLOCK - 1);
    let mut env = U64Env::new(cx.rng);

    // the fast model is only trusted as far as it agrees with the big-integer one
    let mut probes = vec![lo, hi];
    for _ in 0..14 {
        probes.push(lo + cx.rng.below(SWEEP_BLOCK));
    }
    for p in probes {
        let (buf, start) = minimal_be_u64_fast(p);
        cx.t.misc("fast_model_crosschecks", 1);
        if buf[start..] != minimal_be(&BigInt::from(p))[..] {
            cx.rep.harness_error(&format!("fast u64 model disagrees with the big-integer model at {p}"));
        }
    }
    // one value per block through everything, hashing included
    check_u64_full(lo, &mut env, cx, FULL);

    let mut by_len = [0u64; 10];
    let mut by_len32 = [0u64; 10];
    for v in lo..=hi {
        let (buf, start) = minimal_be_u64_fast(v);
        let want = &buf[start..];
        by_len[want.len()] += 1;

        let got = u64_to_bytes(v);
        if got != want {
            sweep_fail(cx, "u64_to_bytes", v, &got, want);
        }
        env.cs.coin.amount = v;
        let predicted = calculate_generator_length(std::slice::from_ref(&env.cs));
        let want_len = env.k_len + atom_ser_len(want);
        if predicted != want_len {
            viol(
                cx.rep,
                "int-encode-mismatch:calculate_generator_length",
                || format!("calculate_generator_length predicts {predicted} bytes for a one-spend generator with amount {v}; its serialization has {want_len} bytes"),
                || json!({"amount": v, "predicted": predicted, "model_length": want_len, "stream": "sweep",
                           "puzzle": hx(&env.puzzle_ser), "solution": hx(&env.solution_ser)}),
            );
        }
        let got = encode_number(&v.to_be_bytes(), false);
        if got != want {
            sweep_fail(cx, "encode_number", v, &got, want);
        }
        match v.to_clvm(&mut cx.a) {
            Ok(n) => {
                if !atom_is(&cx.a, n, want) {
                    let g = cx.a.atom(n).as_ref().to_vec();
                    sweep_fail(cx, "ToClvm/u64", v, &g, want);
                }
            }
            Err(e) => cx.rep.harness_error(&format!("ToClvm/u64 failed for {v}: {e:?}")),
        }
        match cx.a.new_number(BigInt::from(v)) {
            Ok(n) => {
                if !atom_is(&cx.a, n, want) {
                    let g = cx.a.atom(n).as_ref().to_vec();
                    sweep_fail(cx, "Allocator::new_number", v, &g, want);
                }
            }
            Err(e) => cx.rep.harness_error(&format!("new_number failed for {v}: {e:?}")),
        }
        let node = match cx.a.new_u64(v) {
            Ok(n) => {
                if !atom_is(&cx.a, n, want) {
                    let g = cx.a.atom(n).as_ref().to_vec();
                    sweep_fail(cx, "Allocator::new_u64", v, &g, want);
                }
                Some(n)
            }
            Err(e) => {
                cx.rep.harness_error(&format!("new_u64 failed for {v}: {e:?}"));
                None
            }
        };
        // decoders, from the model's bytes and from the interpreter's node
        if <u64 as IntTy>::decode(want) != Some(v) {
            sweep_dec_fail(cx, "decode_number/u64", v, want, format!("{:?}", <u64 as IntTy>::decode(want)));
        }
        if let Some(n) = node {
            match u64::from_clvm(&cx.a, n) {
                Ok(b) if b == v => {}
                other => sweep_dec_fail(cx, "FromClvm/u64", v, want, format!("{other:?}")),
            }
            // canonical non-negative values: Ok(v) inside the width, positive overflow outside (A.2)
            for w in [4usize, 8] {
                let r = sanitize_uint(&cx.a, n, w, ValidationErr::Err(ErrorCode::InvalidCoinAmount));
                let inside = w == 8 || v < (1u64 << 32);
                let good = match &r {
                    Ok(SanitizedUint::Ok(g)) => inside && *g == v,
                    Ok(SanitizedUint::PositiveOverflow) => !inside,
                    _ => false,
                };
                if !good {
                    let m = if inside { "ok" } else { "too-big" };
                    let i = match &r {
                        Ok(SanitizedUint::Ok(_)) if inside => "ok-wrong-value",
                        Ok(SanitizedUint::Ok(_)) => "ok",
                        Ok(SanitizedUint::NegativeOverflow) => "negative",
                        Ok(SanitizedUint::PositiveOverflow) => "too-big",
                        Err(_) => "malformed",
                    };
                    viol(
                        cx.rep,
                        &format!("sanitize-uint-class:{m}->{i}"),
                        || format!("sanitize_uint(width {w}) returned {r:?} for the canonical form {} of {v}", show(want)),
                        || json!({"atom": hx(want), "width": w, "value": v, "stream": "sweep"}),
                    );
                }
            }
        }
        if let Ok(v32) = u32::try_from(v) {
            by_len32[want.len()] += 1;
            match v32.to_clvm(&mut cx.a) {
                Ok(n) => {
                    if !atom_is(&cx.a, n, want) {
                        let g = cx.a.atom(n).as_ref().to_vec();
                        sweep_fail(cx, "ToClvm/u32", v, &g, want);
                    }
                    match u32::from_clvm(&cx.a, n) {
                        Ok(b) if b == v32 => {}
                        other => sweep_dec_fail(cx, "FromClvm/u32", v, want, format!("{other:?}")),
                    }
                }
                Err(e) => cx.rep.harness_error(&format!("ToClvm/u32 failed for {v}: {e:?}")),
            }
            if <u32 as IntTy>::decode(want) != Some(v32) {
                sweep_dec_fail(cx, "decode_number/u32", v, want, format!("{:?}", <u32 as IntTy>::decode(want)));
            }
        }
        cx.reset();
    }
    for l in 0..10 {
        if by_len[l] == 0 {
            continue;
        }
        let cls = vclass(l, false);
        *cx.t.vclass.entry(cls).or_insert(0) += by_len[l];
        for e in SWEEP_ENCODERS {
            let n = if e == "ToClvm/u32" { by_len32[l] } else { by_len[l] };
            if n > 0 {
                *cx.t.enc.entry((e, cls)).or_insert(0) += n;
            }
        }
        for d in SWEEP_DECODERS {
            let n = if d.ends_with("u32") { by_len32[l] } else { by_len[l] };
            if n > 0 {
                *cx.t.dec.entry((d, l as u8, 0)).or_insert(0) += n;
            }
        }
        *cx.t.san.entry((8, 0, l as u8)).or_insert(0) += by_len[l];
        // width 4: ok below 2^32, too-big above
        if by_len32[l] > 0 {
            *cx.t.san.entry((4, 0, l as u8)).or_insert(0) += by_len32[l];
        }
        if by_len[l] > by_len32[l] {
            *cx.t.san.entry((4, 2, l as u8)).or_insert(0) += by_len[l] - by_len32[l];
        }
    }
}

/// centers of the high sweep: the byte-length boundaries at and above 2^32
fn hi_sweep_centers() -> Vec<u128> {
    u64_centers().into_iter().filter(|c| *c >= 1u128 << 32).collect()
}

/// block `j` of the high sweep: around center `j % n`, ring `j / n` (nearest first)
fn case_hi_sweep_block(j: u64, cx: &mut Cx) {
    let centers = hi_sweep_centers();
    let c = centers[(j % centers.len() as u64) as usize] as i128;
    let lo = c + ring_offset(j / centers.len() as u64) * SWEEP_BLOCK as i128;
    // the window around 2^64 only has its lower half
    if let Ok(lo) = u64::try_from(lo) {
        case_sweep_block(lo, cx);
        cx.t.misc("hi_sweep_values", SWEEP_BLOCK);
    } else {
        cx.t.misc("hi_sweep_blocks_outside_u64", 1);
    }
}

// ---------------------------------------------------------------------------
// Miri: a tiny fixed plan (the interpreter is ~10^4 times slower)

const MIRI_ATOM_CASES: u64 = 8;

fn miri_cases() -> u64 {
    u64_centers().len() as u64 + NTYPES as u64 + MIRI_ATOM_CASES
}

fn case_miri(i: u64, cx: &mut Cx) {
    cx.pad_rate = 4;
    let nc = u64_centers().len() as u64;
    if i < nc {
        let c = u64_centers()[i as usize] as i128;
        let mut env = U64Env::new(cx.rng);
        for d in -2i128..=2 {
            if let Ok(v) = u64::try_from(c + d) {
                let near = d == -1 || d == 0;
                check_u64_full(v, &mut env, cx, Mode { hashing: near, solgen: near });
                cx.t.misc("miri_u64_values", 1);
            }
        }
    } else if i < nc + NTYPES as u64 {
        let ti = (i - nc) as usize;
        let n = with_type!(ti, T => {
            let mut n = 0;
            for c in centers_for::<T>(2) {
                n += run_values::<T>(&(c - 1), 3, cx);
            }
            n
        });
        cx.t.misc("miri_typed_values", n);
    } else {
        let j = i - nc - NTYPES as u64;
        if j == 0 {
            check_atom(&[], cx);
        }
        for b in (0..=255u8).filter(|b| u64::from(*b) % MIRI_ATOM_CASES == j) {
            check_atom(&[b], cx);
        }
        for b0 in LEAD {
            for b1 in LEAD {
                for len in [2usize, 3, 5, 9, 10] {
                    let mut atom = vec![b0, b1];
                    if len > 2 {
                        atom.extend(pattern_tail(j as usize, len - 2, cx.rng));
                    }
                    check_atom(&atom, cx);
                    cx.t.misc("miri_atoms", 1);
                }
            }
        }
    }
}

// ---------------------------------------------------------------------------
// plan

#[derive(Clone, Copy, Debug, PartialEq)]
enum Stream {
    Small,
    U64Win,
    TypeWin,
    Short,
    Len3,
    Pattern,
    Random,
    Sweep,
    HiSweep,
}

struct Plan {
    parts: Vec<(Stream, u64)>,
}

impl Plan {
    fn total(&self) -> u64 {
        self.parts.iter().map(|p| p.1).sum()
    }
    fn locate(&self, mut i: u64) -> (Stream, u64) {
        for (s, n) in &self.parts {
            if i < *n {
                return (*s, i);
            }
            i -= n;
        }
        panic!("case index {i} beyond the plan");
    }
    fn count(&self, s: Stream) -> u64 {
        self.parts.iter().find(|p| p.0 == s).map_or(0, |p| p.1)
    }
}

/// sweep size per tier, in blocks of 2^16 values (thorough: every value below 2^32)
const SWEEP_BLOCKS_QUICK: u64 = 1 << 12; // [0, 2^28)
const SWEEP_BLOCKS_THOROUGH: u64 = 1 << 16; // [0, 2^32)
/// high sweep radius per tier, in blocks of 2^16 on each side of a boundary
const HI_SWEEP_RINGS_QUICK: u64 = 2 * 16; // +-2^20
const HI_SWEEP_RINGS_THOROUGH: u64 = 2 * 256; // +-2^24

fn build_plan(args: &Args, nwins: u64) -> Plan {
    let thorough = args.thorough();
    let sc = |n: u64| -> u64 { ((n as f64) * args.scale).ceil().max(1.0) as u64 };
    let base = [
        (Stream::Small, 34),
        (Stream::U64Win, u64_centers().len() as u64 * U64_RADIUS_BLOCKS),
        (Stream::TypeWin, nwins * TYPE_RINGS),
        (Stream::Short, 257),
        (Stream::Len3, 256),
        (Stream::Pattern, PATTERN_PAIRS * if thorough { 40 } else { 4 }),
        (Stream::Random, if thorough { 2560 } else { 256 }),
        (Stream::Sweep, if thorough { SWEEP_BLOCKS_THOROUGH } else { SWEEP_BLOCKS_QUICK }),
        (Stream::HiSweep, hi_sweep_centers().len() as u64
            * if thorough { HI_SWEEP_RINGS_THOROUGH } else { HI_SWEEP_RINGS_QUICK }),
    ];
    // the two tiny exhaustive streams are never scaled down
    let keep = |s: Stream| s == Stream::Small || s == Stream::Short;
    Plan { parts: base.iter().map(|(s, n)| (*s, if keep(*s) { *n } else { sc(*n) })).collect() }
}

fn main() {
    let args = Args::parse();
    if args.prop != "C11" {
        eprintln!("mon_ints serves --prop C11 (got {:?})", args.prop);
        std::process::exit(64);
    }
    let mut rep = Report::new(&args.prop, &args.lane);
    let decs = all_decoders();
    let thorough = args.thorough();

    if args.lane == "miri" {
        let n = miri_cases();
        run_cases(&args, "c11-miri", n, &mut rep, |i, rng, rep| {
            let mut cx = Cx::new(&decs, rep, rng);
            case_miri(i, &mut cx);
            cx.finish();
        });
        if args.shard == 0 {
            rep.set_extra("plan", json!({"miri_cases": n}));
        }
        rep.finish(&args);
        return;
    }

    let wins = type_windows();
    let plan = build_plan(&args, wins.len() as u64);
    run_cases(&args, "c11", plan.total(), &mut rep, |i, rng, rep| {
        let (stream, j) = plan.locate(i);
        let mut cx = Cx::new(&decs, rep, rng);
        match stream {
            Stream::Small => case_small(j, &mut cx),
            Stream::U64Win => case_u64_window(j, &mut cx),
            Stream::TypeWin => case_type_window(j, &wins, &mut cx),
            Stream::Short => case_short_atoms(j, &mut cx),
            Stream::Len3 => case_len3_atoms(j, thorough, &mut cx),
            Stream::Pattern => case_pattern_atoms(j, PATTERN_TAILS, &mut cx),
            Stream::Random => case_random(1024, &mut cx),
            Stream::Sweep => {
                case_sweep_block(j * SWEEP_BLOCK, &mut cx);
                cx.t.misc("sweep_values", SWEEP_BLOCK);
            }
            Stream::HiSweep => case_hi_sweep_block(j, &mut cx),
        }
        cx.finish();
    });

    // Claims about complete enumeration hold for the merged run (every shard reported; the
    // completion floors on sweep_values / short_atoms / ... confirm it). Emitted once.
    if args.shard == 0 && args.only_case.is_none() {
        let sweep_hi = plan.count(Stream::Sweep) * SWEEP_BLOCK;
        rep.set_extra("sweep_range", json!({"lo": 0, "hi_exclusive": sweep_hi,
            "through": SWEEP_ENCODERS, "decoders": SWEEP_DECODERS,
            "coin_id_stride": SWEEP_BLOCK}));
        rep.set_extra("plan", json!(plan.parts.iter().map(|(s, n)| json!({"stream": format!("{s:?}"), "cases": n})).collect::<Vec<_>>()));
        if args.scale >= 1.0 {
            let mut ex = vec![
                "every u8, i8, u16 and i16 value: encode_number, ToClvm, Allocator::new_number/new_malachite_number/new_u64/new_i64, every decoder".to_string(),
                "every u64 within 2^16 of 0, 2^(8k-1) and 2^(8k) (k=1..8): all ladders including Coin::coin_id, compute_coin_id, signature messages, generator length and serialization".to_string(),
                "every u32, i32, i64, u128, i128, usize and isize value within 2^12 of 0 and of each +-2^(8k-1), +-2^(8k): width-generic encoders and every decoder".to_string(),
                "every atom of length <= 2: sanitize_uint at widths 4 and 8 (two allocator representations) and every decoder".to_string(),
                format!("every u64 in [0, {sweep_hi}): u64_to_bytes, generator length, encode_number, ToClvm<u64>, Allocator::new_number, Allocator::new_u64 (and the u32 conversions below 2^32), decode round trip, sanitize_uint"),
            ];
            ex.push(format!(
                "every u64 within 2^{} of 2^32, 2^39, 2^40, 2^47, 2^48, 2^55, 2^56, 2^63 and of the top of the range: the same non-hashing ladders as the contiguous sweep",
                if thorough { 24 } else { 20 }
            ));
            if thorough {
                ex.push("every atom of length 3: sanitize_uint at widths 4 and 8 and every decoder".to_string());
            }
            rep.set_extra("exhaustive_subspaces", json!(ex));
        }
    }
    rep.finish(&args);
}
