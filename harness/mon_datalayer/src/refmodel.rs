//! Harness-side reading of a serialized merkle blob. Nothing here imports a
//! crate from /repo: the block layout and the internal-node hash rule are
//! restated from the format definition, hashing goes through `vcore::sha256`.
//!
//! Block layout (55 bytes): `node_type:u8 (0 internal, 1 leaf) ‖ dirty:u8 (0/1) ‖ data[53]`
//! data, internal: `hash[32] ‖ parent:Option<u32 BE> ‖ left:u32 BE ‖ right:u32 BE ‖ zero padding`
//! data, leaf:     `hash[32] ‖ parent:Option<u32 BE> ‖ key:i64 BE ‖ value:i64 BE ‖ zero padding`
//! `Option` is `00` (None) or `01 ‖ value`. The root lives at index 0; an
//! empty tree is the empty byte string. Internal hash = sha256(02 ‖ left ‖ right).

use std::collections::HashMap;
use vcore::sha256;

pub const BLOCK: usize = 55;
pub type H32 = [u8; 32];

#[derive(Clone, Debug, PartialEq, Eq)]
pub enum RawNode {
    Internal { hash: H32, parent: Option<u32>, left: u32, right: u32 },
    Leaf { hash: H32, parent: Option<u32>, key: i64, value: i64 },
}

#[derive(Clone, Debug, PartialEq, Eq)]
pub struct RawBlock {
    pub dirty: bool,
    pub node: RawNode,
}

fn be32(b: &[u8]) -> u32 {
    u32::from_be_bytes([b[0], b[1], b[2], b[3]])
}

fn be64(b: &[u8]) -> i64 {
    i64::from_be_bytes([b[0], b[1], b[2], b[3], b[4], b[5], b[6], b[7]])
}

pub fn parse_block(b: &[u8]) -> Result<RawBlock, String> {
    if b.len() != BLOCK {
        return Err("block-length".into());
    }
    let dirty = match b[1] {
        0 => false,
        1 => true,
        _ => return Err("bad-dirty-flag".into()),
    };
    let d = &b[2..];
    let mut hash = [0u8; 32];
    hash.copy_from_slice(&d[..32]);
    let (parent, off) = match d[32] {
        0 => (None, 33),
        1 => (Some(be32(&d[33..37])), 37),
        _ => return Err("bad-parent-option".into()),
    };
    let node = match b[0] {
        0 => RawNode::Internal { hash, parent, left: be32(&d[off..off + 4]), right: be32(&d[off + 4..off + 8]) },
        1 => RawNode::Leaf { hash, parent, key: be64(&d[off..off + 8]), value: be64(&d[off + 8..off + 16]) },
        _ => return Err("bad-node-type".into()),
    };
    Ok(RawBlock { dirty, node })
}

pub fn block_at(blob: &[u8], index: u32) -> Option<&[u8]> {
    let start = (index as usize).checked_mul(BLOCK)?;
    blob.get(start..start + BLOCK)
}

pub fn internal_hash(left: &H32, right: &H32) -> H32 {
    sha256(&[&[2u8], left, right])
}

#[derive(Clone, Debug)]
pub struct LeafView {
    pub index: u32,
    pub key: i64,
    pub value: i64,
    pub hash: H32,
}

#[derive(Clone, Debug)]
pub struct InternalView {
    pub index: u32,
    pub stored_hash: H32,
    pub dirty: bool,
}

/// What the harness sees when it walks the blob from the root.
#[derive(Clone, Debug, Default)]
pub struct TreeView {
    pub nblocks: usize,
    /// leaves in left-to-right order
    pub leaves: Vec<LeafView>,
    /// internal nodes, children before parents
    pub internals: Vec<InternalView>,
    pub reachable: Vec<bool>,
    /// hash of every reachable node recomputed bottom-up from the leaf hashes
    /// (only filled when `compute` was requested)
    pub computed: HashMap<u32, H32>,
    pub max_depth: usize,
}

impl TreeView {
    pub fn free_indexes(&self) -> Vec<u32> {
        (0..self.nblocks).filter(|i| !self.reachable[*i]).map(|i| i as u32).collect()
    }
    pub fn internal_indexes(&self) -> Vec<u32> {
        let mut v: Vec<u32> = self.internals.iter().map(|n| n.index).collect();
        v.sort_unstable();
        v
    }
    /// "leaf" | "internal" | "free" | "oob"
    pub fn class_of(&self, index: u32) -> &'static str {
        let i = index as usize;
        if i >= self.nblocks {
            "oob"
        } else if !self.reachable[i] {
            "free"
        } else if self.leaves.iter().any(|l| l.index == index) {
            "leaf"
        } else {
            "internal"
        }
    }
    pub fn root_computed(&self) -> Option<H32> {
        self.computed.get(&0).copied()
    }
}

/// Walk the tree from index 0, checking that it is a tree (every block used
/// once, parent pointers agree with child pointers, leaves are clean) and,
/// if `compute`, recomputing every node's hash from the leaf hashes.
pub fn walk(blob: &[u8], compute: bool) -> Result<TreeView, String> {
    if blob.len() % BLOCK != 0 {
        return Err("blob-length-not-multiple-of-block".into());
    }
    let nblocks = blob.len() / BLOCK;
    let mut view = TreeView { nblocks, reachable: vec![false; nblocks], ..TreeView::default() };
    if nblocks == 0 {
        return Ok(view);
    }
    enum Item {
        Visit(u32, Option<u32>, usize),
        Combine(u32, u32, u32),
    }
    let mut stack = vec![Item::Visit(0, None, 0)];
    while let Some(item) = stack.pop() {
        match item {
            Item::Visit(index, expected_parent, depth) => {
                let Some(bytes) = block_at(blob, index) else {
                    return Err("child-index-out-of-bounds".into());
                };
                if view.reachable[index as usize] {
                    return Err("node-reached-twice".into());
                }
                view.reachable[index as usize] = true;
                view.max_depth = view.max_depth.max(depth);
                let block = parse_block(bytes).map_err(|e| format!("block-unparseable:{e}"))?;
                match block.node {
                    RawNode::Leaf { hash, parent, key, value } => {
                        if parent != expected_parent {
                            return Err("parent-pointer-mismatch".into());
                        }
                        if block.dirty {
                            return Err("dirty-leaf".into());
                        }
                        view.leaves.push(LeafView { index, key, value, hash });
                        if compute {
                            view.computed.insert(index, hash);
                        }
                    }
                    RawNode::Internal { hash, parent, left, right } => {
                        if parent != expected_parent {
                            return Err("parent-pointer-mismatch".into());
                        }
                        view.internals.push(InternalView { index, stored_hash: hash, dirty: block.dirty });
                        stack.push(Item::Combine(index, left, right));
                        stack.push(Item::Visit(right, Some(index), depth + 1));
                        stack.push(Item::Visit(left, Some(index), depth + 1));
                    }
                }
            }
            Item::Combine(index, left, right) => {
                if compute {
                    let l = view.computed[&left];
                    let r = view.computed[&right];
                    view.computed.insert(index, internal_hash(&l, &r));
                }
            }
        }
    }
    // `internals` was filled parents-first; callers want children first
    view.internals.reverse();
    Ok(view)
}

/// Fold a proof of inclusion with the harness's own hashing. `layers` are
/// (other_hash_is_on_the_left, other_hash, claimed_combined_hash).
/// Returns the hash reached at the top, or which layer did not verify.
pub fn fold_proof(leaf: &H32, layers: &[(bool, H32, H32)]) -> Result<H32, usize> {
    let mut h = *leaf;
    for (i, (other_left, other, combined)) in layers.iter().enumerate() {
        let c = if *other_left { internal_hash(other, &h) } else { internal_hash(&h, other) };
        if c != *combined {
            return Err(i);
        }
        h = c;
    }
    Ok(h)
}
