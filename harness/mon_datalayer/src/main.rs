//! C18 — the DataLayer merkle blob stays a valid authenticated map under any
//! operation history.
//!
//! A case is one history of insert / upsert / delete / batch_insert (plus
//! periodic "deep checks") on a fresh `MerkleBlob` with
//! `check_integrity_on_drop = false`. The oracle is a plain ordered map
//! key -> (value, leaf hash) to which an operation is applied iff the
//! implementation returned `Ok`. After every operation the blob's content,
//! its hash/key indexes, its own integrity check and (for failed operations)
//! byte-for-byte unchangedness are judged; deep checks reload the bytes,
//! recompute the root with the harness's own tree walk and hashing
//! (`refmodel`, no /repo imports) and verify an inclusion proof for every key.
//!
//! A violation's signature names the operation and the *input class* of the
//! offending call (duplicate key/hash, free/internal/out-of-range index),
//! determined from the call's arguments against the model, so that a
//! different defect gets a different signature. The first occurrence of each
//! signature per process is delta-debugged down to a minimal history.

mod refmodel;

use chia_datalayer::{Hash, InsertLocation, KeyId, MerkleBlob, Node, Side, TreeIndex, ValueId};
use chia_protocol::Bytes32;
use refmodel::{fold_proof, parse_block, walk, RawNode, TreeView, H32};
use serde_json::{json, Value};
use std::collections::{BTreeMap, BTreeSet, HashSet};
use vcore::report::{guarded, run_cases, with_big_stack, PanicInfo};
use vcore::{hx, sha256, Args, Report, Rng};

type Model = BTreeMap<i64, (i64, H32)>;

fn to_hash(h: &H32) -> Hash {
    Hash(Bytes32::new(*h))
}

fn from_hash(h: &Hash) -> H32 {
    h.0.to_bytes()
}

fn variant(e: &chia_datalayer::Error) -> String {
    let s = format!("{e:?}");
    s.split(|c: char| !c.is_ascii_alphanumeric()).next().unwrap_or("?").to_string()
}

fn size_class(n: usize) -> &'static str {
    match n {
        0 => "n0",
        1 => "n1",
        2 => "n2",
        _ => "nn",
    }
}

// ---------------------------------------------------------------------------
// operations (symbolic where they refer to the tree, so histories can be shrunk)

#[derive(Clone, Debug)]
enum Loc {
    Auto,
    AsRoot,
    /// at the leaf currently holding this key (out-of-range index if absent)
    AtKey(i64, bool),
    /// at the j-th block that is inside the blob but not part of the tree
    AtFree(usize, bool),
    /// at the j-th internal node
    AtInternal(usize, bool),
    /// at (number of blocks + delta), saturating
    Oob(u32, bool),
}

#[derive(Clone, Debug)]
enum Op {
    Insert { k: i64, v: i64, h: H32, loc: Loc },
    Upsert { k: i64, v: i64, h: H32 },
    Delete { k: i64 },
    Batch(Vec<(i64, i64, H32)>),
    /// reload round trip, lazy hashes, root recomputation, proofs; optionally
    /// continue the history on the reloaded blob
    Deep { swap: bool },
}

#[derive(Default)]
struct StepInfo {
    kind: &'static str,
    /// location class / batch class / key class — second cell coordinate
    sub: String,
    size: &'static str,
    /// "ok" or "err:<Variant>"
    outcome: String,
    desc: String,
    proofs: u64,
    reloads: u64,
    swaps: u64,
    unchanged_checks: u64,
    free_reused: bool,
    leaves_after: usize,
    depth_after: usize,
}

struct Viol {
    sig: String,
    msg: String,
    check: String,
    input_class: Option<&'static str>,
}

enum Outcome {
    Violation(Viol),
    Harness(String),
}

struct Runner {
    blob: MerkleBlob,
    model: Model,
    view: TreeView,
}

fn side(right: bool) -> Side {
    if right {
        Side::Right
    } else {
        Side::Left
    }
}

fn panic_outcome(op: &str, class: Option<&'static str>, p: &PanicInfo) -> Outcome {
    if !p.in_subject {
        return Outcome::Harness(format!("harness panic during {op} at {}: {}", p.location, p.message));
    }
    let sig = match class {
        Some(c) => format!("datalayer-op-panic:{op}:{c}"),
        None => format!("datalayer-op-panic:{op}"),
    };
    Outcome::Violation(Viol {
        sig,
        msg: format!("{op} panicked at {}: {}", p.location, p.message),
        check: "op-panic".into(),
        input_class: class,
    })
}

/// signature of a failed check after an operation, from the operation, its
/// outcome and the input class of its arguments
fn classify(op: &str, returned_ok: bool, class: Option<&'static str>, check: &str, msg: String) -> Outcome {
    let sig = match (returned_ok, class) {
        (true, Some(c)) => format!("datalayer:{op}-{c}-accepted"),
        (true, None) => format!("datalayer:{check}-after-{op}"),
        (false, _) => format!("datalayer:{op}-failed-but-{check}"),
    };
    Outcome::Violation(Viol { sig, msg, check: check.into(), input_class: class })
}

impl Runner {
    fn new() -> Result<Runner, String> {
        match guarded(|| MerkleBlob::new(Vec::new())) {
            Ok(Ok(mut blob)) => {
                blob.check_integrity_on_drop = false;
                Ok(Runner { blob, model: Model::new(), view: TreeView::default() })
            }
            Ok(Err(e)) => Err(format!("MerkleBlob::new(empty) failed: {e:?}")),
            Err(p) => Err(format!("MerkleBlob::new(empty) panicked: {}", p.message)),
        }
    }

    fn used_hashes(&self) -> BTreeSet<H32> {
        self.model.values().map(|(_, h)| *h).collect()
    }

    fn key_of_hash(&self, h: &H32) -> Option<i64> {
        self.model.iter().find(|(_, (_, mh))| mh == h).map(|(k, _)| *k)
    }

    /// resolve a symbolic location against the current tree
    fn resolve(&self, loc: &Loc) -> (InsertLocation, &'static str, String) {
        let leaf = |index: u32, right: bool, view: &TreeView| {
            let class = view.class_of(index);
            let mut d = format!("Leaf{{index:{index},side:{}}}[{class}", if right { "Right" } else { "Left" });
            if class == "free" {
                // what the stale block at a free index still looks like
                let stale = refmodel::block_at(self.blob.read_blob(), index).map(parse_block);
                d += match stale {
                    Some(Ok(b)) => match b.node {
                        RawNode::Leaf { .. } => ":stale-leaf-block",
                        RawNode::Internal { .. } => ":stale-internal-block",
                    },
                    _ => ":unparseable-block",
                };
            }
            d += "]";
            (InsertLocation::Leaf { index: TreeIndex(index), side: side(right) }, class, d)
        };
        let nblocks = self.view.nblocks as u32;
        match loc {
            Loc::Auto => (InsertLocation::Auto {}, "auto", "Auto".into()),
            Loc::AsRoot => (InsertLocation::AsRoot {}, "asroot", "AsRoot".into()),
            Loc::AtKey(k, r) => match self.view.leaves.iter().find(|l| l.key == *k) {
                Some(l) => leaf(l.index, *r, &self.view),
                None => leaf(nblocks, *r, &self.view),
            },
            Loc::AtFree(j, r) => {
                let free = self.view.free_indexes();
                if free.is_empty() {
                    leaf(nblocks, *r, &self.view)
                } else {
                    leaf(free[j % free.len()], *r, &self.view)
                }
            }
            Loc::AtInternal(j, r) => {
                let int = self.view.internal_indexes();
                if int.is_empty() {
                    leaf(nblocks, *r, &self.view)
                } else {
                    leaf(int[j % int.len()], *r, &self.view)
                }
            }
            Loc::Oob(delta, r) => leaf(nblocks.saturating_add(*delta), *r, &self.view),
        }
    }

    /// checks (1) content == model through every view, (2) integrity. Returns
    /// the first failed check as (check name, observation).
    fn post_check(&mut self) -> Result<(), (String, String)> {
        let fail = |c: &str, m: String| Err((c.to_string(), m));
        // (1) key/value content as the blob reports it
        match guarded(|| self.blob.get_keys_values()) {
            Err(p) => return fail("check-panic", format!("get_keys_values panicked at {}: {}", p.location, p.message)),
            Ok(Err(e)) => return fail("content-unreadable", format!("get_keys_values -> {e:?}")),
            Ok(Ok(m)) => {
                let same = m.len() == self.model.len()
                    && self.model.iter().all(|(k, (v, _))| m.get(&KeyId(*k)) == Some(&ValueId(*v)));
                if !same {
                    let mut got: Vec<(i64, i64)> = m.iter().map(|(k, v)| (k.0, v.0)).collect();
                    got.sort_unstable();
                    let want: Vec<(i64, i64)> = self.model.iter().map(|(k, (v, _))| (*k, *v)).collect();
                    return fail(
                        "content-mismatch",
                        format!("get_keys_values = {:?} but the model map = {:?}", trunc(&got), trunc(&want)),
                    );
                }
            }
        }
        // the tree itself, read by the harness from the raw blocks
        let view = match walk(self.blob.read_blob(), false) {
            Ok(v) => v,
            Err(e) => return fail("tree-walk-failed", format!("harness walk of the blob from index 0: {e}")),
        };
        let mut leaves: Model = Model::new();
        for l in &view.leaves {
            if leaves.insert(l.key, (l.value, l.hash)).is_some() {
                return fail("tree-content-mismatch", format!("key {} is on two leaves of the tree", l.key));
            }
        }
        if leaves != self.model {
            return fail(
                "tree-content-mismatch",
                format!(
                    "leaves of the tree (key,value,hash) differ from the model: tree has {} leaves, model {} entries",
                    leaves.len(),
                    self.model.len()
                ),
            );
        }
        // leaf-hash and key indexes
        match guarded(|| self.blob.get_hashes_indexes(true)) {
            Err(p) => return fail("check-panic", format!("get_hashes_indexes panicked: {}", p.message)),
            Ok(Err(e)) => return fail("hash-index-mismatch", format!("get_hashes_indexes(true) -> {e:?}")),
            Ok(Ok(m)) => {
                let got: BTreeSet<H32> = m.keys().map(from_hash).collect();
                if got != self.used_hashes() || m.len() != self.model.len() {
                    return fail(
                        "hash-index-mismatch",
                        format!("get_hashes_indexes(true) has {} hashes, the model {} leaves", m.len(), self.model.len()),
                    );
                }
            }
        }
        for (k, (v, h)) in &self.model {
            match guarded(|| self.blob.get_node_by_hash(to_hash(h))) {
                Err(p) => return fail("check-panic", format!("get_node_by_hash panicked: {}", p.message)),
                Ok(Ok((gk, gv))) if gk.0 == *k && gv.0 == *v => {}
                Ok(other) => {
                    return fail(
                        "hash-index-mismatch",
                        format!("get_node_by_hash(hash of key {k}) -> {other:?}, expected key {k} value {v}"),
                    )
                }
            }
            match guarded(|| self.blob.get_key_index(KeyId(*k))) {
                Err(p) => return fail("check-panic", format!("get_key_index panicked: {}", p.message)),
                Ok(Ok(idx)) if view.leaves.iter().any(|l| l.index == idx.0 && l.key == *k) => {}
                Ok(other) => {
                    return fail("key-index-mismatch", format!("get_key_index({k}) -> {other:?}, not the leaf holding that key"))
                }
            }
        }
        // (2) the blob's own integrity check
        match guarded(|| self.blob.check_integrity()) {
            Err(p) => return fail("check-panic", format!("check_integrity panicked at {}: {}", p.location, p.message)),
            Ok(Err(e)) => return fail("integrity", format!("check_integrity -> Err({e:?})")),
            Ok(Ok(())) => {}
        }
        self.view = view;
        Ok(())
    }

    /// judge one mutating call: `r` is its guarded result
    #[allow(clippy::too_many_arguments)]
    fn judge<T>(
        &mut self,
        op: &'static str,
        class: Option<&'static str>,
        pre_bytes: &[u8],
        r: Result<Result<T, chia_datalayer::Error>, PanicInfo>,
        apply: impl FnOnce(&mut Model),
        info: &mut StepInfo,
    ) -> Option<Outcome> {
        let pre_free = self.view.free_indexes().len();
        let pre_blocks = self.view.nblocks;
        let ok = match r {
            Err(p) => {
                info.outcome = "panic".into();
                return Some(panic_outcome(op, class, &p));
            }
            Ok(Ok(_)) => {
                info.outcome = "ok".into();
                apply(&mut self.model);
                true
            }
            Ok(Err(e)) => {
                info.outcome = format!("err:{}", variant(&e));
                false
            }
        };
        if !ok {
            // (3) a failed operation leaves the blob unchanged, byte for byte
            info.unchanged_checks += 1;
            if self.blob.read_blob().as_slice() != pre_bytes {
                let changed = first_difference(pre_bytes, self.blob.read_blob());
                return Some(classify(
                    op,
                    false,
                    class,
                    "mutated",
                    format!("{op} returned {} but read_blob() changed ({changed})", info.outcome),
                ));
            }
        }
        if let Err((check, msg)) = self.post_check() {
            return Some(classify(op, ok, class, &check, format!("after {op} returned {}: {msg}", info.outcome)));
        }
        info.free_reused = ok && pre_free > 0 && self.view.nblocks == pre_blocks && self.view.free_indexes().len() < pre_free;
        None
    }

    fn step(&mut self, op: &Op) -> (StepInfo, Option<Outcome>) {
        let mut info = StepInfo { size: size_class(self.model.len()), ..StepInfo::default() };
        let pre_bytes = self.blob.read_blob().clone();
        let out = match op {
            Op::Insert { k, v, h, loc } => {
                info.kind = "insert";
                let (location, lclass, ldesc) = self.resolve(loc);
                let dup_key = self.model.contains_key(k);
                let dup_hash = self.key_of_hash(h).is_some();
                let class = if dup_key {
                    Some("duplicate-key")
                } else if dup_hash {
                    Some("duplicate-hash")
                } else {
                    match lclass {
                        "free" => Some("at-free-index"),
                        "internal" => Some("at-internal-index"),
                        "oob" => Some("at-out-of-range-index"),
                        _ => None,
                    }
                };
                info.sub = format!("{lclass}{}{}", if dup_key { "+dupkey" } else { "" }, if dup_hash { "+duphash" } else { "" });
                info.desc = format!("insert(key={k}, value={v}, hash={}, {ldesc})", hx(h));
                let r = guarded(|| self.blob.insert(KeyId(*k), ValueId(*v), &to_hash(h), location));
                self.judge("insert", class, &pre_bytes, r, |m| { m.insert(*k, (*v, *h)); }, &mut info)
            }
            Op::Upsert { k, v, h } => {
                info.kind = "upsert";
                let present = self.model.contains_key(k);
                let owner = self.key_of_hash(h);
                let other = owner.is_some() && owner != Some(*k);
                let class = if other { Some("duplicate-hash") } else { None };
                info.sub = format!(
                    "{}{}",
                    if present { "present" } else { "absent" },
                    if other { "+hash-of-other-leaf" } else if owner.is_some() { "+same-hash" } else { "" }
                );
                info.desc = format!("upsert(key={k}, value={v}, hash={})[key {}]", hx(h), info.sub);
                let r = guarded(|| self.blob.upsert(KeyId(*k), ValueId(*v), &to_hash(h)));
                self.judge("upsert", class, &pre_bytes, r, |m| { m.insert(*k, (*v, *h)); }, &mut info)
            }
            Op::Delete { k } => {
                info.kind = "delete";
                info.sub = if self.model.contains_key(k) { "present".into() } else { "absent".into() };
                info.desc = format!("delete(key={k})[{}]", info.sub);
                let r = guarded(|| self.blob.delete(KeyId(*k)));
                self.judge("delete", None, &pre_bytes, r, |m| { m.remove(k); }, &mut info)
            }
            Op::Batch(items) => {
                info.kind = "batch_insert";
                let mut keys = BTreeSet::new();
                let mut hashes = BTreeSet::new();
                let (mut kin, mut ktree, mut hin, mut htree) = (false, false, false, false);
                for (k, _, h) in items {
                    kin |= !keys.insert(*k);
                    hin |= !hashes.insert(*h);
                    ktree |= self.model.contains_key(k);
                    htree |= self.key_of_hash(h).is_some();
                }
                let class = if kin || ktree {
                    Some("duplicate-key")
                } else if hin || htree {
                    Some("duplicate-hash")
                } else {
                    None
                };
                let mut flags = vec![];
                for (f, name) in [(kin, "dupkey-in-batch"), (ktree, "dupkey-vs-tree"), (hin, "duphash-in-batch"), (htree, "duphash-vs-tree")] {
                    if f {
                        flags.push(name);
                    }
                }
                let bsize = match items.len() {
                    0 => "b0",
                    1 => "b1",
                    2 => "b2",
                    3 => "b3",
                    _ => "bn",
                };
                info.sub = format!("{bsize}:{}", if flags.is_empty() { "clean".to_string() } else { flags.join("+") });
                let shown: Vec<String> = items.iter().map(|(k, v, h)| format!("({k},{v},{})", hx(h))).collect();
                info.desc = format!("batch_insert([{}])[{}]", shown.join(", "), info.sub);
                let arg: Vec<((KeyId, ValueId), Hash)> =
                    items.iter().map(|(k, v, h)| ((KeyId(*k), ValueId(*v)), to_hash(h))).collect();
                let r = guarded(|| self.blob.batch_insert(arg));
                self.judge(
                    "batch_insert",
                    class,
                    &pre_bytes,
                    r,
                    |m| {
                        for (k, v, h) in items {
                            m.insert(*k, (*v, *h));
                        }
                    },
                    &mut info,
                )
            }
            Op::Deep { swap } => {
                info.kind = "lazy_hashes";
                info.sub = if *swap { "reload+swap".into() } else { "reload".into() };
                info.desc = format!("deep-check(reload, calculate_lazy_hashes, root, proofs; swap_to_reloaded={swap})");
                self.deep(*swap, &mut info)
            }
        };
        info.leaves_after = self.model.len();
        info.depth_after = self.view.max_depth;
        (info, out)
    }

    /// (4) reload round trip, (5) lazy hashes + independent root, (6) proofs
    fn deep(&mut self, swap: bool, info: &mut StepInfo) -> Option<Outcome> {
        let viol = |sig: &str, msg: String| {
            Some(Outcome::Violation(Viol { sig: format!("datalayer:{sig}"), msg, check: sig.into(), input_class: None }))
        };
        // (4) reload
        let bytes = self.blob.read_blob().clone();
        info.reloads += 1;
        let mut reloaded = match guarded(|| MerkleBlob::new(bytes)) {
            Err(p) => return Some(panic_outcome("reload", None, &p)),
            Ok(Err(e)) => return viol("reload-failed", format!("MerkleBlob::new(read_blob()) -> Err({e:?})")),
            Ok(Ok(mut b)) => {
                b.check_integrity_on_drop = false;
                b
            }
        };
        match guarded(|| reloaded.get_keys_values()) {
            Err(p) => return Some(panic_outcome("reload", None, &p)),
            Ok(Ok(m))
                if m.len() == self.model.len()
                    && self.model.iter().all(|(k, (v, _))| m.get(&KeyId(*k)) == Some(&ValueId(*v))) => {}
            Ok(other) => {
                return viol(
                    "reload-content-mismatch",
                    format!("reloaded blob's get_keys_values differs from the model: {}", short(&format!("{other:?}"))),
                )
            }
        }
        match guarded(|| reloaded.check_integrity()) {
            Err(p) => return Some(panic_outcome("reload", None, &p)),
            Ok(Err(e)) => return viol("reload-integrity", format!("reloaded blob: check_integrity -> Err({e:?})")),
            Ok(Ok(())) => {}
        }
        // (5) lazy hashes: an operation like any other as far as content/integrity go
        let pre = self.blob.read_blob().clone();
        let r = guarded(|| self.blob.calculate_lazy_hashes());
        if let Some(o) = self.judge("calculate_lazy_hashes", None, &pre, r, |_| {}, info) {
            return Some(o);
        }
        if info.outcome != "ok" {
            return viol("lazy-hashes-failed", format!("calculate_lazy_hashes -> {}", info.outcome));
        }
        match guarded(|| reloaded.calculate_lazy_hashes()) {
            Err(p) => return Some(panic_outcome("reload", None, &p)),
            Ok(Err(e)) => return viol("lazy-hashes-failed", format!("on the reloaded blob: {e:?}")),
            Ok(Ok(())) => {}
        }
        let root = match guarded(|| self.blob.get_hash_at_index(TreeIndex(0))) {
            Err(p) => return Some(panic_outcome("get_hash_at_index", None, &p)),
            Ok(Err(e)) => return viol("root-hash-unavailable", format!("get_hash_at_index(0) after lazy hashes -> Err({e:?})")),
            Ok(Ok(r)) => r.map(|h| from_hash(&h)),
        };
        match guarded(|| reloaded.get_hash_at_index(TreeIndex(0))) {
            Ok(Ok(r)) if r.map(|h| from_hash(&h)) == root => {}
            Err(p) => return Some(panic_outcome("reload", None, &p)),
            Ok(other) => {
                return viol(
                    "reload-root-mismatch",
                    format!("root of the reloaded blob {other:?} differs from the original's {:?}", root.map(|r| hx(&r))),
                )
            }
        }
        // independent recomputation by walking the raw blocks
        let view = match walk(self.blob.read_blob(), true) {
            Ok(v) => v,
            Err(e) => return viol("tree-walk-failed-after-calculate_lazy_hashes", e),
        };
        if root != view.root_computed() {
            return viol(
                "root-hash-mismatch",
                format!(
                    "reported root {:?}, recomputed from the leaves {:?}",
                    root.map(|r| hx(&r)),
                    view.root_computed().map(|r| hx(&r))
                ),
            );
        }
        if self.model.is_empty() != root.is_none() {
            return viol("root-hash-mismatch", "root presence disagrees with emptiness of the model".into());
        }
        for n in &view.internals {
            if n.dirty {
                return viol("dirty-node-after-lazy-hashes", format!("internal node {} still dirty", n.index));
            }
            if n.stored_hash != view.computed[&n.index] {
                return viol("internal-hash-mismatch", format!("stored hash of internal node {} is not sha256(02|left|right)", n.index));
            }
            // the public node accessor agrees with the raw block
            match guarded(|| self.blob.get_node(TreeIndex(n.index))) {
                Ok(Ok(Node::Internal(i))) if from_hash(&i.hash) == n.stored_hash => {}
                Err(p) => return Some(panic_outcome("get_node", None, &p)),
                Ok(other) => return viol("get-node-disagrees-with-block", format!("get_node({}) -> {other:?}", n.index)),
            }
        }
        // (6) a proof for every key
        for (k, (_, h)) in &self.model {
            info.proofs += 1;
            let proof = match guarded(|| self.blob.get_proof_of_inclusion(KeyId(*k))) {
                Err(p) => return Some(panic_outcome("get_proof_of_inclusion", None, &p)),
                Ok(Err(e)) => return viol("proof-missing", format!("get_proof_of_inclusion({k}) -> Err({e:?})")),
                Ok(Ok(p)) => p,
            };
            let valid = match guarded(|| proof.valid()) {
                Err(p) => return Some(panic_outcome("proof-valid", None, &p)),
                Ok(v) => v,
            };
            if !valid {
                return viol("proof-invalid", format!("proof for key {k}: valid() == false"));
            }
            if Some(from_hash(&proof.root_hash())) != root {
                return viol("proof-wrong-root", format!("proof for key {k} ends in {:?}, root is {:?}", proof.root_hash(), root.map(|r| hx(&r))));
            }
            if from_hash(&proof.node_hash) != *h {
                return viol("proof-wrong-leaf-hash", format!("proof for key {k} starts at {:?}, the leaf hash is {}", proof.node_hash, hx(h)));
            }
            let layers: Vec<(bool, H32, H32)> = proof
                .layers
                .iter()
                .map(|l| (l.other_hash_side == Side::Left, from_hash(&l.other_hash), from_hash(&l.combined_hash)))
                .collect();
            match fold_proof(h, &layers) {
                Ok(top) if Some(top) == root => {}
                Ok(_) => return viol("proof-layers-do-not-verify", format!("proof for key {k}: layers fold to a hash that is not the root")),
                Err(i) => return viol("proof-layers-do-not-verify", format!("proof for key {k}: layer {i} is not sha256(02|left|right)")),
            }
        }
        if swap {
            info.swaps += 1;
            self.blob = reloaded;
            // the reloaded blob now carries the history
            if let Err((check, msg)) = self.post_check() {
                return viol(&format!("reload-{check}"), format!("reloaded blob after lazy hashes: {msg}"));
            }
        }
        None
    }

    /// extra observations recorded with a violation (not judged)
    fn diagnose(&self) -> Value {
        let integ = match guarded(|| self.blob.check_integrity()) {
            Ok(r) => format!("{r:?}"),
            Err(p) => format!("panic: {}", p.message),
        };
        let bytes = self.blob.read_blob().clone();
        let reload = match guarded(|| MerkleBlob::new(bytes).map(|mut b| b.check_integrity_on_drop = false)) {
            Ok(r) => format!("{r:?}"),
            Err(p) => format!("panic: {}", p.message),
        };
        json!({"check_integrity": short(&integ), "reload": short(&reload), "model_leaves": self.model.len()})
    }
}

fn trunc<T: Clone>(v: &[T]) -> Vec<T> {
    v.iter().take(12).cloned().collect()
}

fn short(s: &str) -> String {
    s.chars().take(300).collect()
}

fn first_difference(a: &[u8], b: &[u8]) -> String {
    if a.len() != b.len() {
        return format!("length {} -> {}", a.len(), b.len());
    }
    match a.iter().zip(b).position(|(x, y)| x != y) {
        Some(i) => format!("first differing byte at offset {i} (block {})", i / refmodel::BLOCK),
        None => "no difference".into(),
    }
}

// ---------------------------------------------------------------------------
// replay + shrinking

/// run `ops` on a fresh blob; first violation as (index, signature)
fn replay(ops: &[Op]) -> Option<(usize, String)> {
    let mut r = Runner::new().ok()?;
    for (i, op) in ops.iter().enumerate() {
        let (_, out) = r.step(op);
        match out {
            Some(Outcome::Violation(v)) => return Some((i, v.sig)),
            Some(Outcome::Harness(_)) => return None,
            None => {}
        }
    }
    None
}

/// replay a (shrunk) history, returning its description together with what
/// was observed at the violation
fn describe(ops: &[Op]) -> Value {
    let mut out = vec![];
    let Ok(mut r) = Runner::new() else { return json!(null) };
    for op in ops {
        let (info, o) = r.step(op);
        out.push(format!("{} -> {}", info.desc, info.outcome));
        if let Some(Outcome::Violation(v)) = o {
            return json!({"ops": out, "observed": v.msg, "after_violation": r.diagnose()});
        }
    }
    json!({"ops": out})
}

/// greedy delta debugging: drop chunks of operations (and batch elements)
/// while the same signature still fires
fn shrink(ops: &[Op], sig: &str) -> Option<Vec<Op>> {
    let mut budget = 1500usize;
    let try_ops = |c: &[Op], budget: &mut usize| -> Option<usize> {
        if *budget == 0 {
            return None;
        }
        *budget -= 1;
        match replay(c) {
            Some((at, s)) if s == sig => Some(at),
            _ => None,
        }
    };
    let mut cur: Vec<Op> = ops.to_vec();
    let at = try_ops(&cur, &mut budget)?;
    cur.truncate(at + 1);
    loop {
        let before = cur.len() + cur.iter().map(|o| if let Op::Batch(b) = o { b.len() } else { 0 }).sum::<usize>();
        let mut chunk = (cur.len() / 2).max(1);
        loop {
            let mut i = 0;
            while i < cur.len() && cur.len() > 1 {
                let end = (i + chunk).min(cur.len());
                let cand: Vec<Op> = cur[..i].iter().chain(cur[end..].iter()).cloned().collect();
                if !cand.is_empty() {
                    if let Some(at) = try_ops(&cand, &mut budget) {
                        cur = cand;
                        cur.truncate(at + 1);
                        continue;
                    }
                }
                i += chunk;
            }
            if chunk == 1 {
                break;
            }
            chunk /= 2;
        }
        // batch elements
        for oi in 0..cur.len() {
            let mut j = 0;
            while let Op::Batch(items) = &cur[oi] {
                if j >= items.len() {
                    break;
                }
                let mut smaller = items.clone();
                smaller.remove(j);
                let mut cand = cur.clone();
                cand[oi] = Op::Batch(smaller);
                if try_ops(&cand, &mut budget).is_some() {
                    cur = cand;
                } else {
                    j += 1;
                }
            }
        }
        // locations: Auto is the simplest
        for oi in 0..cur.len() {
            if let Op::Insert { k, v, h, loc } = &cur[oi] {
                if !matches!(loc, Loc::Auto) {
                    let mut cand = cur.clone();
                    cand[oi] = Op::Insert { k: *k, v: *v, h: *h, loc: Loc::Auto };
                    if try_ops(&cand, &mut budget).is_some() {
                        cur = cand;
                    }
                }
            }
        }
        let after = cur.len() + cur.iter().map(|o| if let Op::Batch(b) = o { b.len() } else { 0 }).sum::<usize>();
        if after >= before || budget == 0 {
            break;
        }
    }
    Some(cur)
}

// ---------------------------------------------------------------------------
// workload

#[derive(Clone, Copy, Debug, PartialEq)]
enum Space {
    Small(usize),
    Huge,
}

const SMALL_KEYS: [i64; 16] =
    [0, -1, i64::MAX, i64::MIN, 1, 2, 3, 4, 5, 7, 100, -100, 255, 256, 1 << 32, -(1 << 40)];

fn small_hash(i: usize) -> H32 {
    sha256(&[b"c18-leaf-hash", &(i as u64).to_le_bytes()])
}

#[derive(Clone, Copy, Debug, PartialEq)]
enum Mode {
    Grow,
    Shrink,
    Mixed,
}

struct Cfg {
    kspace: Space,
    hspace: Space,
    /// percent of batch/upsert/insert calls that deliberately collide with the tree or themselves
    adv: u64,
    n_ops: usize,
    deep_every: usize,
    max_batch: usize,
}

struct Gen {
    mode: Mode,
    left: usize,
}

fn gen_cfg(rng: &mut Rng, miri: bool) -> Cfg {
    let kspace = *rng.pick(&[Space::Small(4), Space::Small(16), Space::Huge, Space::Huge]);
    let hspace = *rng.pick(&[Space::Small(4), Space::Small(16), Space::Small(16), Space::Huge, Space::Huge, Space::Huge]);
    let adv = *rng.pick(&[0, 0, 8, 8, 50]);
    let n_ops = if miri {
        1 + rng.usize(10)
    } else {
        match rng.below(10) {
            0 => 1 + rng.usize(10),
            1 => 10 + rng.usize(10),
            2..=7 => 20 + rng.usize(131),
            _ => 150 + rng.usize(251),
        }
    };
    Cfg { kspace, hspace, adv, n_ops, deep_every: 3 + rng.usize(18), max_batch: if miri { 5 } else { 32 } }
}

fn any_key(rng: &mut Rng, s: Space) -> i64 {
    match s {
        Space::Small(n) => SMALL_KEYS[rng.usize(n)],
        Space::Huge => match rng.below(8) {
            0 => rng.below(1000) as i64,
            1 => -(rng.below(1000) as i64),
            _ => rng.u64() as i64,
        },
    }
}

fn any_hash(rng: &mut Rng, s: Space) -> H32 {
    match s {
        Space::Small(n) => small_hash(rng.usize(n)),
        Space::Huge => match rng.below(50) {
            0 => [0u8; 32],
            1 => [0xff; 32],
            _ => rng.bytes32(),
        },
    }
}

fn fresh_key(rng: &mut Rng, s: Space, taken: &BTreeSet<i64>) -> Option<i64> {
    match s {
        Space::Small(n) => {
            let avail: Vec<i64> = SMALL_KEYS[..n].iter().copied().filter(|k| !taken.contains(k)).collect();
            if avail.is_empty() {
                None
            } else {
                Some(*rng.pick(&avail))
            }
        }
        Space::Huge => loop {
            let k = any_key(rng, s);
            if !taken.contains(&k) {
                return Some(k);
            }
        },
    }
}

fn fresh_hash(rng: &mut Rng, s: Space, taken: &BTreeSet<H32>) -> Option<H32> {
    match s {
        Space::Small(n) => {
            let avail: Vec<H32> = (0..n).map(small_hash).filter(|h| !taken.contains(h)).collect();
            if avail.is_empty() {
                None
            } else {
                Some(*rng.pick(&avail))
            }
        }
        Space::Huge => loop {
            let h = any_hash(rng, s);
            if !taken.contains(&h) {
                return Some(h);
            }
        },
    }
}

fn present_key(rng: &mut Rng, m: &Model) -> Option<i64> {
    if m.is_empty() {
        None
    } else {
        m.keys().nth(rng.usize(m.len())).copied()
    }
}

fn value(rng: &mut Rng) -> i64 {
    match rng.below(4) {
        0 => rng.below(10) as i64,
        1 => *rng.pick(&[0, -1, i64::MAX, i64::MIN]),
        _ => rng.u64() as i64,
    }
}

fn gen_batch(rng: &mut Rng, cfg: &Cfg, r: &Runner, dirty: bool) -> Op {
    let want = match rng.below(10) {
        0 => 0,
        1 | 2 => 1,
        3 | 4 => 2,
        5 | 6 => 3,
        _ => {
            let span = if rng.chance(1, 12) { cfg.max_batch * 4 } else { cfg.max_batch };
            4 + rng.usize(span)
        }
    };
    let mut keys: BTreeSet<i64> = r.model.keys().copied().collect();
    let mut hashes = r.used_hashes();
    let mut b: Vec<(i64, i64, H32)> = vec![];
    let style = if dirty { rng.usize(5) } else { usize::MAX };
    if style == 4 {
        for _ in 0..want {
            b.push((any_key(rng, cfg.kspace), value(rng), any_hash(rng, cfg.hspace)));
        }
        return Op::Batch(b);
    }
    for _ in 0..want {
        let (Some(k), Some(h)) = (fresh_key(rng, cfg.kspace, &keys), fresh_hash(rng, cfg.hspace, &hashes)) else { break };
        keys.insert(k);
        hashes.insert(h);
        b.push((k, value(rng), h));
    }
    match style {
        0 | 2 if b.len() >= 2 => {
            let i = rng.usize(b.len());
            let mut j = rng.usize(b.len() - 1);
            if j >= i {
                j += 1;
            }
            if style == 0 {
                b[j].0 = b[i].0;
            } else {
                b[j].2 = b[i].2;
            }
        }
        1 | 3 => {
            if let Some(pk) = present_key(rng, &r.model) {
                if b.is_empty() {
                    b.push((any_key(rng, cfg.kspace), value(rng), any_hash(rng, cfg.hspace)));
                }
                let j = rng.usize(b.len());
                if style == 1 {
                    b[j].0 = pk;
                } else {
                    b[j].2 = r.model[&pk].1;
                }
            }
        }
        _ => {}
    }
    Op::Batch(b)
}

fn gen_op(rng: &mut Rng, cfg: &Cfg, r: &Runner, g: &mut Gen) -> Op {
    if g.left == 0 {
        g.mode = *rng.pick(&[Mode::Grow, Mode::Grow, Mode::Shrink, Mode::Shrink, Mode::Mixed]);
        g.left = 3 + rng.usize(40);
    }
    g.left -= 1;
    if g.mode == Mode::Shrink && r.model.is_empty() && rng.chance(4, 5) {
        // nothing left to delete: grow again (free-list reuse after emptying)
        g.mode = Mode::Grow;
    }
    let w: [u32; 4] = match g.mode {
        Mode::Grow => [5, 2, 1, 2],
        Mode::Shrink => [1, 1, 8, 0],
        Mode::Mixed => [3, 3, 3, 1],
    };
    let dirty = rng.below(100) < cfg.adv;
    let keys: BTreeSet<i64> = r.model.keys().copied().collect();
    let hashes = r.used_hashes();
    match rng.weighted(&w) {
        0 => {
            let k = if dirty && !r.model.is_empty() && rng.bool() {
                present_key(rng, &r.model).unwrap()
            } else if rng.chance(3, 5) {
                fresh_key(rng, cfg.kspace, &keys).unwrap_or_else(|| any_key(rng, cfg.kspace))
            } else {
                any_key(rng, cfg.kspace)
            };
            let h = if dirty && !r.model.is_empty() && rng.bool() {
                r.model[&present_key(rng, &r.model).unwrap()].1
            } else if rng.chance(3, 5) {
                fresh_hash(rng, cfg.hspace, &hashes).unwrap_or_else(|| any_hash(rng, cfg.hspace))
            } else {
                any_hash(rng, cfg.hspace)
            };
            let right = rng.bool();
            // stale (free) indexes only in histories that are adversarial at all
            let wfree = if cfg.adv > 0 { 2 } else { 0 };
            let loc = match rng.weighted(&[6, 1, 4, wfree, 1, 1]) {
                0 => Loc::Auto,
                1 => Loc::AsRoot,
                2 => Loc::AtKey(present_key(rng, &r.model).unwrap_or_else(|| any_key(rng, cfg.kspace)), right),
                3 => Loc::AtFree(rng.usize(64), right),
                4 => Loc::AtInternal(rng.usize(64), right),
                _ => Loc::Oob(*rng.pick(&[0, 0, 1, 2, 1000, u32::MAX]), right),
            };
            Op::Insert { k, v: value(rng), h, loc }
        }
        1 => {
            let pk = present_key(rng, &r.model);
            let k = match pk {
                Some(k) if rng.chance(13, 20) => k,
                _ => {
                    if rng.bool() {
                        fresh_key(rng, cfg.kspace, &keys).unwrap_or_else(|| any_key(rng, cfg.kspace))
                    } else {
                        any_key(rng, cfg.kspace)
                    }
                }
            };
            let own = r.model.get(&k).map(|(_, h)| *h);
            let others: Vec<H32> = r.model.iter().filter(|(mk, _)| **mk != k).map(|(_, (_, h))| *h).collect();
            let h = if dirty && !others.is_empty() {
                *rng.pick(&others)
            } else if own.is_some() && rng.chance(3, 20) {
                own.unwrap()
            } else {
                match (fresh_hash(rng, cfg.hspace, &hashes), own) {
                    (Some(h), _) => h,
                    (None, Some(h)) => h,
                    // absent key and no unused hash: goes down the insert path and must be refused
                    (None, None) => any_hash(rng, cfg.hspace),
                }
            };
            Op::Upsert { k, v: value(rng), h }
        }
        2 => {
            let k = match present_key(rng, &r.model) {
                Some(k) if rng.chance(3, 4) => k,
                _ => {
                    if rng.bool() {
                        fresh_key(rng, cfg.kspace, &keys).unwrap_or_else(|| any_key(rng, cfg.kspace))
                    } else {
                        any_key(rng, cfg.kspace)
                    }
                }
            };
            Op::Delete { k }
        }
        _ => gen_batch(rng, cfg, r, dirty),
    }
}

// ---------------------------------------------------------------------------

fn space_name(s: Space) -> String {
    match s {
        Space::Small(n) => format!("{n}"),
        Space::Huge => "huge".into(),
    }
}

fn record(rep: &mut Report, info: &StepInfo) {
    rep.eval();
    rep.count("ops_total");
    let o = if info.outcome == "ok" { "ok" } else if info.outcome == "panic" { "panic" } else { "err" };
    rep.count(&format!("op:{}:{o}:{}", info.kind, info.size));
    rep.count(&format!("opk:{}:{}", info.kind, info.size));
    rep.count(if o == "ok" { "ops_ok" } else { "ops_failed" });
    rep.count(&format!("sub:{}:{}:{o}", info.kind, info.sub));
    rep.cell(&format!("{}|{}|{}|{}", info.kind, info.sub, info.size, info.outcome));
    rep.add("proofs_checked", info.proofs);
    rep.add("reloads", info.reloads);
    rep.add("reload_swaps", info.swaps);
    rep.add("failed_op_unchanged_checks", info.unchanged_checks);
    if info.free_reused {
        rep.count("free_index_reused");
    }
    rep.max("leaves", info.leaves_after as u64);
    rep.max("depth", info.depth_after as u64);
}

type SigInputs = BTreeMap<String, BTreeSet<String>>;

fn run_history(
    case: u64,
    rng: &mut Rng,
    rep: &mut Report,
    miri: bool,
    shrunk: &mut HashSet<String>,
    inputs: &mut SigInputs,
) {
    let cfg = gen_cfg(rng, miri);
    let mut r = match Runner::new() {
        Ok(r) => r,
        Err(e) => {
            rep.violation("datalayer:empty-blob-rejected", &e, json!({}));
            return;
        }
    };
    rep.count("histories");
    rep.count(&format!("hist:k{}:h{}", space_name(cfg.kspace), space_name(cfg.hspace)));
    rep.count(&format!("hist:adv{}", cfg.adv));
    let mut g = Gen { mode: Mode::Grow, left: 2 + rng.usize(30) };
    let mut ops: Vec<Op> = vec![];
    let mut descs: Vec<String> = vec![];
    let mut stopped = false;
    // 0: never above 3 leaves yet, 1: has been above 3, 2: then came down to <= 2, 3: then grew above 3 again
    let mut phase = 0u8;
    for step in 0..=cfg.n_ops {
        let last = step == cfg.n_ops;
        let op = if last || (step > 0 && step % cfg.deep_every == 0) {
            Op::Deep { swap: !last && rng.chance(1, 3) }
        } else if step == 0 && rng.chance(1, 8) {
            let dirty = rng.below(100) < cfg.adv;
            gen_batch(rng, &cfg, &r, dirty)
        } else {
            gen_op(rng, &cfg, &r, &mut g)
        };
        let (info, out) = r.step(&op);
        ops.push(op);
        descs.push(format!("{} -> {}", info.desc, info.outcome));
        record(rep, &info);
        phase = match (phase, info.leaves_after) {
            (0, n) if n > 3 => 1,
            (1, n) if n <= 2 => 2,
            (2, n) if n > 3 => 3,
            (p, _) => p,
        };
        match out {
            None => {}
            Some(Outcome::Harness(m)) => {
                rep.harness_error(&m);
                stopped = true;
            }
            Some(Outcome::Violation(v)) => {
                let first = shrunk.insert(v.sig.clone());
                // (replaying hundreds of candidate histories is unaffordable under Miri)
                let min_history = if first && !miri {
                    match shrink(&ops, &v.sig) {
                        Some(m) => Some(describe(&m)),
                        None => {
                            rep.harness_error(&format!("violation {} did not reproduce on replay of case {case}", v.sig));
                            None
                        }
                    }
                } else {
                    None
                };
                let tail: Vec<&String> = descs.iter().rev().take(6).rev().collect();
                let after = r.diagnose();
                if first {
                    // Report keeps only the first few violation records; the
                    // shrunk witness of every signature goes to `extra`
                    rep.set_extra(
                        &format!("witness:{}", v.sig),
                        json!({"case": case, "minimal_history": min_history}),
                    );
                }
                let input = format!("{}|{}|{}|{}|check={}", info.kind, info.sub, info.size, info.outcome, v.check);
                let seen = inputs.entry(v.sig.clone()).or_default();
                if seen.len() < 50 && seen.insert(input) {
                    rep.set_extra(&format!("inputs:{}", v.sig), json!(seen.iter().collect::<Vec<_>>()));
                }
                rep.violation(
                    &v.sig,
                    &v.msg,
                    json!({
                        "failed_check": v.check,
                        "input_class": v.input_class,
                        "op_index": step,
                        "failing_op": descs.last(),
                        "leaves_before": info.size,
                        "after_violation": after,
                        "key_space": space_name(cfg.kspace),
                        "hash_space": space_name(cfg.hspace),
                        "last_ops": tail,
                        "minimal_history": min_history,
                    }),
                );
                stopped = true;
            }
        }
        if stopped {
            rep.count("histories_stopped_early");
            break;
        }
    }
    if !stopped {
        rep.count("histories_completed");
    }
    if phase == 3 {
        rep.count("histories_shrunk_to_le2_and_regrown");
    }
    if rep.want_sample() && ops.len() > 3 {
        let tail: Vec<&String> = descs.iter().take(6).collect();
        rep.sample(json!({"case": case, "ops": ops.len(), "key_space": space_name(cfg.kspace),
            "hash_space": space_name(cfg.hspace), "adv_percent": cfg.adv, "first_ops": tail}));
    }
}

fn main() {
    let args = Args::parse();
    with_big_stack(move || {
        let mut rep = Report::new(&args.prop, &args.lane);
        if args.prop != "C18" {
            rep.harness_error(&format!("mon_datalayer does not serve property {}", args.prop));
            rep.finish(&args);
            return;
        }
        let miri = args.lane == "miri";
        let mut n = args.cases(QUICK_CASES, THOROUGH_CASES);
        if miri {
            // ~1 s per tiny history under Miri; stay well inside the watchdog
            n = n.min(MIRI_MAX_CASES);
        }
        let mut shrunk: HashSet<String> = HashSet::new();
        let mut inputs = SigInputs::new();
        run_cases(&args, "c18", n, &mut rep, |i, rng, rep| {
            run_history(i, rng, rep, miri, &mut shrunk, &mut inputs);
        });
        rep.finish(&args);
    });
}

const QUICK_CASES: u64 = 100_000;
const MIRI_MAX_CASES: u64 = 640;
const THOROUGH_CASES: u64 = 1_500_000;
