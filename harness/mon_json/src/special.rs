//! Hand-written `Subject` impls for the classes whose JSON form is written by
//! hand in the repository (byte strings, Program, BLS elements) and the
//! normalisation hooks for the version-dependent codecs.

use crate::shape::{Shape, Subject};
use chia_bls::{sign, GTElement, PublicKey, SecretKey, Signature};
use chia_protocol::{Bytes, BytesImpl, FullBlock, Program, ProofOfSpace, UnfinishedBlock};
use std::sync::OnceLock;
use vcore::Rng;

impl<const N: usize> Subject for BytesImpl<N> {
    fn shape() -> Shape {
        Shape::FixedHex(N)
    }
    fn gen(rng: &mut Rng, _depth: u32) -> Self {
        let mut b = [0u8; N];
        match rng.below(8) {
            0 => {}
            1 => b = [0xff; N],
            2 => b[N - 1] = 1,
            3 => b[0] = 0x80,
            _ => b.copy_from_slice(&rng.bytes(N)),
        }
        b.into()
    }
}

impl Subject for Bytes {
    fn shape() -> Shape {
        Shape::VarHex
    }
    fn gen(rng: &mut Rng, _depth: u32) -> Self {
        let n = match rng.below(10) {
            0..=1 => 0,
            2 => 1,
            3 => 32,
            4 => 2 + rng.usize(6),
            5 => 100 + rng.usize(200),
            _ => rng.usize(48),
        };
        let mut v = rng.bytes(n);
        if n > 0 && rng.chance(1, 6) {
            v[0] = 0;
        }
        if n > 0 && rng.chance(1, 6) {
            v[n - 1] = 0xff;
        }
        v.into()
    }
}

/// one well-formed CLVM serialization (atoms of every length-prefix class, nested pairs)
fn clvm(rng: &mut Rng, out: &mut Vec<u8>, budget: &mut i32) {
    *budget -= 1;
    if *budget > 0 && rng.chance(2, 5) {
        out.push(0xff);
        clvm(rng, out, budget);
        clvm(rng, out, budget);
        return;
    }
    match rng.below(8) {
        0 => out.push(0x80),
        1..=3 => out.push(rng.u8() & 0x7f),
        4 => {
            // one byte >= 0x80 needs a length prefix
            out.push(0x81);
            out.push(0x80 | rng.u8());
        }
        5 => {
            let n = 2 + rng.usize(62);
            out.push(0x80 | n as u8);
            out.extend(rng.bytes(n));
        }
        6 => {
            let n = 64 + rng.usize(300);
            out.push(0xc0 | (n >> 8) as u8);
            out.push((n & 0xff) as u8);
            out.extend(rng.bytes(n));
        }
        _ => {
            out.push(0xa0);
            out.extend(rng.bytes(32));
        }
    }
}

impl Subject for Program {
    fn shape() -> Shape {
        Shape::ProgramHex
    }
    fn gen(rng: &mut Rng, _depth: u32) -> Self {
        let mut out = vec![];
        let mut budget = 1 + rng.below(24) as i32;
        clvm(rng, &mut out, &mut budget);
        Program::new(out.into())
    }
}

struct BlsPool {
    sks: Vec<SecretKey>,
    pks: Vec<PublicKey>,
    sigs: Vec<Signature>,
}

/// fixed pool of group elements (independent of seed and case) so that most
/// values do not pay for a key derivation and a signature
fn pool() -> &'static BlsPool {
    static POOL: OnceLock<BlsPool> = OnceLock::new();
    POOL.get_or_init(|| {
        let sks: Vec<SecretKey> = (0u8..24).map(|i| SecretKey::from_seed(&[i; 32])).collect();
        let pks = sks.iter().map(SecretKey::public_key).collect();
        let sigs = sks.iter().enumerate().map(|(i, sk)| sign(sk, [i as u8; 5])).collect();
        BlsPool { sks, pks, sigs }
    })
}

impl Subject for SecretKey {
    fn shape() -> Shape {
        Shape::FixedHex(32)
    }
    fn gen(rng: &mut Rng, _depth: u32) -> Self {
        if rng.chance(3, 4) {
            rng.pick(&pool().sks).clone()
        } else {
            SecretKey::from_seed(&rng.bytes(32))
        }
    }
}

impl Subject for PublicKey {
    fn shape() -> Shape {
        Shape::FixedHex(48)
    }
    fn gen(rng: &mut Rng, _depth: u32) -> Self {
        match rng.below(20) {
            0..=2 => PublicKey::default(),
            3..=4 => SecretKey::from_seed(&rng.bytes(32)).public_key(),
            _ => *rng.pick(&pool().pks),
        }
    }
}

impl Subject for Signature {
    fn shape() -> Shape {
        Shape::FixedHex(96)
    }
    fn gen(rng: &mut Rng, _depth: u32) -> Self {
        match rng.below(20) {
            0..=2 => Signature::default(),
            3 => sign(&SecretKey::from_seed(&rng.bytes(32)), rng.bytes(8)),
            _ => rng.pick(&pool().sigs).clone(),
        }
    }
}

impl Subject for GTElement {
    fn shape() -> Shape {
        Shape::FixedHex(576)
    }
    fn gen(rng: &mut Rng, _depth: u32) -> Self {
        let mut b = [0u8; 576];
        if !rng.chance(1, 8) {
            b.copy_from_slice(&rng.bytes(576));
        }
        GTElement::from_bytes(&b)
    }
}

/// ProofOfSpace: `stream` refuses version >= 2 and writes only the fields of
/// the value's version; v2 needs exactly one of pool key / contract hash.
/// (`hash()` of a v2 value still needs a valid proof — judged separately.)
pub fn fix_proof_of_space(p: &mut ProofOfSpace) {
    p.version %= 2;
    if p.version == 0 {
        p.plot_index = 0;
        p.meta_group = 0;
        p.strength = 0;
    } else {
        p.size = 0;
        match (&p.pool_public_key, &p.pool_contract_puzzle_hash) {
            (Some(_), Some(_)) => {
                if p.challenge.as_ref()[0] & 1 == 0 {
                    p.pool_public_key = None;
                } else {
                    p.pool_contract_puzzle_hash = None;
                }
            }
            (None, None) => p.pool_contract_puzzle_hash = Some(p.challenge),
            _ => {}
        }
    }
}

/// FullBlock / UnfinishedBlock: version 0 carries generator + ref list,
/// version 1 only the raw buffer; other versions cannot be streamed.
pub fn fix_full_block(b: &mut FullBlock) {
    b.version %= 2;
    if b.version == 0 {
        b.transactions_generator_buffer = None;
    } else {
        b.transactions_generator = None;
        b.transactions_generator_ref_list.clear();
    }
}

pub fn fix_unfinished_block(b: &mut UnfinishedBlock) {
    b.version %= 2;
    if b.version == 0 {
        b.transactions_generator_buffer = None;
    } else {
        b.transactions_generator = None;
        b.transactions_generator_ref_list.clear();
    }
}
