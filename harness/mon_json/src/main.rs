//! C20 — the Python JSON-dict representation round-trips every exported value,
//! and malformed JSON is rejected rather than truncated, wrapped or defaulted.
//!
//! Observed: the real `ToJsonDict` / `FromJsonDict` implementations of every
//! class that has them (derive `PyJsonDict`, `#[streamable]` in chia-protocol,
//! hand-written impls for byte strings, Program and the BLS elements, and the
//! primitive/generic impls in chia-traits), run against an embedded CPython.
//!
//! Oracle, part 1 (relation between real runs): `from_json_dict(to_json_dict(v))`
//! must be `Ok(v2)` with `v2 == v`, equal `to_bytes()` and equal `hash()`.
//! Oracle, part 2 (declared-type model, `shape.rs`/`walk.rs`): one position of
//! the JSON tree is corrupted in a way that is malformed *for the declared Rust
//! type of that position*; `from_json_dict` of the whole tree must return `Err`.

mod shape;
mod special;
mod walk;
#[macro_use]
mod registry {
    #![allow(unused_imports, clippy::wildcard_imports)]
    use crate::{shape_enum, shape_newtype, shape_struct, shape_struct_post, shape_struct_upper};
    use chia_bls::{G1Element, G2Element, PublicKey, Signature};
    use chia_consensus::owned_conditions::OwnedSpendConditions;
    use chia_datalayer::{Hash, KeyId, Parent, ProofOfInclusionLayer, Side, TreeIndex, TreeIndexType, ValueId};
    use chia_protocol::*;
    include!("registry_gen.rs");
}
mod scan;

use chia_bls::{GTElement, PublicKey, SecretKey, Signature};
use chia_protocol::{Bytes, Bytes32, BytesImpl, Coin, Program};
use chia_traits::{FromJsonDict, Streamable, ToJsonDict};
use pyo3::prelude::*;
use serde_json::{json, Value};
use shape::Subject;
use vcore::report::{guarded, run_cases, with_big_stack};
use vcore::{hx, Args, Report, Rng};
use walk::{py_value, Outcome, Walker};

type RunFn = fn(&mut Rng, &mut Report, &'static str);

pub struct Entry {
    pub krate: &'static str,
    pub name: &'static str,
    run: RunFn,
}

fn arb_value<T: for<'a> arbitrary::Arbitrary<'a>>(rng: &mut Rng) -> Option<T> {
    let n = match rng.below(8) {
        0 => rng.usize(16),
        1 => rng.usize(200),
        _ => 200 + rng.usize(4000),
    };
    let mut bytes = rng.bytes(n);
    // runs of 0x00 / 0xff make Arbitrary produce extreme integers and empty/short collections
    if rng.chance(1, 3) && n > 0 {
        for _ in 0..(1 + rng.usize(6)) {
            let a = rng.usize(n);
            let len = 1 + rng.usize(40);
            let fill = *rng.pick(&[0u8, 0xff, 0x80, 0x01]);
            for b in bytes.iter_mut().skip(a).take(len) {
                *b = fill;
            }
        }
    }
    let mut u = arbitrary::Unstructured::new(&bytes);
    T::arbitrary(&mut u).ok()
}

fn run_arb<T: Subject + for<'a> arbitrary::Arbitrary<'a>>(rng: &mut Rng, rep: &mut Report, name: &'static str) {
    let from_arbitrary = rng.chance(1, 2);
    let v = if from_arbitrary { arb_value::<T>(rng) } else { None };
    let (v, how) = match v {
        Some(v) => (v, "arbitrary"),
        None => (T::gen(rng, 0), "fieldwise"),
    };
    judge(v, how, rng, rep, name);
}

fn run_gen<T: Subject>(rng: &mut Rng, rep: &mut Report, name: &'static str) {
    let v = T::gen(rng, 0);
    judge(v, "fieldwise", rng, rep, name);
}

fn json_of<T: ToJsonDict>(v: &T, py: Python<'_>) -> Value {
    match guarded(|| v.to_json_dict(py)) {
        Ok(Ok(o)) => py_value(o.bind(py), 0),
        Ok(Err(e)) => json!(format!("<to_json_dict error: {e}>")),
        Err(p) => json!(format!("<to_json_dict panic: {}>", p.message)),
    }
}

fn bytes_of<T: Streamable>(v: &T) -> Option<Vec<u8>> {
    match guarded(|| v.to_bytes()) {
        Ok(Ok(b)) => Some(b),
        _ => None,
    }
}

fn judge<T: Subject>(mut v: T, how: &str, rng: &mut Rng, rep: &mut Report, name: &'static str) {
    if rng.chance(7, 8) {
        v.normalize();
        rep.count("values-normalised");
    }
    rep.count(&format!("values:{name}"));
    rep.count(&format!("generator:{how}"));
    let shape = T::shape();
    Python::attach(|py| {
        // ---- round trip ------------------------------------------------------------------
        rep.eval();
        let j = match guarded(|| <T as ToJsonDict>::to_json_dict(&v, py)) {
            Ok(Ok(j)) => j.into_bound(py),
            Ok(Err(e)) => {
                rep.violation(
                    &format!("json-roundtrip-error:{name}"),
                    &format!("{name}.to_json_dict failed: {e}"),
                    json!({"class": name, "bytes": bytes_of(&v).map(|b| hx(&b))}),
                );
                return;
            }
            Err(p) => {
                rep.violation(
                    &format!("json-roundtrip-panic:{name}"),
                    &format!("{name}.to_json_dict panicked at {}: {}", p.location, p.message),
                    json!({"class": name, "bytes": bytes_of(&v).map(|b| hx(&b))}),
                );
                return;
            }
        };
        let v2 = match guarded(|| <T as FromJsonDict>::from_json_dict(&j)) {
            Ok(Ok(v2)) => v2,
            Ok(Err(e)) => {
                rep.violation(
                    &format!("json-roundtrip-error:{name}"),
                    &format!("{name}.from_json_dict rejected the output of to_json_dict: {e}"),
                    json!({"class": name, "json": py_value(&j, 0), "bytes": bytes_of(&v).map(|b| hx(&b))}),
                );
                return;
            }
            Err(p) => {
                rep.violation(
                    &format!("json-roundtrip-panic:{name}"),
                    &format!("{name}.from_json_dict panicked at {}: {}", p.location, p.message),
                    json!({"class": name, "json": py_value(&j, 0)}),
                );
                return;
            }
        };
        let mut differs: Vec<&str> = vec![];
        if v2 != v {
            differs.push("value");
        }
        let b1 = bytes_of(&v);
        match &b1 {
            Some(b1) => {
                rep.count("compared:to_bytes");
                if bytes_of(&v2).as_ref() != Some(b1) {
                    differs.push("to_bytes");
                }
            }
            // not a streamable state (e.g. un-normalised version field): nothing to compare
            None => rep.count("skipped:to_bytes-unavailable"),
        }
        // hash() panics for values its codec cannot digest (v2 ProofOfSpace without a valid
        // proof, version >= 2): that is C14's subject (finding F2), not this property's
        match guarded(|| v.hash()) {
            Ok(h1) => {
                rep.count("compared:hash");
                match guarded(|| v2.hash()) {
                    Ok(h2) if h2 == h1 => {}
                    _ => differs.push("hash"),
                }
            }
            Err(_) => rep.count("skipped:hash-unavailable"),
        }
        if !differs.is_empty() {
            rep.violation(
                &format!("json-roundtrip-mismatch:{name}"),
                &format!("{name}: from_json_dict(to_json_dict(v)) differs from v in {}", differs.join("+")),
                json!({"class": name, "differs": differs, "json": py_value(&j, 0), "json_of_result": json_of(&v2, py),
                       "bytes": b1.as_ref().map(|b| hx(b)), "bytes_of_result": bytes_of(&v2).map(|b| hx(&b))}),
            );
            return;
        }
        rep.count("roundtrips-ok");
        if let Some(b) = &b1 {
            let d = vcore::sha256(&[name.as_bytes(), b]);
            rep.cell_digest(u64::from_le_bytes(d[..8].try_into().unwrap()));
        }
        if rep.want_sample() && rng.chance(1, 40) {
            rep.sample(json!({"class": name, "generator": how, "json": py_value(&j, 0)}));
        }

        // ---- single-position corruptions -------------------------------------------------
        let parse = |o: &Bound<'_, PyAny>| match guarded(|| <T as FromJsonDict>::from_json_dict(o)) {
            Ok(Ok(w)) => Outcome::Accepted(json_of(&w, py)),
            Ok(Err(_)) => Outcome::Rejected,
            Err(p) => Outcome::Panicked(format!("{}: {}", p.location, p.message)),
        };
        let mut w = Walker::new(py, j.clone(), &parse, rng, rep, name);
        let r = w.run(&shape);
        w.flush();
        if let Err(e) = r {
            rep.harness_error(&format!("{name}: {e}"));
            return;
        }
        // the tree must be back in its original state
        match guarded(|| <T as FromJsonDict>::from_json_dict(&j)) {
            Ok(Ok(v3)) if v3 == v => {}
            _ => rep.harness_error(&format!("{name}: JSON tree not restored after the corruptions")),
        }
    });
}

macro_rules! arb_entry {
    ("chia-protocol", $name:literal, $path:path) => {
        Entry { krate: "chia-protocol", name: $name, run: run_arb::<$path> }
    };
    ($krate:literal, $name:literal, $path:path) => {
        Entry { krate: $krate, name: $name, run: run_gen::<$path> }
    };
}

fn registry() -> Vec<Entry> {
    let mut v: Vec<Entry> = vec![];
    macro_rules! generated {
        ($krate:tt, $name:literal, $path:path) => {
            v.push(arb_entry!($krate, $name, $path));
        };
    }
    for_each_generated!(generated);
    macro_rules! hand {
        ($krate:literal, $name:literal, $t:ty) => {
            v.push(Entry { krate: $krate, name: $name, run: run_gen::<$t> });
        };
    }
    // hand-written JSON codecs
    hand!("chia-protocol", "Bytes", Bytes);
    hand!("chia-protocol", "BytesImpl<N>", Bytes32);
    hand!("chia-protocol", "BytesImpl<4>", BytesImpl<4>);
    hand!("chia-protocol", "BytesImpl<48>", BytesImpl<48>);
    hand!("chia-protocol", "BytesImpl<100>", BytesImpl<100>);
    hand!("chia-protocol", "Program", Program);
    hand!("chia-bls", "PublicKey", PublicKey);
    hand!("chia-bls", "Signature", Signature);
    hand!("chia-bls", "SecretKey", SecretKey);
    hand!("chia-bls", "GTElement", GTElement);
    // chia-traits: primitives and the generic containers
    hand!("chia-traits", "bool", bool);
    hand!("chia-traits", "u8", u8);
    hand!("chia-traits", "i8", i8);
    hand!("chia-traits", "u16", u16);
    hand!("chia-traits", "i16", i16);
    hand!("chia-traits", "u32", u32);
    hand!("chia-traits", "i32", i32);
    hand!("chia-traits", "u64", u64);
    hand!("chia-traits", "i64", i64);
    hand!("chia-traits", "u128", u128);
    hand!("chia-traits", "i128", i128);
    hand!("chia-traits", "String", String);
    hand!("chia-traits", "Option<T>", Option<u32>);
    hand!("chia-traits", "Option<u128>", Option<u128>);
    hand!("chia-traits", "Option<i64>", Option<i64>);
    hand!("chia-traits", "Option<String>", Option<String>);
    hand!("chia-traits", "Vec<Option<String>>", Vec<Option<String>>);
    hand!("chia-traits", "Option<Bytes32>", Option<Bytes32>);
    hand!("chia-traits", "Option<Vec<u16>>", Option<Vec<u16>>);
    hand!("chia-traits", "Vec<T>", Vec<u64>);
    hand!("chia-traits", "Vec<u8>", Vec<u8>);
    hand!("chia-traits", "Vec<i128>", Vec<i128>);
    hand!("chia-traits", "Vec<String>", Vec<String>);
    hand!("chia-traits", "Vec<Vec<u32>>", Vec<Vec<u32>>);
    hand!("chia-traits", "Vec<Vec<Vec<i8>>>", Vec<Vec<Vec<i8>>>);
    hand!("chia-traits", "Vec<Option<u64>>", Vec<Option<u64>>);
    hand!("chia-traits", "Vec<(Bytes32, Vec<Coin>)>", Vec<(Bytes32, Vec<Coin>)>);
    hand!("chia-traits", "Option<Vec<(Bytes32, Option<Vec<Coin>>)>>", Option<Vec<(Bytes32, Option<Vec<Coin>>)>>);
    hand!("chia-traits", "(T, U)", (u16, String));
    hand!("chia-traits", "(PublicKey, Bytes)", (PublicKey, Bytes));
    hand!("chia-traits", "(i8, (u128, bool))", (i8, (u128, bool)));
    hand!("chia-traits", "(T, U, W)", (Bytes32, u64, Option<Bytes>));
    hand!("chia-traits", "(i128, Vec<u8>, (u8, u8))", (i128, Vec<u8>, (u8, u8)));
    hand!("chia-traits", "[T; N]", [u64; 16]);
    hand!("chia-traits", "[u8; 4]", [u8; 4]);
    hand!("chia-traits", "[i32; 3]", [i32; 3]);
    hand!("chia-traits", "[u128; 1]", [u128; 1]);
    v
}

fn main() {
    let args = Args::parse();
    with_big_stack(move || {
        let mut rep = Report::new(&args.prop, &args.lane);
        if args.prop != "C20" {
            rep.harness_error(&format!("mon_json serves C20, not {}", args.prop));
            rep.finish(&args);
            return;
        }
        let reg = registry();
        if args.shard == 0 && args.only_case.is_none() {
            let have: Vec<(&str, &str)> = reg.iter().map(|e| (e.krate, e.name)).collect();
            match scan::missing(scan::REPO_CRATES, &have) {
                Ok((found, missing)) => {
                    rep.set_extra("registry_size", json!(reg.len()));
                    rep.set_extra("registry_classes_found_in_repo", json!(found));
                    rep.set_extra("registry_missing", json!(missing));
                    if !missing.is_empty() {
                        rep.harness_error(&format!("classes with JSON conversions that are not in the registry: {missing:?}"));
                    }
                }
                Err(e) => rep.harness_error(&format!("registry scan failed: {e}")),
            }
        }
        Python::initialize();
        let per_class = args.cases(250, 4000);
        let n = per_class * reg.len() as u64;
        let nclasses = reg.len() as u64;
        run_cases(&args, "c20", n, &mut rep, |i, rng, rep| {
            // value number i / nclasses of class (i + i / nclasses) % nclasses: the rotation keeps the
            // expensive classes from piling up on the same shards
            let e = &reg[((i + i / nclasses) % nclasses) as usize];
            (e.run)(rng, rep, e.name);
        });
        rep.finish(&args);
    });
}
