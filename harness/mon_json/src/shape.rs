//! What the oracle knows about a class: the *declared* JSON shape of every
//! position (integer width and signedness, fixed byte length, optional or
//! not, variable-length list or fixed-size tuple/array, struct keys). It is
//! derived from Rust type information only — `Subject::shape()` is
//! implemented by hand for the primitive/generic types and by the
//! `shape_struct!`/`shape_enum!`/`shape_newtype!` macros for classes, where
//! rustc checks the written field list against the real type (exhaustive
//! destructuring + type ascription). No JSON conversion of the code under
//! test is consulted to decide what a corruption should do.

use chia_traits::{FromJsonDict, Streamable, ToJsonDict};
use vcore::Rng;

#[derive(Clone, Debug, PartialEq)]
pub enum Shape {
    UInt(u32),
    SInt(u32),
    Bool,
    Str,
    /// "0x" + exactly 2n hex digits
    FixedHex(usize),
    /// variable-length byte string: "" or "0x" + hex digits
    VarHex,
    /// like VarHex; the bytes must be one CLVM serialization
    ProgramHex,
    Opt(Box<Shape>),
    /// Vec<T>: any length
    List(Box<Shape>),
    /// fixed-size heterogeneous list
    Tuple(Vec<Shape>),
    /// [T; N]
    Array(usize, Box<Shape>),
    Struct { name: &'static str, fields: Vec<(String, Shape)> },
    /// u8 discriminant out of a declared set
    Enum { name: &'static str, values: Vec<u8> },
}

impl Shape {
    /// the `<field-type>` part of a violation signature
    pub fn label(&self) -> String {
        match self {
            Shape::UInt(b) => format!("u{b}"),
            Shape::SInt(b) => format!("i{b}"),
            Shape::Bool => "bool".into(),
            Shape::Str => "str".into(),
            Shape::FixedHex(n) => format!("bytes{n}"),
            Shape::VarHex => "bytes".into(),
            Shape::ProgramHex => "program".into(),
            Shape::Opt(inner) => format!("option-{}", inner.label()),
            Shape::List(_) => "list".into(),
            Shape::Tuple(v) => format!("tuple{}", v.len()),
            Shape::Array(n, _) => format!("array{n}"),
            Shape::Struct { .. } => "struct".into(),
            Shape::Enum { .. } => "enum".into(),
        }
    }
}

pub trait Subject: Sized + PartialEq + ToJsonDict + FromJsonDict + Streamable {
    fn shape() -> Shape;
    /// field-wise, edge-biased value generator (all randomness from `rng`)
    fn gen(rng: &mut Rng, depth: u32) -> Self;
    /// bring version-dependent hand-written codecs into a streamable state
    /// (ProofOfSpace, FullBlock, UnfinishedBlock), recursively
    fn normalize(&mut self) {}
}

/// value below 2^bits with a bias to the edges of every width
pub fn edge_bits(rng: &mut Rng, bits: u32) -> u128 {
    let mask: u128 = if bits == 128 { u128::MAX } else { (1u128 << bits) - 1 };
    let v = match rng.below(12) {
        0 => 0,
        1 => 1,
        2 => mask,                    // unsigned MAX / signed -1
        3 => 1u128 << (bits - 1),     // signed MIN / unsigned 2^(bits-1)
        4 => (1u128 << (bits - 1)) - 1, // signed MAX
        5 => mask - 1,
        6 => 1u128 << rng.below(u64::from(bits)),
        7 => (1u128 << rng.below(u64::from(bits))).wrapping_sub(1),
        8 => u128::from(rng.below(300)),
        _ => (u128::from(rng.u64()) << 64) | u128::from(rng.u64()),
    };
    v & mask
}

macro_rules! int_subject {
    ($t:ty, $bits:expr, $shape:ident) => {
        impl Subject for $t {
            fn shape() -> Shape {
                Shape::$shape($bits)
            }
            fn gen(rng: &mut Rng, _depth: u32) -> Self {
                edge_bits(rng, $bits) as $t
            }
        }
    };
}
int_subject!(u8, 8, UInt);
int_subject!(u16, 16, UInt);
int_subject!(u32, 32, UInt);
int_subject!(u64, 64, UInt);
int_subject!(u128, 128, UInt);
int_subject!(i8, 8, SInt);
int_subject!(i16, 16, SInt);
int_subject!(i32, 32, SInt);
int_subject!(i64, 64, SInt);
int_subject!(i128, 128, SInt);

impl Subject for bool {
    fn shape() -> Shape {
        Shape::Bool
    }
    fn gen(rng: &mut Rng, _depth: u32) -> Self {
        rng.bool()
    }
}

const STRINGS: &[&str] = &[
    "", "a", "0x", "0xzz", "0x00", "mainnet", "None", "null", "héllo wörld", "✓ 🚀 \u{10ffff}", "\0", "tab\tnl\n\"quote\"\\",
    "1", "-1", "true",
];

impl Subject for String {
    fn shape() -> Shape {
        Shape::Str
    }
    fn gen(rng: &mut Rng, _depth: u32) -> Self {
        if rng.chance(1, 2) {
            return (*rng.pick(STRINGS)).to_string();
        }
        let n = rng.usize(24);
        (0..n)
            .map(|_| match rng.below(8) {
                0 => char::from_u32(0x80 + rng.u32() % 0x700).unwrap_or('é'),
                1 => char::from_u32(0x1f300 + rng.u32() % 0x200).unwrap_or('🚀'),
                _ => (0x20 + rng.u8() % 0x5f) as char,
            })
            .collect()
    }
}

impl<T: Subject> Subject for Option<T> {
    fn shape() -> Shape {
        Shape::Opt(Box::new(T::shape()))
    }
    fn gen(rng: &mut Rng, depth: u32) -> Self {
        if rng.bool() {
            Some(T::gen(rng, depth))
        } else {
            None
        }
    }
    fn normalize(&mut self) {
        if let Some(v) = self {
            v.normalize();
        }
    }
}

pub fn list_len(rng: &mut Rng, depth: u32) -> usize {
    if depth <= 1 {
        match rng.below(20) {
            0..=4 => 0,
            5..=11 => 1,
            12..=15 => 2,
            16..=18 => 3 + rng.usize(3),
            _ => 6 + rng.usize(7),
        }
    } else {
        match rng.below(20) {
            0..=7 => 0,
            8..=15 => 1,
            16..=18 => 2,
            _ => 3,
        }
    }
}

impl<T: Subject> Subject for Vec<T> {
    fn shape() -> Shape {
        Shape::List(Box::new(T::shape()))
    }
    fn gen(rng: &mut Rng, depth: u32) -> Self {
        let n = list_len(rng, depth);
        (0..n).map(|_| T::gen(rng, depth + 1)).collect()
    }
    fn normalize(&mut self) {
        for v in self {
            v.normalize();
        }
    }
}

impl<T: Subject, U: Subject> Subject for (T, U) {
    fn shape() -> Shape {
        Shape::Tuple(vec![T::shape(), U::shape()])
    }
    fn gen(rng: &mut Rng, depth: u32) -> Self {
        (T::gen(rng, depth), U::gen(rng, depth))
    }
    fn normalize(&mut self) {
        self.0.normalize();
        self.1.normalize();
    }
}

impl<T: Subject, U: Subject, W: Subject> Subject for (T, U, W) {
    fn shape() -> Shape {
        Shape::Tuple(vec![T::shape(), U::shape(), W::shape()])
    }
    fn gen(rng: &mut Rng, depth: u32) -> Self {
        (T::gen(rng, depth), U::gen(rng, depth), W::gen(rng, depth))
    }
    fn normalize(&mut self) {
        self.0.normalize();
        self.1.normalize();
        self.2.normalize();
    }
}

impl<T: Subject + Copy + Default, const N: usize> Subject for [T; N] {
    fn shape() -> Shape {
        Shape::Array(N, Box::new(T::shape()))
    }
    fn gen(rng: &mut Rng, depth: u32) -> Self {
        std::array::from_fn(|_| T::gen(rng, depth + 1))
    }
    fn normalize(&mut self) {
        for v in self {
            v.normalize();
        }
    }
}

/// JSON key of a struct field (`py_uppercase` classes upper-case their keys)
pub fn key(field: &str, upper: bool) -> String {
    if upper {
        field.to_uppercase()
    } else {
        field.to_string()
    }
}

/// Named-field class. The field list is checked by rustc: the pattern in
/// `_declared` is exhaustive (a field added to or removed from the real type
/// does not compile) and every field is ascribed its written type.
#[macro_export]
macro_rules! shape_struct_impl {
    ($path:path, $name:literal, $upper:expr, $post:expr, { $($f:ident : $t:ty),* }) => {
        impl $crate::shape::Subject for $path {
            fn shape() -> $crate::shape::Shape {
                #[allow(dead_code, unused_variables)]
                fn _declared(v: &$path) {
                    type T_ = $path;
                    let T_ { $($f),* } = v;
                    $( let _: &$t = $f; )*
                }
                $crate::shape::Shape::Struct {
                    name: $name,
                    fields: vec![ $( ($crate::shape::key(stringify!($f), $upper), <$t as $crate::shape::Subject>::shape()) ),* ],
                }
            }
            #[allow(unused_variables)]
            fn gen(rng: &mut vcore::Rng, depth: u32) -> Self {
                type T_ = $path;
                T_ { $( $f: <$t as $crate::shape::Subject>::gen(rng, depth + 1) ),* }
            }
            fn normalize(&mut self) {
                $( <$t as $crate::shape::Subject>::normalize(&mut self.$f); )*
                let post: fn(&mut Self) = $post;
                post(self);
            }
        }
    };
}

#[macro_export]
macro_rules! shape_struct {
    ($path:path, $name:literal { $($f:ident : $t:ty),* }) => {
        $crate::shape_struct_impl!($path, $name, false, |_| {}, { $($f : $t),* });
    };
}

#[macro_export]
macro_rules! shape_struct_upper {
    ($path:path, $name:literal { $($f:ident : $t:ty),* }) => {
        $crate::shape_struct_impl!($path, $name, true, |_| {}, { $($f : $t),* });
    };
}

/// like `shape_struct!` with a hook that puts the value into a state its
/// hand-written Streamable codec can serialize
#[macro_export]
macro_rules! shape_struct_post {
    ($path:path, $name:literal, $post:expr, { $($f:ident : $t:ty),* }) => {
        $crate::shape_struct_impl!($path, $name, false, $post, { $($f : $t),* });
    };
}

/// `#[repr(u8)]` enum; the match is exhaustive and the discriminants are
/// compared at compile time.
#[macro_export]
macro_rules! shape_enum {
    ($path:path, $name:literal { $($v:ident = $d:literal),* }) => {
        impl $crate::shape::Subject for $path {
            fn shape() -> $crate::shape::Shape {
                #[allow(dead_code)]
                fn _declared(v: $path) -> u8 {
                    type T_ = $path;
                    $( const _: () = assert!(T_::$v as u8 == $d); )*
                    match v { $( T_::$v => $d ),* }
                }
                $crate::shape::Shape::Enum { name: $name, values: vec![ $($d),* ] }
            }
            fn gen(rng: &mut vcore::Rng, _depth: u32) -> Self {
                type T_ = $path;
                let all = [ $( T_::$v ),* ];
                *rng.pick(&all)
            }
        }
    };
}

/// single-field tuple struct: same JSON as the inner type
#[macro_export]
macro_rules! shape_newtype {
    ($path:path, $name:literal, $t:ty) => {
        impl $crate::shape::Subject for $path {
            fn shape() -> $crate::shape::Shape {
                #[allow(dead_code)]
                fn _declared(v: &$path) {
                    type T_ = $path;
                    let T_ { 0: inner } = v;
                    let _: &$t = inner;
                }
                <$t as $crate::shape::Subject>::shape()
            }
            fn gen(rng: &mut vcore::Rng, depth: u32) -> Self {
                Self(<$t as $crate::shape::Subject>::gen(rng, depth))
            }
            fn normalize(&mut self) {
                <$t as $crate::shape::Subject>::normalize(&mut self.0);
            }
        }
    };
}
