//! Single-position corruptions of a JSON tree (a real CPython object), driven
//! by the declared `Shape`. Every corruption here is one whose rejection the
//! property mandates *for the declared type of that position*:
//!
//! | kind              | applies to                                  | corrupted value                     |
//! |-------------------|---------------------------------------------|-------------------------------------|
//! | int-2^bits        | every integer of declared width `bits`      | 2^bits                              |
//! | int-neg1          | unsigned integers                           | -1                                  |
//! | int-max+1         | signed integers                             | 2^(bits-1)                          |
//! | int-min-1         | signed integers                             | -2^(bits-1) - 1                     |
//! | int-2^128         | every integer of width < 128                | 2^128                               |
//! | int-neg2^128      | every integer                               | -2^128                              |
//! | enum-undefined    | u8 enums                                    | a u8 that is no declared discriminant |
//! | hex-short         | fixed-size byte strings                     | one byte fewer                      |
//! | hex-long          | fixed-size byte strings                     | one byte more                       |
//! | hex-odd           | fixed-size byte strings                     | half a byte fewer                   |
//! | hex-baddigit      | every non-empty byte string / program       | one digit replaced by a non-hex char|
//! | hex-odd-long      | every fixed-size byte string                | one surplus character (2N+1 chars)  |
//! | tuple-short/-long | fixed-size tuples                           | last element dropped / duplicated   |
//! | array-short/-long | [T; N]                                      | last element dropped / duplicated   |
//! | none-for-required | every position that is not an Option        | None                                |
//! | missing-key       | every struct field that is not an Option    | key deleted                         |
//!
//! Vec lengths, a missing `0x`, hex case, extra keys, bool-as-int and a
//! missing key of an *optional* field are not judged (the latter is probed
//! and counted under `unjudged:`).

use crate::shape::Shape;
use num_bigint::BigInt;
use pyo3::prelude::*;
use pyo3::types::{PyBool, PyDict, PyInt, PyList, PyString};
use serde_json::{json, Value};
use std::collections::{BTreeMap, BTreeSet};
use vcore::{Report, Rng};

pub enum Outcome {
    Rejected,
    /// the corrupted tree was parsed; JSON form of what it was parsed as
    Accepted(Value),
    Panicked(String),
}

enum Slot<'py> {
    Root,
    Key(Bound<'py, PyDict>, String),
    Index(Bound<'py, PyList>, usize),
}

/// Python object -> serde_json (witnesses only). Integers outside i64/u64 become "int:<decimal>".
pub fn py_value(o: &Bound<'_, PyAny>, depth: u32) -> Value {
    if depth > 40 {
        return json!("<deep>");
    }
    if o.is_none() {
        return Value::Null;
    }
    if let Ok(b) = o.cast::<PyBool>() {
        return json!(b.is_true());
    }
    if o.is_instance_of::<PyInt>() {
        if let Ok(v) = o.extract::<u64>() {
            return json!(v);
        }
        if let Ok(v) = o.extract::<i64>() {
            return json!(v);
        }
        return match o.extract::<BigInt>() {
            Ok(v) => json!(format!("int:{v}")),
            Err(_) => json!("<int>"),
        };
    }
    if let Ok(s) = o.cast::<PyString>() {
        return json!(s.to_string_lossy().into_owned());
    }
    if let Ok(l) = o.cast::<PyList>() {
        return Value::Array(l.iter().map(|x| py_value(&x, depth + 1)).collect());
    }
    if let Ok(d) = o.cast::<PyDict>() {
        let mut m = serde_json::Map::new();
        for (k, v) in d.iter() {
            m.insert(k.str().map(|s| s.to_string_lossy().into_owned()).unwrap_or_default(), py_value(&v, depth + 1));
        }
        return Value::Object(m);
    }
    json!(format!("<{}>", o.get_type().name().map(|n| n.to_string()).unwrap_or_default()))
}

fn truncate_value(v: Value) -> Value {
    let s = v.to_string();
    if s.len() > 6000 {
        json!(format!("{}…(+{} chars)", s.chars().take(6000).collect::<String>(), s.len() - 6000))
    } else {
        v
    }
}

const BAD_DIGITS: &[char] = &['g', 'G', 'z', 'Z', '/', ':', '@', '`', '-', ' ', 'x', 'é'];

pub struct Walker<'a, 'py> {
    pub py: Python<'py>,
    pub root: Bound<'py, PyAny>,
    pub parse: &'a dyn Fn(&Bound<'py, PyAny>) -> Outcome,
    pub rng: &'a mut Rng,
    pub rep: &'a mut Report,
    pub class: &'a str,
    /// (kind) -> (applied, rejected), flushed once per value
    pub tally: BTreeMap<&'static str, (u64, u64)>,
    pub cells: BTreeSet<String>,
    pub unjudged: BTreeMap<String, u64>,
    pub applied: u64,
    pub elements_skipped: u64,
}

/// at most this many elements of one list are descended into (chosen by the case RNG)
const MAX_LIST_DESCENT: usize = 12;

impl<'a, 'py> Walker<'a, 'py> {
    pub fn new(
        py: Python<'py>,
        root: Bound<'py, PyAny>,
        parse: &'a dyn Fn(&Bound<'py, PyAny>) -> Outcome,
        rng: &'a mut Rng,
        rep: &'a mut Report,
        class: &'a str,
    ) -> Self {
        Walker {
            py,
            root,
            parse,
            rng,
            rep,
            class,
            tally: BTreeMap::new(),
            cells: BTreeSet::new(),
            unjudged: BTreeMap::new(),
            applied: 0,
            elements_skipped: 0,
        }
    }

    pub fn run(&mut self, shape: &Shape) -> Result<(), String> {
        let root = self.root.clone();
        self.walk(shape, &root, &Slot::Root, false, "$")
    }

    /// write the per-value tallies into the report
    pub fn flush(&mut self) {
        for (kind, (applied, rejected)) in &self.tally {
            self.rep.add(&format!("applicable:{kind}"), *applied);
            self.rep.add(&format!("rejected:{kind}"), *rejected);
        }
        self.rep.add(&format!("corruptions:{}", self.class), self.applied);
        self.rep.add("corruptions-total", self.applied);
        if self.elements_skipped > 0 {
            self.rep.add("list-elements-not-descended", self.elements_skipped);
        }
        for (k, n) in &self.unjudged {
            self.rep.add(k, *n);
        }
        for c in &self.cells {
            self.rep.cell(c);
        }
    }

    /// put `new` (or nothing, for a deleted key) into the slot, parse the whole tree, restore
    fn with_slot(&mut self, slot: &Slot<'py>, orig: &Bound<'py, PyAny>, new: Option<&Bound<'py, PyAny>>) -> Result<Outcome, String> {
        let e = |x: PyErr| format!("python container operation failed: {x}");
        match slot {
            Slot::Root => {
                let new = new.ok_or("cannot delete the root")?;
                Ok((self.parse)(new))
            }
            Slot::Key(d, k) => {
                match new {
                    Some(n) => d.set_item(k, n).map_err(e)?,
                    None => d.del_item(k).map_err(e)?,
                }
                let r = (self.parse)(&self.root);
                d.set_item(k, orig).map_err(e)?;
                Ok(r)
            }
            Slot::Index(l, i) => {
                let new = new.ok_or("cannot delete a list element")?;
                l.set_item(*i, new).map_err(e)?;
                let r = (self.parse)(&self.root);
                l.set_item(*i, orig).map_err(e)?;
                Ok(r)
            }
        }
    }

    #[allow(clippy::too_many_arguments)]
    fn attempt(
        &mut self,
        kind: &'static str,
        shape: &Shape,
        slot: &Slot<'py>,
        orig: &Bound<'py, PyAny>,
        new: Option<&Bound<'py, PyAny>>,
        path: &str,
    ) -> Result<(), String> {
        let out = self.with_slot(slot, orig, new)?;
        self.rep.eval();
        self.applied += 1;
        let t = self.tally.entry(kind).or_insert((0, 0));
        t.0 += 1;
        self.cells.insert(format!("{}|{}|{}", self.class, path, kind));
        let label = shape.label();
        match out {
            Outcome::Rejected => {
                t.1 += 1;
            }
            Outcome::Accepted(parsed_as) => {
                let detail = json!({
                    "class": self.class,
                    "path": path,
                    "corruption": kind,
                    "declared_field_type": label,
                    "original_value": truncate_value(py_value(orig, 0)),
                    "corrupted_value": new.map_or(json!("<key deleted>"), |n| truncate_value(py_value(n, 0))),
                    "parsed_as": truncate_value(parsed_as),
                    "json": truncate_value(py_value(&self.root, 0)),
                });
                self.rep.violation(
                    &format!("json-malformed-accepted:{kind}:{label}"),
                    &format!("{}.from_json_dict accepted a tree with {kind} at {path} (declared {label})", self.class),
                    detail,
                );
            }
            Outcome::Panicked(msg) => {
                self.rep.violation(
                    &format!("json-malformed-panic:{kind}:{label}"),
                    &format!("{}.from_json_dict panicked on a tree with {kind} at {path}: {msg}", self.class),
                    json!({"class": self.class, "path": path, "corruption": kind, "declared_field_type": label,
                           "json": truncate_value(py_value(&self.root, 0))}),
                );
            }
        }
        Ok(())
    }

    fn int(&self, v: BigInt) -> Result<Bound<'py, PyAny>, String> {
        v.into_pyobject(self.py).map(Bound::into_any).map_err(|e| format!("bigint to python: {e}"))
    }

    fn int_corruptions(&mut self, shape: &Shape, bits: u32, signed: bool, slot: &Slot<'py>, node: &Bound<'py, PyAny>, path: &str) -> Result<(), String> {
        let one = BigInt::from(1);
        let two_bits = &one << bits;
        let two_128 = &one << 128u32;
        let mut list: Vec<(&'static str, BigInt)> = vec![("int-2^bits", two_bits)];
        if signed {
            list.push(("int-max+1", &one << (bits - 1)));
            list.push(("int-min-1", -(&one << (bits - 1)) - &one));
        } else {
            list.push(("int-neg1", BigInt::from(-1)));
        }
        if bits < 128 {
            list.push(("int-2^128", two_128.clone()));
        }
        list.push(("int-neg2^128", -two_128));
        for (kind, v) in list {
            let new = self.int(v)?;
            self.attempt(kind, shape, slot, node, Some(&new), path)?;
        }
        Ok(())
    }

    fn expect_int(node: &Bound<'py, PyAny>, path: &str) -> Result<(), String> {
        if node.is_instance_of::<PyInt>() && !node.is_instance_of::<PyBool>() {
            Ok(())
        } else {
            Err(format!("registry shape says integer at {path}, JSON has {}", py_value(node, 0)))
        }
    }

    fn str_node(&self, s: &str) -> Bound<'py, PyAny> {
        PyString::new(self.py, s).into_any()
    }

    fn bad_digit(&mut self, s: &str) -> String {
        // replace one digit after the "0x" prefix
        let digits = s.len() - 2;
        let at = 2 + self.rng.usize(digits);
        let bad = *self.rng.pick(BAD_DIGITS);
        let mut out = String::with_capacity(s.len() + 2);
        out.push_str(&s[..at]);
        out.push(bad);
        out.push_str(&s[at + 1..]);
        out
    }

    fn walk(&mut self, shape: &Shape, node: &Bound<'py, PyAny>, slot: &Slot<'py>, nullable: bool, path: &str) -> Result<(), String> {
        if let Shape::Opt(inner) = shape {
            if node.is_none() {
                *self.unjudged.entry("seen:option-none".into()).or_insert(0) += 1;
                return Ok(());
            }
            *self.unjudged.entry("seen:option-some".into()).or_insert(0) += 1;
            return self.walk(inner, node, slot, true, path);
        }
        let empty_struct = matches!(shape, Shape::Struct { fields, .. } if fields.is_empty());
        if !nullable {
            if empty_struct {
                // a class without fields has no value that could be missing: probed, not judged
                let none = self.py.None().into_bound(self.py);
                let out = self.with_slot(slot, node, Some(&none))?;
                let k = match out {
                    Outcome::Rejected => "unjudged:none-for-fieldless-class:rejected",
                    Outcome::Accepted(_) => "unjudged:none-for-fieldless-class:accepted",
                    Outcome::Panicked(_) => "unjudged:none-for-fieldless-class:panicked",
                };
                *self.unjudged.entry(k.into()).or_insert(0) += 1;
            } else {
                let none = self.py.None().into_bound(self.py);
                self.attempt("none-for-required", shape, slot, node, Some(&none), path)?;
            }
        }
        match shape {
            Shape::Opt(_) => unreachable!(),
            Shape::UInt(bits) => {
                Self::expect_int(node, path)?;
                self.int_corruptions(shape, *bits, false, slot, node, path)?;
            }
            Shape::SInt(bits) => {
                Self::expect_int(node, path)?;
                self.int_corruptions(shape, *bits, true, slot, node, path)?;
            }
            Shape::Enum { values, .. } => {
                Self::expect_int(node, path)?;
                self.int_corruptions(shape, 8, false, slot, node, path)?;
                let undefined: Vec<u8> = (0u8..=255).filter(|v| !values.contains(v)).collect();
                if !undefined.is_empty() {
                    let mut picks = vec![undefined[0], *undefined.last().unwrap()];
                    picks.push(*self.rng.pick(&undefined));
                    picks.dedup();
                    for v in picks {
                        let new = self.int(BigInt::from(v))?;
                        self.attempt("enum-undefined", shape, slot, node, Some(&new), path)?;
                    }
                }
            }
            Shape::Bool => {
                if !node.is_instance_of::<PyBool>() {
                    return Err(format!("registry shape says bool at {path}, JSON has {}", py_value(node, 0)));
                }
            }
            Shape::Str => {
                if !node.is_instance_of::<PyString>() {
                    return Err(format!("registry shape says string at {path}, JSON has {}", py_value(node, 0)));
                }
            }
            Shape::FixedHex(n) => {
                let s: String = node.extract().map_err(|_| format!("registry shape says hex string at {path}, JSON has {}", py_value(node, 0)))?;
                if !s.starts_with("0x") || s.len() != 2 + 2 * n || !s.is_ascii() {
                    return Err(format!("registry shape says 0x + {n} bytes at {path}, JSON has {s:?}"));
                }
                if *n > 0 {
                    let new = self.str_node(&s[..s.len() - 2]);
                    self.attempt("hex-short", shape, slot, node, Some(&new), path)?;
                    let new = self.str_node(&s[..s.len() - 1]);
                    self.attempt("hex-odd", shape, slot, node, Some(&new), path)?;
                    let bad = self.bad_digit(&s);
                    let new = self.str_node(&bad);
                    self.attempt("hex-baddigit", shape, slot, node, Some(&new), path)?;
                }
                let long = format!("{s}{:02x}", self.rng.u8());
                let new = self.str_node(&long);
                self.attempt("hex-long", shape, slot, node, Some(&new), path)?;
                // one surplus CHARACTER (an odd number of digits, one nibble too many): a hex digit or not
                let extra = *self.rng.pick(&['0', 'f', '7', 'a', 'z', '!', 'G']);
                let new = self.str_node(&format!("{s}{extra}"));
                self.attempt("hex-odd-long", shape, slot, node, Some(&new), path)?;
            }
            Shape::VarHex | Shape::ProgramHex => {
                let s: String = node.extract().map_err(|_| format!("registry shape says hex string at {path}, JSON has {}", py_value(node, 0)))?;
                if s.is_empty() {
                    *self.unjudged.entry("seen:bytes-empty".into()).or_insert(0) += 1;
                } else {
                    if !s.starts_with("0x") || s.len() < 4 || s.len() % 2 != 0 || !s.is_ascii() {
                        return Err(format!("registry shape says 0x + bytes at {path}, JSON has {s:?}"));
                    }
                    let bad = self.bad_digit(&s);
                    let new = self.str_node(&bad);
                    self.attempt("hex-baddigit", shape, slot, node, Some(&new), path)?;
                }
            }
            Shape::List(inner) => {
                let list = node.cast::<PyList>().map_err(|_| format!("registry shape says list at {path}, JSON has {}", py_value(node, 0)))?.clone();
                let n = list.len();
                let mut idx: Vec<usize> = (0..n).collect();
                if n > MAX_LIST_DESCENT {
                    self.rng.shuffle(&mut idx);
                    idx.truncate(MAX_LIST_DESCENT);
                    idx.sort_unstable();
                    self.elements_skipped += (n - MAX_LIST_DESCENT) as u64;
                }
                let sub = format!("{path}[]");
                for i in idx {
                    let item = list.get_item(i).map_err(|e| e.to_string())?;
                    self.walk(inner, &item, &Slot::Index(list.clone(), i), false, &sub)?;
                }
            }
            Shape::Tuple(shapes) => {
                self.fixed_list(shape, shapes.len(), |i| &shapes[i], "tuple-short", "tuple-long", node, slot, path)?;
            }
            Shape::Array(n, inner) => {
                self.fixed_list(shape, *n, |_| inner, "array-short", "array-long", node, slot, path)?;
            }
            Shape::Struct { fields, .. } => {
                let dict = node.cast::<PyDict>().map_err(|_| format!("registry shape says dict at {path}, JSON has {}", py_value(node, 0)))?.clone();
                if dict.len() != fields.len() {
                    return Err(format!("registry shape has {} keys at {path}, JSON has {}", fields.len(), dict.len()));
                }
                for (key, fshape) in fields {
                    let item = dict
                        .get_item(key)
                        .map_err(|e| e.to_string())?
                        .ok_or_else(|| format!("registry shape has key {key} at {path}, JSON does not"))?;
                    let sub = format!("{path}.{key}");
                    let fslot = Slot::Key(dict.clone(), key.clone());
                    if matches!(fshape, Shape::Opt(_)) {
                        let out = self.with_slot(&fslot, &item, None)?;
                        let k = match out {
                            Outcome::Rejected => "unjudged:missing-key-of-optional:rejected",
                            Outcome::Accepted(_) => "unjudged:missing-key-of-optional:accepted",
                            Outcome::Panicked(_) => "unjudged:missing-key-of-optional:panicked",
                        };
                        *self.unjudged.entry(k.into()).or_insert(0) += 1;
                    } else {
                        self.attempt("missing-key", fshape, &fslot, &item, None, &sub)?;
                    }
                    self.walk(fshape, &item, &fslot, false, &sub)?;
                }
            }
        }
        Ok(())
    }

    #[allow(clippy::too_many_arguments)]
    fn fixed_list<'s>(
        &mut self,
        shape: &Shape,
        n: usize,
        elem: impl Fn(usize) -> &'s Shape,
        short: &'static str,
        long: &'static str,
        node: &Bound<'py, PyAny>,
        slot: &Slot<'py>,
        path: &str,
    ) -> Result<(), String> {
        let list = node.cast::<PyList>().map_err(|_| format!("registry shape says fixed-size list at {path}, JSON has {}", py_value(node, 0)))?.clone();
        if list.len() != n {
            return Err(format!("registry shape says {n} elements at {path}, JSON has {}", list.len()));
        }
        let items: Vec<Bound<'py, PyAny>> = list.iter().collect();
        if n > 0 {
            let new = PyList::new(self.py, &items[..n - 1]).map_err(|e| e.to_string())?.into_any();
            self.attempt(short, shape, slot, node, Some(&new), path)?;
            let mut more = items.clone();
            more.push(items[n - 1].clone());
            let new = PyList::new(self.py, &more).map_err(|e| e.to_string())?.into_any();
            self.attempt(long, shape, slot, node, Some(&new), path)?;
        }
        for (i, item) in items.iter().enumerate() {
            let sub = format!("{path}({i})");
            self.walk(elem(i), item, &Slot::Index(list.clone(), i), false, &sub)?;
        }
        Ok(())
    }
}
