//! Startup cross-check of the registry against the repository sources: every
//! class that gets `ToJsonDict`/`FromJsonDict` (derive `PyJsonDict`, the
//! `#[streamable]` attribute inside chia-protocol, an explicit `impl ToJsonDict
//! for X`, or `to_json_primitive!(X)`) must have a registry entry.

use std::collections::BTreeSet;
use std::path::{Path, PathBuf};

pub const REPO_CRATES: &str = "/repo/crates";

fn strip_comments(s: &str) -> String {
    let b = s.as_bytes();
    let mut out = String::with_capacity(s.len());
    let mut i = 0;
    while i < b.len() {
        if b[i] == b'/' && i + 1 < b.len() && b[i + 1] == b'/' {
            while i < b.len() && b[i] != b'\n' {
                i += 1;
            }
        } else if b[i] == b'/' && i + 1 < b.len() && b[i + 1] == b'*' {
            i += 2;
            while i + 1 < b.len() && !(b[i] == b'*' && b[i + 1] == b'/') {
                i += 1;
            }
            i += 2;
        } else {
            let ch_len = s[i..].chars().next().map_or(1, char::len_utf8);
            out.push_str(&s[i..i + ch_len]);
            i += ch_len;
        }
    }
    out
}

fn rs_files(dir: &Path, out: &mut Vec<PathBuf>) {
    let Ok(rd) = std::fs::read_dir(dir) else { return };
    let mut entries: Vec<PathBuf> = rd.filter_map(|e| e.ok().map(|e| e.path())).collect();
    entries.sort();
    for p in entries {
        if p.is_dir() {
            rs_files(&p, out);
        } else if p.extension().is_some_and(|e| e == "rs") {
            out.push(p);
        }
    }
}

fn ident_at(s: &str) -> &str {
    let end = s.find(|c: char| !(c.is_alphanumeric() || c == '_')).unwrap_or(s.len());
    &s[..end]
}

/// `pub struct|enum Name` items together with the attributes directly in front of them
fn items(text: &str) -> Vec<(String, String)> {
    let b = text.as_bytes();
    let mut out = vec![];
    let mut pending = String::new();
    let mut i = 0;
    while i < b.len() {
        if b[i].is_ascii_whitespace() {
            i += 1;
        } else if b[i] == b'#' && i + 1 < b.len() && b[i + 1] == b'[' {
            let mut d = 0;
            let mut j = i + 1;
            while j < b.len() {
                if b[j] == b'[' {
                    d += 1;
                } else if b[j] == b']' {
                    d -= 1;
                    if d == 0 {
                        break;
                    }
                }
                j += 1;
            }
            pending.push_str(&text[i..(j + 1).min(b.len())]);
            pending.push('\n');
            i = j + 1;
        } else {
            let rest = &text[i..];
            let mut matched = false;
            if let Some(r) = rest.strip_prefix("pub ") {
                let r = r.trim_start();
                for kw in ["struct ", "enum "] {
                    if let Some(r) = r.strip_prefix(kw) {
                        let name = ident_at(r.trim_start());
                        if !name.is_empty() {
                            out.push((pending.clone(), name.to_string()));
                            matched = true;
                        }
                    }
                }
            }
            pending.clear();
            if matched {
                i += 4;
            } else {
                // skip to the end of this token
                while i < b.len() && !b[i].is_ascii_whitespace() && b[i] != b'#' {
                    i += 1;
                }
                if i < b.len() && b[i] == b'#' && !(i + 1 < b.len() && b[i + 1] == b'[') {
                    i += 1;
                }
            }
        }
    }
    out
}

/// classes with JSON conversions found under `root`, as (crate dir, name)
pub fn classes(root: &str) -> Result<BTreeSet<(String, String)>, String> {
    let mut found = BTreeSet::new();
    let rd = std::fs::read_dir(root).map_err(|e| format!("{root}: {e}"))?;
    let mut crates: Vec<PathBuf> = rd.filter_map(|e| e.ok().map(|e| e.path())).filter(|p| p.is_dir()).collect();
    crates.sort();
    for c in crates {
        let cname = c.file_name().and_then(|n| n.to_str()).unwrap_or("").to_string();
        if cname == "chia_py_streamable_macro" || cname == "chia_streamable_macro" {
            continue; // the derive macros themselves
        }
        let mut files = vec![];
        rs_files(&c.join("src"), &mut files);
        for f in files {
            let Ok(raw) = std::fs::read_to_string(&f) else { continue };
            let text = strip_comments(&raw);
            for (attrs, name) in items(&text) {
                if attrs.contains("cfg(not(feature = \"py-bindings\"))") {
                    continue;
                }
                let streamable_attr = attrs.lines().map(str::trim).find(|l| l.starts_with("#[streamable"));
                let by_attr = cname == "chia-protocol" && streamable_attr.is_some_and(|l| !l.contains("no_json"));
                if attrs.contains("PyJsonDict") || by_attr {
                    found.insert((cname.clone(), name));
                }
            }
            // explicit impls
            let mut rest = text.as_str();
            while let Some(p) = rest.find("ToJsonDict for ") {
                let after = &rest[p + "ToJsonDict for ".len()..];
                let end = after.find('{').unwrap_or(after.len());
                let mut target = after[..end].trim();
                if let Some(w) = target.find(" where") {
                    target = target[..w].trim();
                }
                let target: String = target.split_whitespace().collect::<Vec<_>>().join(" ");
                if !target.starts_with('$') && !target.starts_with('#') && !target.is_empty() {
                    found.insert((cname.clone(), target));
                }
                rest = after;
            }
            let mut rest = text.as_str();
            while let Some(p) = rest.find("to_json_primitive!(") {
                let after = &rest[p + "to_json_primitive!(".len()..];
                let name = ident_at(after);
                if !name.is_empty() {
                    found.insert((cname.clone(), name.to_string()));
                }
                rest = after;
            }
        }
    }
    Ok(found)
}

/// (number of classes found in the repository, those without a registry entry)
pub fn missing(root: &str, have: &[(&str, &str)]) -> Result<(usize, Vec<String>), String> {
    let found = classes(root)?;
    if found.len() < 100 {
        return Err(format!("only {} classes found under {root}: the scan is broken", found.len()));
    }
    let have: BTreeSet<(String, String)> = have.iter().map(|(c, n)| ((*c).to_string(), (*n).to_string())).collect();
    let missing = found.iter().filter(|k| !have.contains(*k)).map(|(c, n)| format!("{c}::{n}")).collect();
    Ok((found.len(), missing))
}
