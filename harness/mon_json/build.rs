// The monitor embeds CPython. pyo3-ffi links libpython3.x.so but does not record where it
// lives; the driver starts the binary directly (not through `cargo run`), so the directory
// goes into the rpath here.
fn main() {
    pyo3_build_config::add_libpython_rpath_link_args();
    println!("cargo:rerun-if-changed=build.rs");
}
