//! Helpers shared by the C15 and C16 monitors: curve constants (public
//! parameters of BLS12-381, not taken from the repository), byte-string
//! candidates and rejection sampling of curve points from random x.

use chia_bls::Signature;
use num_bigint::BigUint;
use num_traits::Num;
use vcore::Rng;

/// order r of the prime-order subgroups G1, G2
pub const R_HEX: &str = "73eda753299d7d483339d80809a1d80553bda402fffe5bfeffffffff00000001";
/// base-field modulus p
pub const P_HEX: &str =
    "1a0111ea397fe69a4b1ba7b6434bacd764774b84f38512bf6730d2a0f6b0f6241eabfffeb153ffffb9feffffffffaaab";

pub fn group_order() -> BigUint {
    BigUint::from_str_radix(R_HEX, 16).expect("r")
}

pub fn field_modulus() -> BigUint {
    BigUint::from_str_radix(P_HEX, 16).expect("p")
}

/// big-endian, left-padded to N bytes; None if the value does not fit
pub fn be_fixed<const N: usize>(v: &BigUint) -> Option<[u8; N]> {
    let b = v.to_bytes_be();
    if b.len() > N {
        return None;
    }
    let mut out = [0u8; N];
    out[N - b.len()..].copy_from_slice(&b);
    Some(out)
}

/// 48-byte string with the compression flag set, a random sign flag and a
/// uniformly random x below 0x1a·2^376 (< p): about half of these decode
/// to a point of E1(Fp); such a point lies in G1 with probability 1/h1 < 2^-125.
pub fn g1_candidate(rng: &mut Rng) -> [u8; 48] {
    let mut b = [0u8; 48];
    b.copy_from_slice(&rng.bytes(48));
    b[0] = 0x80 | (u8::from(rng.bool()) << 5) | (rng.below(0x1a) as u8);
    b
}

/// 96-byte string (x = c1 ‖ c0, flags on the first byte), both coordinates < p.
/// A decodable one lies in G2 with probability 1/h2 < 2^-500.
pub fn g2_candidate(rng: &mut Rng) -> [u8; 96] {
    let mut b = [0u8; 96];
    b.copy_from_slice(&rng.bytes(96));
    b[0] = 0x80 | (u8::from(rng.bool()) << 5) | (rng.below(0x1a) as u8);
    b[48] = rng.below(0x1a) as u8;
    b
}

/// A point of E2(Fp2) from a random x (unchecked parser as the decoder).
/// Off the subgroup by construction, except with negligible probability.
pub fn sample_curve_point_g2(rng: &mut Rng, tries: &mut u64) -> Option<([u8; 96], Signature)> {
    for _ in 0..200 {
        *tries += 1;
        let b = g2_candidate(rng);
        if let Ok(p) = Signature::from_bytes_unchecked(&b) {
            return Some((b, p));
        }
    }
    None
}

pub fn fnv64(bytes: &[u8]) -> u64 {
    let mut h: u64 = 0xcbf2_9ce4_8422_2325;
    for b in bytes {
        h ^= u64::from(*b);
        h = h.wrapping_mul(0x100_0000_01b3);
    }
    h
}
