//! Deterministic cooperative scheduler on top of the `verif-hooks` gate of
//! chia-bls (`gate(site)` is called immediately before every `cache.lock()`).
//!
//! Worker threads block at each gate point until the controller (the case's
//! own thread) picks them; exactly one worker runs between two gate points,
//! so a run is a sequence of (thread, site) steps chosen by a `Chooser`.
//! The controller samples `len()` whenever every live worker is parked at a
//! gate (the gate is a no-op for the controller thread: re-entrancy guard).
//! A watchdog turns a stuck run into an inconclusive result, never a violation.

use std::cell::Cell;
use std::sync::mpsc;
use std::sync::{Arc, Condvar, Mutex, MutexGuard};
use std::time::{Duration, Instant};

use chia_bls::{BlsCache, PublicKey, Signature};
use vcore::report::{guarded, PanicInfo};
use vcore::Rng;

#[derive(Clone, Copy, PartialEq, Eq, Debug)]
enum St {
    Running,
    Waiting(u8),
    Done,
}

struct State {
    epoch: u64,
    st: Vec<St>,
    abort: bool,
}

static STATE: Mutex<State> = Mutex::new(State { epoch: 0, st: Vec::new(), abort: false });
static CV: Condvar = Condvar::new();

thread_local! {
    /// (epoch, worker index) for scheduled workers; None for every other thread
    static WORKER: Cell<Option<(u64, usize)>> = const { Cell::new(None) };
    /// gate sites passed by a non-worker thread (sequential workloads use this as a hit/miss meter)
    static SEQ_SITES: Cell<[u64; 6]> = const { Cell::new([0; 6]) };
}

fn lock() -> MutexGuard<'static, State> {
    STATE.lock().unwrap_or_else(std::sync::PoisonError::into_inner)
}

/// The function installed with `chia_bls::verif_hooks::set_gate`.
pub fn gate_fn(site: u8) {
    match WORKER.get() {
        None => {
            SEQ_SITES.with(|c| {
                let mut v = c.get();
                if let Some(x) = v.get_mut(site as usize) {
                    *x += 1;
                }
                c.set(v);
            });
        }
        Some((epoch, tid)) => {
            let mut g = lock();
            if g.epoch != epoch || g.abort {
                return;
            }
            g.st[tid] = St::Waiting(site);
            CV.notify_all();
            while g.epoch == epoch && !g.abort && g.st[tid] != St::Running {
                g = CV.wait(g).unwrap_or_else(std::sync::PoisonError::into_inner);
            }
        }
    }
}

pub fn install_gate() {
    chia_bls::verif_hooks::set_gate(Some(gate_fn));
}

pub fn remove_gate() {
    chia_bls::verif_hooks::set_gate(None);
}

/// gate sites passed by this (non-worker) thread since the last call
pub fn take_seq_sites() -> [u64; 6] {
    SEQ_SITES.with(|c| c.replace([0; 6]))
}

/// One verification job of a worker thread.
#[derive(Clone)]
pub struct Job {
    pub pairs: Vec<(PublicKey, Vec<u8>)>,
    pub sig: Signature,
}

pub type Verdict = Result<bool, PanicInfo>;

pub fn run_job(cache: &BlsCache, job: &Job) -> Verdict {
    guarded(|| cache.aggregate_verify(job.pairs.iter().map(|(p, m)| (p, m.as_slice())), &job.sig))
}

/// Picks the next worker among the enabled ones.
pub enum Chooser<'a> {
    /// follow `prefix`, then always the lowest enabled worker (DFS replay)
    Prefix(&'a [usize]),
    /// uniformly random
    Random(&'a mut Rng),
    /// stay on the same worker with probability 3/4
    Sticky(&'a mut Rng, Option<usize>),
    /// PCT: fixed random priorities, lowered at a few random change points
    Pct { prio: Vec<i64>, change: Vec<usize>, low: i64 },
}

impl Chooser<'_> {
    pub fn pct(rng: &mut Rng, nthreads: usize, depth: usize, est_steps: usize) -> Chooser<'static> {
        let mut prio: Vec<i64> = (0..nthreads as i64).map(|i| 1000 + i).collect();
        rng.shuffle(&mut prio);
        let change = (0..depth.saturating_sub(1)).map(|_| rng.usize(est_steps.max(1))).collect();
        Chooser::Pct { prio, change, low: 0 }
    }

    /// None => the schedule cannot be followed (replay diverged)
    fn choose(&mut self, step: usize, enabled: &[usize]) -> Option<usize> {
        match self {
            Chooser::Prefix(p) => match p.get(step) {
                Some(t) => enabled.contains(t).then_some(*t),
                None => enabled.first().copied(),
            },
            Chooser::Random(rng) => Some(*rng.pick(enabled)),
            Chooser::Sticky(rng, last) => {
                let pick = match *last {
                    Some(t) if enabled.contains(&t) && rng.chance(3, 4) => t,
                    _ => *rng.pick(enabled),
                };
                *last = Some(pick);
                Some(pick)
            }
            Chooser::Pct { prio, change, low } => {
                let pick = *enabled.iter().max_by_key(|t| prio[**t])?;
                if change.contains(&step) {
                    *low -= 1;
                    prio[pick] = *low;
                }
                Some(pick)
            }
        }
    }
}

pub struct RunOutcome {
    /// verdict of each worker (None: never reported)
    pub verdicts: Vec<Option<Verdict>>,
    /// the interleaving: (worker, site) per step
    pub trace: Vec<(u8, u8)>,
    /// enabled workers at each step (for DFS over schedule prefixes)
    pub enabled: Vec<Vec<usize>>,
    /// len() at every point where all live workers were parked, plus one after the end
    pub len_samples: Vec<usize>,
    pub timed_out: bool,
    pub diverged: bool,
}

impl RunOutcome {
    pub fn choices(&self) -> Vec<usize> {
        self.trace.iter().map(|(t, _)| *t as usize).collect()
    }
}

/// Run `jobs` (one worker thread each) against `cache` under `chooser`.
/// The gate must be installed. Worker threads are detached: if a run gets
/// stuck the epoch is advanced so late gate calls fall through.
pub fn run_schedule(cache: &Arc<BlsCache>, jobs: &[Job], chooser: &mut Chooser<'_>, watchdog: Duration) -> RunOutcome {
    let n = jobs.len();
    let epoch = {
        let mut g = lock();
        g.epoch += 1;
        g.st = vec![St::Running; n];
        g.abort = false;
        g.epoch
    };
    let (tx, rx) = mpsc::channel::<(usize, Verdict)>();
    for (tid, job) in jobs.iter().enumerate() {
        let cache = Arc::clone(cache);
        let job = job.clone();
        let tx = tx.clone();
        std::thread::Builder::new()
            .name(format!("sched-worker-{tid}"))
            .spawn(move || {
                WORKER.set(Some((epoch, tid)));
                let v = run_job(&cache, &job);
                {
                    let mut g = lock();
                    if g.epoch == epoch {
                        g.st[tid] = St::Done;
                    }
                    CV.notify_all();
                }
                let _ = tx.send((tid, v));
            })
            .expect("spawn worker");
    }
    drop(tx);

    let deadline = Instant::now() + watchdog;
    let mut out = RunOutcome {
        verdicts: (0..n).map(|_| None).collect(),
        trace: vec![],
        enabled: vec![],
        len_samples: vec![],
        timed_out: false,
        diverged: false,
    };
    let mut step = 0usize;
    'run: loop {
        let (enabled, sites) = {
            let mut g = lock();
            while g.st.iter().any(|s| *s == St::Running) {
                let now = Instant::now();
                if now >= deadline {
                    out.timed_out = true;
                    break 'run;
                }
                g = CV
                    .wait_timeout(g, deadline - now)
                    .unwrap_or_else(std::sync::PoisonError::into_inner)
                    .0;
            }
            let mut en = vec![];
            let mut sites = vec![];
            for (t, s) in g.st.iter().enumerate() {
                if let St::Waiting(site) = s {
                    en.push(t);
                    sites.push(*site);
                }
            }
            (en, sites)
        };
        // every live worker is parked outside the critical sections: observe
        out.len_samples.push(cache.len());
        if enabled.is_empty() {
            break;
        }
        let Some(pick) = chooser.choose(step, &enabled) else {
            out.diverged = true;
            break;
        };
        let site = sites[enabled.iter().position(|t| *t == pick).expect("picked an enabled worker")];
        out.trace.push((pick as u8, site));
        out.enabled.push(enabled);
        step += 1;
        let mut g = lock();
        g.st[pick] = St::Running;
        CV.notify_all();
    }
    if out.timed_out || out.diverged {
        // let everybody run freely to the end
        let mut g = lock();
        g.abort = true;
        CV.notify_all();
    }
    let grace = Instant::now() + watchdog;
    for _ in 0..n {
        let left = grace.saturating_duration_since(Instant::now());
        match rx.recv_timeout(left) {
            Ok((tid, v)) => out.verdicts[tid] = Some(v),
            Err(_) => {
                out.timed_out = true;
                break;
            }
        }
    }
    {
        // stale workers (if any) must never block or touch the next run
        let mut g = lock();
        g.epoch += 1;
        g.abort = true;
        CV.notify_all();
    }
    out
}
