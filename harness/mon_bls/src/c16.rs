//! C16 — key and signature encodings round-trip with a unique encoding,
//! checked parsing rejects everything outside the prime-order subgroup,
//! derivations and key addition commute with `public_key()`, signing is
//! deterministic.
//!
//! Oracles are the algebraic relations themselves (two real runs compared)
//! plus ground truth by construction:
//!  * a point obtained as sk·G, as a signature, or as a hash-to-curve output
//!    IS in the subgroup, so checked parsing of its encoding must succeed;
//!  * a curve point decoded from a uniformly random x is NOT in the subgroup
//!    (probability < 2^-125 for G1, < 2^-500 for G2), nor is P + T for P in
//!    the subgroup and T outside; checked parsing must reject those.
//! `scalar_multiply` cannot serve as an independent membership test: it
//! reduces the scalar mod r and blst multiplies with the GLV/GLS endomorphism
//! that is only meaningful inside the subgroup. It is still used for the law
//! (r-1)·P + P = O on subgroup points; `is_valid()` of the unchecked-parsed
//! point is recorded as a second opinion.

use chia_bls::{
    hash_to_g1, hash_to_g2, sign, sign_raw, verify, DerivableKey, GTElement, PublicKey, SecretKey, Signature,
};
use chia_puzzle_types::DeriveSynthetic;
use chia_traits::Streamable;
use num_bigint::BigUint;
use num_traits::Zero;
use serde_json::json;
use std::io::Cursor;
use vcore::report::run_cases;
use vcore::{hx, Args, Report, Rng};

use crate::util::{be_fixed, field_modulus, g1_candidate, g2_candidate, group_order};

fn law(rep: &mut Report, name: &str, holds: bool, sig: &str, msg: &str, detail: impl FnOnce() -> serde_json::Value) {
    rep.eval();
    rep.count(&format!("law:{name}"));
    if !holds {
        rep.violation(sig, msg, detail());
    }
}

// ---------------------------------------------------------------------------
// secret keys

fn gen_secret_key(rng: &mut Rng, r: &BigUint) -> SecretKey {
    let edge = |v: BigUint| -> Option<SecretKey> { SecretKey::from_bytes(&be_fixed::<32>(&v)?).ok() };
    let sk = match rng.below(40) {
        0 => edge(BigUint::zero()),
        1 => edge(BigUint::from(1u8)),
        2 => edge(BigUint::from(2u8)),
        3 => edge(r - 1u8),
        4 => edge(r - 2u8),
        5 => edge(BigUint::from(rng.u64())),
        6 => edge(r - BigUint::from(rng.u32())),
        7 => {
            // master key of a longer seed
            let n = 32 + rng.usize(64);
            Some(SecretKey::from_seed(&rng.bytes(n)))
        }
        _ => None,
    };
    sk.unwrap_or_else(|| SecretKey::from_seed(&rng.bytes(32)))
}

fn gen_index(rng: &mut Rng) -> u32 {
    match rng.below(10) {
        0 => 0,
        1 => 1,
        2 => (1u32 << 31) - 1,
        3 => 1u32 << 31,
        4 => u32::MAX,
        5 => rng.below(1000) as u32,
        _ => rng.u32(),
    }
}

fn roundtrip_pk(rep: &mut Report, pk: &PublicKey, origin: &str) {
    let b = pk.to_bytes();
    let det = || json!({"origin": origin, "bytes": hx(&b)});
    match PublicKey::from_bytes(&b) {
        Ok(p2) => law(
            rep,
            "roundtrip:public-key",
            p2 == *pk && p2.to_bytes() == b,
            "bls-roundtrip:public-key",
            "from_bytes(to_bytes(pk)) differs from pk",
            det,
        ),
        Err(e) => law(
            rep,
            "roundtrip:public-key",
            false,
            "bls-roundtrip:public-key",
            &format!("checked parsing rejects the encoding of a subgroup point: {e}"),
            det,
        ),
    }
    match PublicKey::from_bytes_unchecked(&b) {
        Ok(p2) => law(
            rep,
            "unchecked-superset:public-key",
            p2 == *pk,
            "bls-unchecked-rejects-checked:public-key",
            "from_bytes_unchecked gives a different point than from_bytes",
            det,
        ),
        Err(e) => law(
            rep,
            "unchecked-superset:public-key",
            false,
            "bls-unchecked-rejects-checked:public-key",
            &format!("unchecked parsing rejects a valid encoding: {e}"),
            det,
        ),
    }
    // the Streamable route must be the same encoding
    let mut out = vec![];
    let ok = pk.stream(&mut out).is_ok()
        && out == b
        && PublicKey::parse::<false>(&mut Cursor::new(&out[..])).is_ok_and(|p| p == *pk)
        && PublicKey::parse::<true>(&mut Cursor::new(&out[..])).is_ok_and(|p| p == *pk);
    law(rep, "roundtrip-streamable:public-key", ok, "bls-roundtrip:public-key-streamable", "stream/parse differs from to_bytes/from_bytes", det);
}

fn roundtrip_sig(rep: &mut Report, s: &Signature, origin: &str) {
    let b = s.to_bytes();
    let det = || json!({"origin": origin, "bytes": hx(&b)});
    match Signature::from_bytes(&b) {
        Ok(s2) => law(
            rep,
            "roundtrip:signature",
            s2 == *s && s2.to_bytes() == b,
            "bls-roundtrip:signature",
            "from_bytes(to_bytes(sig)) differs from sig",
            det,
        ),
        Err(e) => law(
            rep,
            "roundtrip:signature",
            false,
            "bls-roundtrip:signature",
            &format!("checked parsing rejects the encoding of a subgroup point: {e}"),
            det,
        ),
    }
    match Signature::from_bytes_unchecked(&b) {
        Ok(s2) => law(
            rep,
            "unchecked-superset:signature",
            s2 == *s,
            "bls-unchecked-rejects-checked:signature",
            "from_bytes_unchecked gives a different point than from_bytes",
            det,
        ),
        Err(e) => law(
            rep,
            "unchecked-superset:signature",
            false,
            "bls-unchecked-rejects-checked:signature",
            &format!("unchecked parsing rejects a valid encoding: {e}"),
            det,
        ),
    }
    let mut out = vec![];
    let ok = s.stream(&mut out).is_ok()
        && out == b
        && Signature::parse::<false>(&mut Cursor::new(&out[..])).is_ok_and(|p| p == *s)
        && Signature::parse::<true>(&mut Cursor::new(&out[..])).is_ok_and(|p| p == *s);
    law(rep, "roundtrip-streamable:signature", ok, "bls-roundtrip:signature-streamable", "stream/parse differs from to_bytes/from_bytes", det);
}

fn roundtrip_sk(rep: &mut Report, sk: &SecretKey) {
    let b = sk.to_bytes();
    // never put secret material of real keys anywhere; these are throw-away test keys
    let det = || json!({"secret_key_bytes": hx(&b)});
    let ok = SecretKey::from_bytes(&b).is_ok_and(|s2| s2 == *sk && s2.to_bytes() == b);
    law(rep, "roundtrip:secret-key", ok, "bls-roundtrip:secret-key", "from_bytes(to_bytes(sk)) differs from sk", det);
    let mut out = vec![];
    let ok = sk.stream(&mut out).is_ok()
        && out == b
        && SecretKey::parse::<false>(&mut Cursor::new(&out[..])).is_ok_and(|s| s == *sk);
    law(rep, "roundtrip-streamable:secret-key", ok, "bls-roundtrip:secret-key-streamable", "stream/parse differs from to_bytes/from_bytes", det);
}

fn roundtrip_gt(rep: &mut Report, g: &GTElement) {
    let b = g.to_bytes();
    let g2 = GTElement::from_bytes(&b);
    let det = || json!({"bytes": hx(&b)});
    law(rep, "roundtrip:gt", g2 == *g && g2.to_bytes() == b, "bls-roundtrip:gt", "GTElement::from_bytes(to_bytes(g)) differs from g", det);
    let mut out = vec![];
    let ok = g.stream(&mut out).is_ok()
        && out == b
        && GTElement::parse::<false>(&mut Cursor::new(&out[..])).is_ok_and(|x| x == *g);
    law(rep, "roundtrip-streamable:gt", ok, "bls-roundtrip:gt-streamable", "stream/parse differs from to_bytes/from_bytes", det);
}

/// (r-1)·P + P must be the identity for every subgroup point
fn order_law_pk(rep: &mut Report, pk: &PublicKey, r_minus_1: &[u8; 32]) {
    let mut q = *pk;
    q.scalar_multiply(r_minus_1);
    q += pk;
    law(
        rep,
        "order:public-key",
        q == PublicKey::default() && q.is_inf(),
        "bls-subgroup-order:public-key",
        "(r-1)·P + P is not the identity for a public key",
        || json!({"pk": hx(&pk.to_bytes())}),
    );
}

fn order_law_sig(rep: &mut Report, s: &Signature, r_minus_1: &[u8; 32]) {
    let mut q = s.clone();
    q.scalar_multiply(r_minus_1);
    q += s;
    law(
        rep,
        "order:signature",
        q == Signature::default(),
        "bls-subgroup-order:signature",
        "(r-1)·S + S is not the identity for a signature",
        || json!({"sig": hx(&s.to_bytes())}),
    );
}

fn case_keys(rng: &mut Rng, rep: &mut Report, r: &BigUint) {
    let r_minus_1 = be_fixed::<32>(&(r - 1u8)).expect("r-1 fits");
    let sk = gen_secret_key(rng, r);
    let pk = sk.public_key();
    rep.count("keys");
    let skb = sk.to_bytes();
    let is_zero = skb.iter().all(|b| *b == 0);
    rep.count(if is_zero { "keys:zero" } else { "keys:nonzero" });
    rep.cell_digest(u64::from_le_bytes(pk.to_bytes()[8..16].try_into().unwrap()));
    let det = || json!({"secret_key_bytes": hx(&skb), "pk": hx(&pk.to_bytes())});

    roundtrip_sk(rep, &sk);
    roundtrip_pk(rep, &pk, "public_key()");
    order_law_pk(rep, &pk, &r_minus_1);
    law(
        rep,
        "zero-key-is-infinity",
        is_zero == pk.is_inf() && is_zero == (pk == PublicKey::default()),
        "bls-public-key-of-zero",
        "public_key() is the point at infinity exactly for the zero secret key",
        det,
    );
    // public_key() is sk·G
    law(
        rep,
        "public-key-is-scalar-multiple",
        PublicKey::from_integer(&skb) == pk,
        "bls-public-key-from-integer",
        "PublicKey::from_integer(sk bytes) differs from sk.public_key()",
        det,
    );

    // unhardened derivation commutes with public_key(), single index and along a path
    let idx = gen_index(rng);
    let child_sk = sk.derive_unhardened(idx);
    let child_pk = pk.derive_unhardened(idx);
    rep.cell(&format!("derive-index-class:{}", match idx {
        0 => "0".to_string(),
        1 => "1".to_string(),
        0x7fff_ffff => "2^31-1".to_string(),
        0x8000_0000 => "2^31".to_string(),
        u32::MAX => "2^32-1".to_string(),
        _ => format!("bits{}", 32 - idx.leading_zeros()),
    }));
    law(
        rep,
        "derive-unhardened",
        child_sk.public_key() == child_pk && child_sk.public_key().to_bytes() == child_pk.to_bytes(),
        "bls-derive-commute:unhardened",
        "sk.derive_unhardened(i).public_key() differs from sk.public_key().derive_unhardened(i)",
        || json!({"secret_key_bytes": hx(&skb), "index": idx}),
    );
    let plen = 1 + rng.usize(6);
    let path: Vec<u32> = (0..plen).map(|_| gen_index(rng)).collect();
    let (mut s, mut p) = (sk.clone(), pk);
    for i in &path {
        s = s.derive_unhardened(*i);
        p = p.derive_unhardened(*i);
    }
    rep.count(&format!("path_len:{plen}"));
    law(
        rep,
        "derive-unhardened-path",
        s.public_key() == p,
        "bls-derive-commute:unhardened-path",
        "deriving along a path on the secret side and on the public side gives different public keys",
        || json!({"secret_key_bytes": hx(&skb), "path": path}),
    );
    if rng.chance(1, 4) {
        let i = rng.below(50) as u32;
        let a = chia_bls::master_to_wallet_unhardened(&sk, i).public_key();
        let b = chia_bls::master_to_wallet_unhardened(&pk, i);
        let c = chia_bls::master_to_wallet_unhardened_intermediate(&pk).derive_unhardened(i);
        law(
            rep,
            "derive-wallet-path",
            a == b && b == c,
            "bls-derive-commute:wallet-path",
            "master_to_wallet_unhardened differs between secret and public route",
            || json!({"secret_key_bytes": hx(&skb), "index": i}),
        );
    }

    // synthetic keys (chia-puzzle-types) commute with public_key()
    let hidden: [u8; 32] = if rng.chance(1, 5) { [0u8; 32] } else { rng.bytes32() };
    law(
        rep,
        "derive-synthetic-hidden",
        sk.derive_synthetic_hidden(&hidden).public_key() == pk.derive_synthetic_hidden(&hidden),
        "bls-derive-commute:synthetic-hidden",
        "sk.derive_synthetic_hidden(h).public_key() differs from pk.derive_synthetic_hidden(h)",
        || json!({"secret_key_bytes": hx(&skb), "hidden_puzzle_hash": hx(&hidden)}),
    );
    law(
        rep,
        "derive-synthetic",
        sk.derive_synthetic().public_key() == pk.derive_synthetic()
            && pk.derive_synthetic() == pk.derive_synthetic_hidden(&chia_puzzle_types::standard::DEFAULT_HIDDEN_PUZZLE_HASH),
        "bls-derive-commute:synthetic",
        "sk.derive_synthetic().public_key() differs from pk.derive_synthetic()",
        det,
    );
    // also after a derivation step (the wallet's real use)
    law(
        rep,
        "derive-synthetic-of-child",
        child_sk.derive_synthetic().public_key() == child_sk.public_key().derive_synthetic(),
        "bls-derive-commute:synthetic-of-child",
        "synthetic key of a derived child differs between the secret and the public route",
        || json!({"secret_key_bytes": hx(&skb), "index": idx}),
    );

    // addition of secret keys commutes with addition of public keys
    let sk2 = match rng.below(6) {
        // the negative of sk: the sum is the zero key / the point at infinity
        0 if !is_zero => {
            let v = BigUint::from_bytes_be(&skb);
            be_fixed::<32>(&(r - v)).and_then(|b| SecretKey::from_bytes(&b).ok()).unwrap_or_else(|| gen_secret_key(rng, r))
        }
        1 => sk.clone(),
        _ => gen_secret_key(rng, r),
    };
    let pk2 = sk2.public_key();
    let sum_a = &sk + &sk2;
    let sum_b = sk.clone() + &sk2;
    let mut sum_c = sk.clone();
    sum_c += &sk2;
    let pk_a = &pk + &pk2;
    let pk_b = pk + &pk2;
    let mut pk_c = pk;
    pk_c += &pk2;
    let sk2b = sk2.to_bytes();
    law(
        rep,
        "add-commute",
        sum_a == sum_b && sum_b == sum_c && pk_a == pk_b && pk_b == pk_c && sum_a.public_key() == pk_a
            && sum_a.public_key().to_bytes() == pk_a.to_bytes(),
        "bls-add-commute",
        "(sk1 + sk2).public_key() differs from pk1 + pk2",
        || json!({"sk1": hx(&skb), "sk2": hx(&sk2b)}),
    );
    if pk_a.is_inf() {
        rep.count("add:sum-is-infinity");
    }
    // the integer model of the sum
    let want = (BigUint::from_bytes_be(&skb) + BigUint::from_bytes_be(&sk2b)) % r;
    law(
        rep,
        "add-matches-integers",
        be_fixed::<32>(&want).is_some_and(|w| w == sum_a.to_bytes()),
        "bls-add-secret-keys",
        "sk1 + sk2 is not (sk1 + sk2) mod r",
        || json!({"sk1": hx(&skb), "sk2": hx(&sk2b), "sum": hx(&sum_a.to_bytes())}),
    );
    let mut diff = pk_a;
    diff -= &pk2;
    law(
        rep,
        "add-sub-inverse",
        diff == pk && (-pk_a + &pk_a).is_inf(),
        "bls-public-key-sub",
        "(pk1 + pk2) - pk2 differs from pk1",
        || json!({"sk1": hx(&skb), "sk2": hx(&sk2b)}),
    );

    // signing is deterministic and agrees with verification
    let mlen = [0usize, 1, 32, 32, 32, 100][rng.usize(6)];
    let msg = rng.bytes(mlen);
    let s1 = sign(&sk, &msg);
    let s2 = sign(&sk, msg.as_slice());
    let mut aug = pk.to_bytes().to_vec();
    aug.extend_from_slice(&msg);
    let s3 = sign_raw(&sk, &aug);
    let sdet = || json!({"secret_key_bytes": hx(&skb), "msg": hx(&msg)});
    law(
        rep,
        "sign-deterministic",
        s1 == s2 && s1.to_bytes() == s2.to_bytes() && s1 == s3,
        "bls-sign-nondeterministic",
        "two signings of the same (sk, msg) differ",
        sdet,
    );
    rep.count("signatures");
    roundtrip_sig(rep, &s1, "sign()");
    order_law_sig(rep, &s1, &r_minus_1);
    // sign/verify agreement; the zero key has no valid signatures (its public key is infinity)
    let v = verify(&s1, &pk, &msg);
    law(
        rep,
        "sign-verify",
        v == !is_zero,
        "bls-sign-verify-disagree",
        "verify(sign(sk, m), sk.public_key(), m) is not true (or is true for the zero key)",
        sdet,
    );
    let mut other = msg.clone();
    other.push(rng.u8());
    law(
        rep,
        "sign-verify-other-message",
        !verify(&s1, &pk, &other) && (pk2 == pk || !verify(&s1, &pk2, &msg)),
        "bls-sign-verify-disagree",
        "a signature verifies for a different message or a different key",
        sdet,
    );
    if rng.chance(1, 3) {
        let g = s1.pair(&pk);
        roundtrip_gt(rep, &g);
        rep.count("gt_elements");
        // bilinearity seen through the public API: e(pk, H)·e(pk2, H) = e(pk+pk2, H)
        let h = hash_to_g2(&aug);
        let lhs = &h.pair(&pk) * &h.pair(&pk2);
        let mut lhs2 = h.pair(&pk);
        lhs2 *= &h.pair(&pk2);
        law(
            rep,
            "pairing-bilinear",
            lhs == h.pair(&pk_a) && lhs2 == lhs,
            "bls-pairing-bilinear",
            "e(pk1,H)·e(pk2,H) differs from e(pk1+pk2,H)",
            || json!({"sk1": hx(&skb), "sk2": hx(&sk2b), "aug": hx(&aug)}),
        );
    }
    if rep.want_sample() && (is_zero || idx == u32::MAX) {
        rep.sample(json!({"kind": "key-laws", "sk": hx(&skb), "pk": hx(&pk.to_bytes()), "index": idx, "path": path}));
    }
}

// ---------------------------------------------------------------------------
// byte strings

#[derive(PartialEq, Clone, Copy)]
enum Expect {
    /// encoding of a subgroup point by construction: checked parse must accept
    MustAccept,
    /// a curve point outside the subgroup by construction (if it decodes at all): checked parse must reject
    MustRejectIfOnCurve,
    /// only uniqueness and checked ⊆ unchecked are judged
    Free,
}

fn judge_g1_bytes(rep: &mut Report, b: &[u8; 48], class: &str, expect: Expect) {
    let checked = PublicKey::from_bytes(b);
    let unchecked = PublicKey::from_bytes_unchecked(b);
    rep.count("byte_strings");
    rep.count(&format!("g1:{class}:{}", if checked.is_ok() { "accepted" } else { "rejected" }));
    rep.cell(&format!("g1:{class}:flags{}:{}{}", b[0] >> 5, u8::from(checked.is_ok()), u8::from(unchecked.is_ok())));
    let det = || json!({"type": "public-key", "class": class, "bytes": hx(b)});
    if let Ok(p) = &checked {
        law(
            rep,
            "unique-encoding:public-key",
            p.to_bytes() == *b,
            "bls-noncanonical-accepted:public-key",
            "from_bytes accepts a string that is not the encoding of the point it returns",
            det,
        );
        law(
            rep,
            "unchecked-superset:public-key",
            unchecked.as_ref().is_ok_and(|u| u == p),
            "bls-unchecked-rejects-checked:public-key",
            "from_bytes_unchecked rejects (or decodes differently) a string from_bytes accepts",
            det,
        );
        let streamed = PublicKey::parse::<false>(&mut Cursor::new(&b[..]));
        law(rep, "parse-agrees:public-key", streamed.is_ok_and(|s| s == *p), "bls-roundtrip:public-key-streamable", "Streamable::parse rejects what from_bytes accepts", det);
    } else {
        let streamed = PublicKey::parse::<false>(&mut Cursor::new(&b[..]));
        law(rep, "parse-agrees:public-key", streamed.is_err(), "bls-offsubgroup-accepted:public-key-streamable", "Streamable::parse accepts what from_bytes rejects", det);
    }
    match expect {
        Expect::MustAccept => law(
            rep,
            "accepts-subgroup:public-key",
            checked.is_ok(),
            "bls-roundtrip:public-key",
            "checked parsing rejects the encoding of a subgroup point",
            det,
        ),
        Expect::MustRejectIfOnCurve => {
            if let Ok(u) = &unchecked {
                rep.count("offsubgroup_found:g1");
                rep.cell_digest(u64::from_le_bytes(b[8..16].try_into().unwrap()));
                // second opinion (same routine the parser uses): recorded, and must agree
                if u.is_valid() {
                    rep.count("offsubgroup:is_valid-says-member:g1");
                }
                law(
                    rep,
                    "rejects-offsubgroup:public-key",
                    checked.is_err(),
                    "bls-offsubgroup-accepted:public-key",
                    "checked parsing accepts a curve point outside the prime-order subgroup",
                    det,
                );
            } else {
                rep.count("not_on_curve:g1");
            }
        }
        Expect::Free => {}
    }
}

fn judge_g2_bytes(rep: &mut Report, b: &[u8; 96], class: &str, expect: Expect) {
    let checked = Signature::from_bytes(b);
    let unchecked = Signature::from_bytes_unchecked(b);
    rep.count("byte_strings");
    rep.count(&format!("g2:{class}:{}", if checked.is_ok() { "accepted" } else { "rejected" }));
    rep.cell(&format!("g2:{class}:flags{}:{}{}", b[0] >> 5, u8::from(checked.is_ok()), u8::from(unchecked.is_ok())));
    let det = || json!({"type": "signature", "class": class, "bytes": hx(b)});
    if let Ok(p) = &checked {
        law(
            rep,
            "unique-encoding:signature",
            p.to_bytes() == *b,
            "bls-noncanonical-accepted:signature",
            "from_bytes accepts a string that is not the encoding of the point it returns",
            det,
        );
        law(
            rep,
            "unchecked-superset:signature",
            unchecked.as_ref().is_ok_and(|u| u == p),
            "bls-unchecked-rejects-checked:signature",
            "from_bytes_unchecked rejects (or decodes differently) a string from_bytes accepts",
            det,
        );
        let streamed = Signature::parse::<false>(&mut Cursor::new(&b[..]));
        law(rep, "parse-agrees:signature", streamed.is_ok_and(|s| s == *p), "bls-roundtrip:signature-streamable", "Streamable::parse rejects what from_bytes accepts", det);
    } else {
        let streamed = Signature::parse::<false>(&mut Cursor::new(&b[..]));
        law(rep, "parse-agrees:signature", streamed.is_err(), "bls-offsubgroup-accepted:signature-streamable", "Streamable::parse accepts what from_bytes rejects", det);
    }
    match expect {
        Expect::MustAccept => law(
            rep,
            "accepts-subgroup:signature",
            checked.is_ok(),
            "bls-roundtrip:signature",
            "checked parsing rejects the encoding of a subgroup point",
            det,
        ),
        Expect::MustRejectIfOnCurve => {
            if let Ok(u) = &unchecked {
                rep.count("offsubgroup_found:g2");
                rep.cell_digest(u64::from_le_bytes(b[8..16].try_into().unwrap()));
                if u.is_valid() {
                    rep.count("offsubgroup:is_valid-says-member:g2");
                }
                law(
                    rep,
                    "rejects-offsubgroup:signature",
                    checked.is_err(),
                    "bls-offsubgroup-accepted:signature",
                    "checked parsing accepts a curve point outside the prime-order subgroup",
                    det,
                );
            } else {
                rep.count("not_on_curve:g2");
            }
        }
        Expect::Free => {}
    }
}

fn valid_g1(rng: &mut Rng) -> PublicKey {
    match rng.below(4) {
        0 => hash_to_g1(&rng.bytes(16)),
        1 => PublicKey::generator(),
        _ => SecretKey::from_seed(&rng.bytes(32)).public_key(),
    }
}

fn valid_g2(rng: &mut Rng) -> Signature {
    match rng.below(4) {
        0 => hash_to_g2(&rng.bytes(16)),
        1 => Signature::generator(),
        _ => sign(&SecretKey::from_seed(&rng.bytes(32)), rng.bytes(8)),
    }
}

/// add `delta` (may be negative) to the big-endian integer in `b[lo..hi]`, keeping the 3 flag
/// bits of byte `lo` if it is the first byte of the encoding
fn bump(b: &mut [u8], lo: usize, hi: usize, delta: &BigUint, subtract: bool, flag_byte: bool) -> bool {
    let flags = if flag_byte { b[lo] & 0xe0 } else { 0 };
    let mut raw = b[lo..hi].to_vec();
    if flag_byte {
        raw[0] &= 0x1f;
    }
    let v = BigUint::from_bytes_be(&raw);
    let nv = if subtract {
        if v < *delta {
            return false;
        }
        v - delta
    } else {
        v + delta
    };
    let nb = nv.to_bytes_be();
    if nb.len() > hi - lo || (flag_byte && nb.len() == hi - lo && nb[0] & 0xe0 != 0) {
        return false;
    }
    for x in &mut b[lo..hi] {
        *x = 0;
    }
    b[hi - nb.len()..hi].copy_from_slice(&nb);
    b[lo] |= flags;
    true
}

fn case_g1_bytes(rng: &mut Rng, rep: &mut Report, p: &BigUint) {
    let one = BigUint::from(1u8);
    let base = valid_g1(rng);
    let vb = base.to_bytes();
    judge_g1_bytes(rep, &vb, "valid", Expect::MustAccept);
    // all 8 settings of the three flag bits on a valid encoding
    for f in 0u8..8 {
        let mut b = vb;
        b[0] = (b[0] & 0x1f) | (f << 5);
        if b == vb {
            continue;
        }
        // flipping only the sign bit gives the encoding of -P: a subgroup point
        let exp = if f == (vb[0] >> 5) ^ 1 && (f >> 1) == 0b10 { Expect::MustAccept } else { Expect::Free };
        judge_g1_bytes(rep, &b, &format!("flags-{f:03b}"), exp);
    }
    // x + p (same residue, non-canonical), x ± 1 (another point or none)
    let mut b = vb;
    if bump(&mut b, 0, 48, p, false, true) {
        judge_g1_bytes(rep, &b, "x-plus-p", Expect::Free);
    } else {
        rep.count("g1:x-plus-p:does-not-fit");
    }
    for sub in [false, true] {
        let mut b = vb;
        if bump(&mut b, 0, 48, &one, sub, true) {
            judge_g1_bytes(rep, &b, "x-neighbour", Expect::Free);
        }
    }
    // infinity: canonical, with stray bits, with the sign flag, without the compression flag
    let mut inf = [0u8; 48];
    inf[0] = 0xc0;
    judge_g1_bytes(rep, &inf, "infinity", Expect::MustAccept);
    let mut b = inf;
    b[1 + rng.usize(47)] |= 1u8 << rng.below(8);
    judge_g1_bytes(rep, &b, "infinity-stray-bits", Expect::Free);
    let mut b = inf;
    b[0] = *rng.pick(&[0xe0u8, 0x40, 0x60, 0xc1, 0xdf]);
    judge_g1_bytes(rep, &b, "infinity-bad-flags", Expect::Free);
    // x = p exactly, x = p - 1, all ones, all zeros, small x
    for (name, v) in [("x-equals-p", p.clone()), ("x-equals-p-minus-1", p - 1u8), ("x-small", BigUint::from(rng.below(16)))] {
        if let Some(mut b) = be_fixed::<48>(&v) {
            b[0] |= 0x80 | (u8::from(rng.bool()) << 5);
            judge_g1_bytes(rep, &b, name, Expect::Free);
        }
    }
    judge_g1_bytes(rep, &[0xff; 48], "all-ones", Expect::Free);
    judge_g1_bytes(rep, &[0u8; 48], "all-zeros", Expect::Free);
    let mut raw = [0u8; 48];
    raw.copy_from_slice(&rng.bytes(48));
    judge_g1_bytes(rep, &raw, "random", Expect::Free);
    // curve points from random x: outside the subgroup by construction
    for _ in 0..6 {
        let c = g1_candidate(rng);
        judge_g1_bytes(rep, &c, "random-x", Expect::MustRejectIfOnCurve);
        if let Ok(t) = PublicKey::from_bytes_unchecked(&c) {
            if rng.chance(1, 3) {
                // subgroup point + point outside = outside
                let shifted = &base + &t;
                judge_g1_bytes(rep, &shifted.to_bytes(), "subgroup-plus-outside", Expect::MustRejectIfOnCurve);
            }
        }
    }
}

fn case_g2_bytes(rng: &mut Rng, rep: &mut Report, p: &BigUint) {
    let one = BigUint::from(1u8);
    let base = valid_g2(rng);
    let vb = base.to_bytes();
    judge_g2_bytes(rep, &vb, "valid", Expect::MustAccept);
    for f in 0u8..8 {
        let mut b = vb;
        b[0] = (b[0] & 0x1f) | (f << 5);
        if b == vb {
            continue;
        }
        let exp = if f == (vb[0] >> 5) ^ 1 && (f >> 1) == 0b10 { Expect::MustAccept } else { Expect::Free };
        judge_g2_bytes(rep, &b, &format!("flags-{f:03b}"), exp);
    }
    // x = c1 ‖ c0: push either coordinate out of range, or to a neighbour
    let mut b = vb;
    if bump(&mut b, 0, 48, p, false, true) {
        judge_g2_bytes(rep, &b, "c1-plus-p", Expect::Free);
    } else {
        rep.count("g2:c1-plus-p:does-not-fit");
    }
    let mut b = vb;
    if bump(&mut b, 48, 96, p, false, false) {
        judge_g2_bytes(rep, &b, "c0-plus-p", Expect::Free);
    }
    for (lo, hi, flag) in [(0usize, 48usize, true), (48, 96, false)] {
        let mut b = vb;
        if bump(&mut b, lo, hi, &one, rng.bool(), flag) {
            judge_g2_bytes(rep, &b, "x-neighbour", Expect::Free);
        }
    }
    let mut inf = [0u8; 96];
    inf[0] = 0xc0;
    judge_g2_bytes(rep, &inf, "infinity", Expect::MustAccept);
    let mut b = inf;
    b[1 + rng.usize(95)] |= 1u8 << rng.below(8);
    judge_g2_bytes(rep, &b, "infinity-stray-bits", Expect::Free);
    let mut b = inf;
    b[0] = *rng.pick(&[0xe0u8, 0x40, 0x60, 0xc1, 0xdf]);
    judge_g2_bytes(rep, &b, "infinity-bad-flags", Expect::Free);
    if let Some(pb) = be_fixed::<48>(p) {
        let mut b = vb;
        b[48..].copy_from_slice(&pb);
        judge_g2_bytes(rep, &b, "c0-equals-p", Expect::Free);
        let mut b = vb;
        b[..48].copy_from_slice(&pb);
        b[0] |= 0x80;
        judge_g2_bytes(rep, &b, "c1-equals-p", Expect::Free);
    }
    judge_g2_bytes(rep, &[0xff; 96], "all-ones", Expect::Free);
    judge_g2_bytes(rep, &[0u8; 96], "all-zeros", Expect::Free);
    let mut raw = [0u8; 96];
    raw.copy_from_slice(&rng.bytes(96));
    judge_g2_bytes(rep, &raw, "random", Expect::Free);
    for _ in 0..6 {
        let c = g2_candidate(rng);
        judge_g2_bytes(rep, &c, "random-x", Expect::MustRejectIfOnCurve);
        if let Ok(t) = Signature::from_bytes_unchecked(&c) {
            if rng.chance(1, 3) {
                let shifted = &base + &t;
                judge_g2_bytes(rep, &shifted.to_bytes(), "subgroup-plus-outside", Expect::MustRejectIfOnCurve);
            }
        }
    }
}

fn case_sk_bytes(rng: &mut Rng, rep: &mut Report, r: &BigUint) {
    let two256 = BigUint::from(1u8) << 256;
    for _ in 0..8 {
        let (class, v) = match rng.below(10) {
            0 => ("zero", BigUint::zero()),
            1 => ("one", BigUint::from(1u8)),
            2 => ("r-minus-1", r - 1u8),
            3 => ("r", r.clone()),
            4 => ("r-plus-small", r + BigUint::from(rng.below(1000))),
            5 => ("r-minus-small", r - BigUint::from(1 + rng.below(1000))),
            6 => ("max", &two256 - 1u8),
            7 => ("multiple-of-r", r * BigUint::from(2u8)),
            _ => ("random", BigUint::from_bytes_be(&rng.bytes(32))),
        };
        let Some(b) = be_fixed::<32>(&v) else { continue };
        let parsed = SecretKey::from_bytes(&b);
        rep.count("byte_strings");
        rep.count(&format!("sk:{class}:{}", if parsed.is_ok() { "accepted" } else { "rejected" }));
        rep.cell(&format!("sk:{class}:{}", u8::from(parsed.is_ok())));
        let det = || json!({"type": "secret-key", "class": class, "bytes": hx(&b)});
        let in_range = v < *r;
        match &parsed {
            Ok(sk) => {
                law(rep, "unique-encoding:secret-key", sk.to_bytes() == b, "bls-noncanonical-accepted:secret-key", "from_bytes accepts bytes that are not the encoding of the key it returns", det);
                // a value >= r is a second spelling of (value mod r)
                law(rep, "range:secret-key", in_range, "bls-noncanonical-accepted:secret-key", "from_bytes accepts a scalar that is not below the group order", det);
            }
            Err(_) => {
                // every scalar 1..r-1 is a secret key and must parse; zero is observed only
                law(rep, "range:secret-key", !in_range || v.is_zero(), "bls-roundtrip:secret-key", "from_bytes rejects a scalar below the group order", det);
            }
        }
        let streamed = SecretKey::parse::<false>(&mut Cursor::new(&b[..]));
        law(rep, "parse-agrees:secret-key", streamed.is_ok() == parsed.is_ok(), "bls-roundtrip:secret-key-streamable", "Streamable::parse and from_bytes disagree", det);
    }
    // raw pairing-element bytes survive unchanged (the encoding is the in-memory representation)
    let mut raw = [0u8; 576];
    raw.copy_from_slice(&rng.bytes(576));
    let g = GTElement::from_bytes(&raw);
    law(rep, "roundtrip:gt-raw", g.to_bytes() == raw, "bls-roundtrip:gt", "GTElement::to_bytes(from_bytes(b)) differs from b", || json!({"bytes": hx(&raw)}));
    rep.count("byte_strings");
}

pub fn run(args: &Args, rep: &mut Report) {
    let r = group_order();
    let p = field_modulus();
    let n = args.cases(48_000, 640_000);
    run_cases(args, "c16", n, rep, |_, rng, rep| match rng.below(10) {
        0..=5 => case_keys(rng, rep, &r),
        6 | 7 => case_g1_bytes(rng, rep, &p),
        8 => case_g2_bytes(rng, rep, &p),
        _ => case_sk_bytes(rng, rep, &r),
    });
}
