//! mon_bls — runtime monitors for the BLS layer of chia_rs.
//!
//! --prop C15: every verification route (verify, aggregate_verify,
//!   BlsCache::aggregate_verify, aggregate_verify_gt, aggregate_pairing)
//!   returns the verdict that holds *by construction* (the harness owns the
//!   secret keys, builds the true aggregate and applies a known tampering),
//!   through cache histories and through forced thread interleavings
//!   (the `verif-hooks` gate in front of every `cache.lock()`).
//! --prop C16: encodings round-trip with a unique encoding, checked parsing
//!   rejects points outside the prime-order subgroup, derivations / key
//!   addition commute with `public_key()`, signing is deterministic.
//!
//! Lanes: native (everything), asan/valgrind/checked (sequential workload),
//! tsan (free-running stress, no gate), miri (cache bookkeeping only: no FFI).

mod c15;
mod c16;
mod sched;
mod util;

use vcore::{Args, Report};

fn main() {
    let args = Args::parse();
    let mut rep = Report::new(&args.prop, &args.lane);
    match args.prop.as_str() {
        "C15" => c15::run(&args, &mut rep),
        "C16" => c16::run(&args, &mut rep),
        other => rep.harness_error(&format!("mon_bls does not serve property {other}")),
    }
    rep.finish(&args);
}
