//! C15 — all signature verification paths agree, with or without the cache.
//!
//! Ground truth is *by construction*: the harness owns the secret keys, so it
//! knows which (key, message) multiset was really signed and which list is
//! presented to the verifier. The verdict must be
//!     valid  <=>  signature == aggregate of signatures for the presented
//!                 list  AND  no presented key is the point at infinity.
//! "signature == aggregate" is decided twice and independently: on the model
//! level (multiset of signed pairs vs presented pairs, plus the known
//! negation / replacement) and on the byte level (canonical encodings of the
//! tampered and of the true aggregate); a disagreement between the two is a
//! harness error, never a violation.

use std::collections::{HashMap, HashSet};
use std::num::NonZeroUsize;
use std::sync::Arc;
use std::time::Duration;

use chia_bls::{
    aggregate, aggregate_pairing, aggregate_verify, aggregate_verify_gt, hash_to_g2, sign, verify, BlsCache,
    GTElement, PublicKey, SecretKey, Signature,
};
use serde_json::{json, Value};
use vcore::report::run_cases;
use vcore::{hx, Args, Report, Rng};

use crate::sched::{self, Chooser, Job};
use crate::util::{fnv64, sample_curve_point_g2};

pub const CAPS: [usize; 5] = [1, 2, 3, 5, 50];
const SCHED_WATCHDOG: Duration = Duration::from_secs(120);

#[derive(Clone, Copy, PartialEq, Eq, Debug)]
pub enum Tamper {
    None,
    WrongMessage,
    WrongKey,
    MissingSig,
    ExtraSig,
    Negated,
    IdentitySig,
    OffSubgroup,
    SwappedMessages,
    DuplicatedPair,
}

impl Tamper {
    fn name(self) -> &'static str {
        match self {
            Tamper::None => "none",
            Tamper::WrongMessage => "wrong-message",
            Tamper::WrongKey => "wrong-key",
            Tamper::MissingSig => "missing-sig",
            Tamper::ExtraSig => "extra-sig",
            Tamper::Negated => "negated",
            Tamper::IdentitySig => "identity-sig",
            Tamper::OffSubgroup => "off-subgroup-sig",
            Tamper::SwappedMessages => "swapped-messages",
            Tamper::DuplicatedPair => "duplicated-pair",
        }
    }
}

/// key reference: Some(index into the pool) or None = the point at infinity
type Key = Option<usize>;

struct Universe {
    sks: Vec<SecretKey>,
    pks: Vec<PublicKey>,
    inf_pk: PublicKey,
    msgs: Vec<Vec<u8>>,
    sigs: HashMap<(usize, usize), Signature>,
    gts: HashMap<(Key, usize), GTElement>,
}

impl Universe {
    fn generate(rng: &mut Rng, nkeys: usize, nmsgs: usize) -> Universe {
        let mut sks: Vec<SecretKey> = vec![];
        while sks.len() < nkeys {
            let sk = SecretKey::from_seed(&rng.bytes(32));
            if sks.iter().all(|s| s.to_bytes() != sk.to_bytes()) {
                sks.push(sk);
            }
        }
        let pks = sks.iter().map(SecretKey::public_key).collect();
        let mut msgs: Vec<Vec<u8>> = vec![];
        while msgs.len() < nmsgs {
            let m = match rng.below(8) {
                0 => vec![],
                1 => vec![rng.u8()],
                2 => rng.bytes(100),
                3 if !msgs.is_empty() => {
                    // an extension of an existing message
                    let mut m = msgs[rng.usize(msgs.len())].clone();
                    m.push(rng.u8());
                    m
                }
                4 => {
                    let n = rng.usize(48);
                    rng.bytes(n)
                }
                _ => rng.bytes(32),
            };
            if !msgs.contains(&m) {
                msgs.push(m);
            }
        }
        // the infinity key, obtained either way
        let inf_pk = if rng.bool() {
            PublicKey::default()
        } else {
            SecretKey::from_bytes(&[0u8; 32]).map(|s| s.public_key()).unwrap_or_default()
        };
        Universe { sks, pks, inf_pk, msgs, sigs: HashMap::new(), gts: HashMap::new() }
    }

    fn pk(&self, k: Key) -> PublicKey {
        match k {
            Some(i) => self.pks[i],
            None => self.inf_pk,
        }
    }

    fn sig(&mut self, k: usize, m: usize) -> Signature {
        if let Some(s) = self.sigs.get(&(k, m)) {
            return s.clone();
        }
        let s = sign(&self.sks[k], &self.msgs[m]);
        self.sigs.insert((k, m), s.clone());
        s
    }

    fn aug(&self, k: Key, m: usize) -> Vec<u8> {
        let mut a = self.pk(k).to_bytes().to_vec();
        a.extend_from_slice(&self.msgs[m]);
        a
    }

    /// the honestly computed pairing for (key, message)
    fn gt(&mut self, k: Key, m: usize) -> GTElement {
        if let Some(g) = self.gts.get(&(k, m)) {
            return g.clone();
        }
        let g = hash_to_g2(&self.aug(k, m)).pair(&self.pk(k));
        self.gts.insert((k, m), g.clone());
        g
    }

    /// index of a message different from `m` (possibly a fresh mutation of it)
    fn other_message(&mut self, rng: &mut Rng, m: usize) -> usize {
        if self.msgs.len() >= 2 && rng.bool() {
            let mut j = rng.usize(self.msgs.len() - 1);
            if j >= m {
                j += 1;
            }
            return j;
        }
        let mut v = self.msgs[m].clone();
        match rng.below(3) {
            0 if !v.is_empty() => {
                let i = rng.usize(v.len());
                v[i] ^= 1u8 << rng.below(8);
            }
            1 if !v.is_empty() => {
                v.pop();
            }
            _ => v.push(rng.u8()),
        }
        match self.msgs.iter().position(|x| *x == v) {
            Some(j) => j,
            None => {
                self.msgs.push(v);
                self.msgs.len() - 1
            }
        }
    }
}

struct Request {
    presented: Vec<(Key, usize)>,
    sig: Signature,
    tamper: Tamper,
    has_inf: bool,
    /// the signature equals the aggregate for the presented non-infinity pairs
    sig_is_true_aggregate: bool,
    expected: bool,
}

struct ReqShape {
    n: usize,
    /// probability (out of 100) that the list contains the infinity key
    inf_pct: u64,
    /// infinity keys replace entries instead of being inserted (keeps the length)
    inf_replace_only: bool,
    allow_dup: bool,
    /// probability (out of 100) of an untampered signature
    honest_pct: u64,
}

fn aggregate_sigs(rng: &mut Rng, sigs: &[Signature]) -> Signature {
    match rng.below(3) {
        0 => aggregate(sigs.iter()),
        1 => {
            let mut a = Signature::default();
            for s in sigs {
                a += s;
            }
            a
        }
        _ => {
            let mut a = Signature::default();
            for s in sigs {
                a.aggregate(s);
            }
            a
        }
    }
}

fn gen_request(rng: &mut Rng, uni: &mut Universe, shape: &ReqShape) -> Result<Request, String> {
    let nk = uni.sks.len();
    let nm0 = uni.msgs.len();
    let mut presented: Vec<(Key, usize)> =
        (0..shape.n).map(|_| (Some(rng.usize(nk)), rng.usize(nm0))).collect();
    if rng.below(100) < shape.inf_pct {
        for _ in 0..(1 + rng.usize(2)) {
            let m = rng.usize(nm0);
            if !presented.is_empty() && (shape.inf_replace_only || rng.bool()) {
                let pos = rng.usize(presented.len());
                presented[pos] = (None, m);
            } else if !shape.inf_replace_only {
                let pos = rng.usize(presented.len() + 1);
                presented.insert(pos, (None, m));
            }
        }
    }
    let mut signed: Vec<(usize, usize)> = presented.iter().filter_map(|(k, m)| k.map(|k| (k, *m))).collect();

    let mut applicable = vec![Tamper::ExtraSig, Tamper::Negated, Tamper::IdentitySig, Tamper::OffSubgroup];
    if !signed.is_empty() {
        applicable.push(Tamper::WrongMessage);
        applicable.push(Tamper::MissingSig);
        if nk >= 2 {
            applicable.push(Tamper::WrongKey);
        }
    }
    if signed.len() >= 2 {
        applicable.push(Tamper::SwappedMessages);
    }
    if shape.allow_dup && !presented.is_empty() {
        applicable.push(Tamper::DuplicatedPair);
    }
    let tamper = if rng.below(100) < shape.honest_pct { Tamper::None } else { *rng.pick(&applicable) };

    match tamper {
        Tamper::WrongMessage => {
            let i = rng.usize(signed.len());
            signed[i].1 = uni.other_message(rng, signed[i].1);
        }
        Tamper::WrongKey => {
            let i = rng.usize(signed.len());
            let mut k = rng.usize(nk - 1);
            if k >= signed[i].0 {
                k += 1;
            }
            signed[i].0 = k;
        }
        Tamper::MissingSig => {
            let i = rng.usize(signed.len());
            signed.remove(i);
        }
        Tamper::ExtraSig => signed.push((rng.usize(nk), rng.usize(uni.msgs.len()))),
        Tamper::SwappedMessages => {
            let a = rng.usize(signed.len());
            let mut b = rng.usize(signed.len() - 1);
            if b >= a {
                b += 1;
            }
            let (ma, mb) = (signed[a].1, signed[b].1);
            signed[a].1 = mb;
            signed[b].1 = ma;
        }
        Tamper::DuplicatedPair => {
            let e = presented[rng.usize(presented.len())];
            let pos = rng.usize(presented.len() + 1);
            presented.insert(pos, e);
        }
        _ => {}
    }

    let parts: Vec<Signature> = signed.iter().map(|(k, m)| uni.sig(*k, *m)).collect();
    let mut sig = aggregate_sigs(rng, &parts);
    match tamper {
        Tamper::Negated => {
            sig = if rng.bool() { -sig } else { -&sig };
        }
        Tamper::IdentitySig => sig = Signature::default(),
        Tamper::OffSubgroup => {
            let mut tries = 0;
            let Some((_, t)) = sample_curve_point_g2(rng, &mut tries) else {
                return Err("no curve point found by rejection sampling".into());
            };
            // either a random point off the subgroup or the true aggregate shifted by one
            sig = if rng.bool() { t } else { &sig + &t };
        }
        _ => {}
    }

    let mut want: Vec<(usize, usize)> = presented.iter().filter_map(|(k, m)| k.map(|k| (k, *m))).collect();
    let true_parts: Vec<Signature> = want.iter().map(|(k, m)| uni.sig(*k, *m)).collect();
    let true_agg = aggregate(true_parts.iter());
    let model_equal = match tamper {
        Tamper::Negated | Tamper::IdentitySig => want.is_empty(),
        Tamper::OffSubgroup => false,
        _ => {
            let mut a = signed.clone();
            a.sort_unstable();
            want.sort_unstable();
            a == want
        }
    };
    let bytes_equal = sig.to_bytes() == true_agg.to_bytes();
    if model_equal != bytes_equal {
        return Err(format!(
            "ground truth undecided: model says equal={model_equal}, encodings say equal={bytes_equal} (tamper {})",
            tamper.name()
        ));
    }
    let has_inf = presented.iter().any(|(k, _)| k.is_none());
    Ok(Request {
        presented,
        sig,
        tamper,
        has_inf,
        sig_is_true_aggregate: model_equal,
        expected: model_equal && !has_inf,
    })
}

fn materialise(uni: &Universe, req: &Request) -> Vec<(PublicKey, Vec<u8>)> {
    req.presented.iter().map(|(k, m)| (uni.pk(*k), uni.msgs[*m].clone())).collect()
}

fn describe(pairs: &[(PublicKey, Vec<u8>)], req: &Request) -> Value {
    json!({
        "pairs": pairs.iter().map(|(p, m)| json!({"pk": hx(&p.to_bytes()), "msg": hx(m)})).collect::<Vec<_>>(),
        "sig": hx(&req.sig.to_bytes()),
        "tamper": req.tamper.name(),
        "has_infinity_key": req.has_inf,
        "sig_is_aggregate_of_non_infinity_pairs": req.sig_is_true_aggregate,
        "expected_valid": req.expected,
    })
}

/// Compare one verifier's verdict with the ground truth.
fn judge(rep: &mut Report, verifier: &str, got: bool, req: &Request, detail: &dyn Fn() -> Value) {
    rep.eval();
    let t = req.tamper.name();
    rep.count(&format!("{}:{t}", if got { "accepted" } else { "rejected" }));
    rep.count(&format!("verifier:{verifier}"));
    rep.cell(&format!(
        "n{}:inf{}:{t}:{verifier}:{}",
        req.presented.len(),
        u8::from(req.has_inf),
        u8::from(got)
    ));
    if got == req.expected {
        return;
    }
    let is_cache = verifier.starts_with("cache");
    let sig = if is_cache && got && req.has_inf && req.sig_is_true_aggregate {
        // the cache path treats the infinity key as a neutral element instead of rejecting it
        "bls-cache-accepts-infinity-key".to_string()
    } else {
        format!("bls-verdict-mismatch:{verifier}:{t}")
    };
    let mut d = detail();
    if let Some(o) = d.as_object_mut() {
        o.insert("verifier".into(), json!(verifier));
        o.insert("got_valid".into(), json!(got));
    }
    rep.violation(
        &sig,
        &format!(
            "{verifier} says {} but by construction the signature is {} for this list (tamper: {t}, infinity key in list: {})",
            if got { "valid" } else { "invalid" },
            if req.expected { "valid" } else { "invalid" },
            req.has_inf
        ),
        d,
    );
}

fn check_len(rep: &mut Report, cache: &BlsCache, cap: usize, ctx: &dyn Fn() -> Value) {
    let l = cache.len();
    rep.count("len_samples");
    rep.max("len", l as u64);
    if l == cap {
        rep.count("len_samples_at_capacity");
    }
    if l > cap {
        rep.violation(
            "bls-cache-len-exceeds-capacity",
            &format!("BlsCache::len() = {l} with capacity {cap}"),
            ctx(),
        );
    }
}

fn cap_nz(c: usize) -> NonZeroUsize {
    NonZeroUsize::new(c).expect("capacity > 0")
}

fn account_sites(rep: &mut Report) {
    let s = sched::take_seq_sites();
    let (lookups, puts) = (s[1], s[2]);
    rep.add("cache:lookups", lookups);
    rep.add("cache:misses", puts);
    rep.add("cache:hits", lookups.saturating_sub(puts));
}

fn pick_n(rng: &mut Rng) -> usize {
    [0, 1, 1, 1, 2, 2, 2, 3, 3, 4, 5, 6][rng.usize(12)]
}

/// one (pairs, signature) case through every verifier
fn case_verdict(rng: &mut Rng, rep: &mut Report) {
    let (nk, nm) = (1 + rng.usize(4), 1 + rng.usize(4));
    let mut uni = Universe::generate(rng, nk, nm);
    let shape = ReqShape { n: pick_n(rng), inf_pct: 25, inf_replace_only: false, allow_dup: true, honest_pct: 35 };
    let req = match gen_request(rng, &mut uni, &shape) {
        Ok(r) => r,
        Err(e) => {
            rep.harness_error(&e);
            return;
        }
    };
    let pairs = materialise(&uni, &req);
    let refs = || pairs.iter().map(|(p, m)| (p, m.as_slice()));
    let det = || describe(&pairs, &req);
    rep.count("verdict_cases");
    rep.count(if req.expected { "truth:valid" } else { "truth:invalid" });
    if req.tamper != Tamper::None {
        rep.count(if req.sig_is_true_aggregate { "tamper_ineffective" } else { "tamper_effective" });
    }
    sched::take_seq_sites();

    if pairs.len() == 1 {
        judge(rep, "verify", verify(&req.sig, &pairs[0].0, &pairs[0].1), &req, &det);
    }
    judge(rep, "aggregate_verify", aggregate_verify(&req.sig, refs()), &req, &det);

    let cap = *rng.pick(&CAPS);
    let capdet = || {
        let mut d = det();
        d["capacity"] = json!(cap);
        d
    };
    let cache = BlsCache::new(cap_nz(cap));
    judge(rep, "cache-fresh", cache.aggregate_verify(refs(), &req.sig), &req, &capdet);
    check_len(rep, &cache, cap, &capdet);
    judge(rep, "cache-warm", cache.aggregate_verify(refs(), &req.sig), &req, &capdet);
    check_len(rep, &cache, cap, &capdet);

    // prior contents: honest pairings of some presented pairs and of unrelated pairs
    let cap2 = *rng.pick(&CAPS);
    let pre = BlsCache::new(cap_nz(cap2));
    for _ in 0..rng.usize(5) {
        let (k, m) = if !req.presented.is_empty() && rng.bool() {
            req.presented[rng.usize(req.presented.len())]
        } else {
            (Some(rng.usize(uni.sks.len())), rng.usize(uni.msgs.len()))
        };
        let g = uni.gt(k, m);
        pre.update(&uni.aug(k, m), g);
        rep.count("honest_updates");
    }
    let predet = || {
        let mut d = det();
        d["capacity"] = json!(cap2);
        d["prefilled"] = json!(true);
        d
    };
    check_len(rep, &pre, cap2, &predet);
    judge(rep, "cache-prefilled", pre.aggregate_verify(refs(), &req.sig), &req, &predet);
    check_len(rep, &pre, cap2, &predet);
    account_sites(rep);

    // verification from honestly computed pairings; the statement covers it only without infinity keys
    let gts: Vec<GTElement> = req.presented.iter().map(|(k, m)| uni.gt(*k, *m)).collect();
    let gt_verdict = aggregate_verify_gt(&req.sig, gts.iter());
    let mut pdata: Vec<(PublicKey, Signature)> =
        pairs.iter().zip(&req.presented).map(|((pk, _), (k, m))| (*pk, hash_to_g2(&uni.aug(*k, *m)))).collect();
    if rng.bool() {
        pdata.push((PublicKey::generator(), -&req.sig));
    } else {
        pdata.push((-PublicKey::generator(), req.sig.clone()));
    }
    if rng.bool() {
        let last = pdata.len() - 1;
        let j = rng.usize(pdata.len());
        pdata.swap(j, last);
    }
    let pairing_verdict = aggregate_pairing(pdata);
    if req.has_inf {
        rep.count(if gt_verdict { "observed:gt-with-infinity-key:accepted" } else { "observed:gt-with-infinity-key:rejected" });
        rep.count(if pairing_verdict {
            "observed:pairing-with-infinity-key:accepted"
        } else {
            "observed:pairing-with-infinity-key:rejected"
        });
    } else {
        judge(rep, "aggregate_verify_gt", gt_verdict, &req, &det);
        judge(rep, "aggregate_pairing", pairing_verdict, &req, &det);
    }
    if rep.want_sample() && (req.has_inf || req.tamper == Tamper::OffSubgroup) {
        rep.sample(json!({"kind": "verdict-case", "case": det()}));
    }
}

/// a long-lived cache driven through a random history; every verification is
/// compared with the ground truth and with a fresh cache
fn case_history(rng: &mut Rng, rep: &mut Report) {
    let (nk, nm) = (1 + rng.usize(3), 1 + rng.usize(3));
    let mut uni = Universe::generate(rng, nk, nm);
    let cap = *rng.pick(&CAPS);
    let mut cache = BlsCache::new(cap_nz(cap));
    let steps = 8 + rng.usize(28);
    let mut log: Vec<String> = vec![];
    let mut earlier: Vec<(Request, Vec<(PublicKey, Vec<u8>)>)> = vec![];
    sched::take_seq_sites();
    rep.count("cache_histories");
    rep.cell(&format!("history:cap{cap}:keys{nk}:msgs{nm}"));
    for step in 0..steps {
        let op = rng.weighted(&[50, 12, 15, 8, 15]);
        match op {
            0 | 4 => {
                // verify a new request, or re-verify an earlier one (cache hits)
                let (req, pairs) = if op == 4 && !earlier.is_empty() {
                    let i = rng.usize(earlier.len());
                    earlier.swap_remove(i)
                } else {
                    let n = [0, 1, 1, 2, 2, 3, 4][rng.usize(7)];
                    let shape =
                        ReqShape { n, inf_pct: 15, inf_replace_only: false, allow_dup: true, honest_pct: 55 };
                    match gen_request(rng, &mut uni, &shape) {
                        Ok(r) => {
                            let p = materialise(&uni, &r);
                            (r, p)
                        }
                        Err(e) => {
                            rep.harness_error(&e);
                            continue;
                        }
                    }
                };
                log.push(format!("verify[{}p,{}]", pairs.len(), req.tamper.name()));
                let refs = || pairs.iter().map(|(p, m)| (p, m.as_slice()));
                let det = || {
                    let mut d = describe(&pairs, &req);
                    d["capacity"] = json!(cap);
                    d["step"] = json!(step);
                    d["history"] = json!(log.join(" "));
                    d
                };
                let len_before = cache.len();
                sched::take_seq_sites();
                let v_long = cache.aggregate_verify(refs(), &req.sig);
                let s = sched::take_seq_sites();
                rep.add("cache:lookups", s[1]);
                rep.add("cache:misses", s[2]);
                rep.add("cache:hits", s[1].saturating_sub(s[2]));
                if s[2] > 0 && len_before == cap {
                    rep.count("cache:puts_into_full_cache");
                }
                if s[1] > 0 && s[2] == 0 {
                    rep.count("cache:verifications_served_from_cache");
                }
                let fresh_cap = *rng.pick(&CAPS);
                let v_fresh = BlsCache::new(cap_nz(fresh_cap)).aggregate_verify(refs(), &req.sig);
                judge(rep, "cache-history", v_long, &req, &det);
                judge(rep, "cache-fresh", v_fresh, &req, &det);
                if rng.chance(1, 4) {
                    judge(rep, "aggregate_verify", aggregate_verify(&req.sig, refs()), &req, &det);
                }
                rep.count("history:verify");
                if v_long != v_fresh {
                    let mut d = det();
                    d["long_lived_cache_says_valid"] = json!(v_long);
                    d["fresh_cache_says_valid"] = json!(v_fresh);
                    rep.violation(
                        "bls-cache-verdict-depends-on-history",
                        &format!(
                            "the long-lived cache (capacity {cap}) says {v_long}, a fresh cache (capacity {fresh_cap}) says {v_fresh} for the same pairs and signature"
                        ),
                        d,
                    );
                }
                if earlier.len() < 6 {
                    earlier.push((req, pairs));
                }
            }
            1 => {
                // honest update only: a poisoned update is outside the property
                let k = if rng.chance(1, 10) { None } else { Some(rng.usize(uni.sks.len())) };
                let m = rng.usize(uni.msgs.len());
                let g = uni.gt(k, m);
                cache.update(&uni.aug(k, m), g);
                log.push("update".into());
                rep.count("history:update");
                rep.count("honest_updates");
            }
            2 => {
                let cnt = rng.usize(4);
                let ev: Vec<(PublicKey, Vec<u8>)> = (0..cnt)
                    .map(|_| {
                        let k = if rng.chance(1, 10) { None } else { Some(rng.usize(uni.sks.len())) };
                        (uni.pk(k), uni.msgs[rng.usize(uni.msgs.len())].clone())
                    })
                    .collect();
                let before = cache.len();
                cache.evict(ev.iter().map(|(p, m)| (p, m.as_slice())));
                let after = cache.len();
                if after < before {
                    rep.add("history:entries_evicted", (before - after) as u64);
                }
                log.push(format!("evict[{cnt}]"));
                rep.count("history:evict");
            }
            _ => {
                let c2 = cache.clone();
                if rng.bool() {
                    cache = c2;
                } else {
                    drop(c2);
                }
                log.push("clone".into());
                rep.count("history:clone");
            }
        }
        let ctx = || json!({"capacity": cap, "step": step, "history": log.join(" ")});
        check_len(rep, &cache, cap, &ctx);
    }
    sched::take_seq_sites();
}

// ---------------------------------------------------------------------------
// schedules

struct SchedConfig {
    cap: usize,
    jobs: Vec<Job>,
    reqs: Vec<Request>,
    /// honest (aug_msg, pairing) entries put into the cache before the threads start
    prefill: Vec<(Vec<u8>, GTElement)>,
    /// canonical description of who verifies what (pair ids by first appearance)
    shape: Vec<u8>,
}

impl SchedConfig {
    fn make_cache(&self) -> Arc<BlsCache> {
        let c = BlsCache::new(cap_nz(self.cap));
        for (aug, gt) in &self.prefill {
            c.update(aug, gt.clone());
        }
        Arc::new(c)
    }

    fn describe(&self) -> Value {
        json!({
            "capacity": self.cap,
            "prefilled_entries": self.prefill.len(),
            "threads": self.jobs.iter().zip(&self.reqs).map(|(j, r)| describe(&j.pairs, r)).collect::<Vec<_>>(),
        })
    }
}

fn gen_sched_config(rng: &mut Rng, rep: &mut Report, tiny: bool) -> Option<SchedConfig> {
    // a small universe so that the threads' lists overlap
    let (nk, nm) = if tiny { (1 + rng.usize(2), 1 + rng.usize(2)) } else { (1 + rng.usize(2), 2 + rng.usize(2)) };
    let mut uni = Universe::generate(rng, nk, nm);
    let nthreads = if tiny { 2 } else { 2 + rng.usize(3) };
    let cap = 1 + rng.usize(3);
    let mut jobs = vec![];
    let mut reqs = vec![];
    let mut ids: Vec<(Key, usize)> = vec![];
    let mut shape: Vec<u8> = vec![nthreads as u8, cap as u8];
    let id_of = |ids: &mut Vec<(Key, usize)>, e: (Key, usize)| -> u8 {
        match ids.iter().position(|x| *x == e) {
            Some(i) => i as u8,
            None => {
                ids.push(e);
                (ids.len() - 1) as u8
            }
        }
    };
    for _ in 0..nthreads {
        let shape_req = ReqShape {
            n: if tiny { 2 } else { 1 + rng.usize(4) },
            inf_pct: 10,
            inf_replace_only: true,
            allow_dup: !tiny,
            honest_pct: 60,
        };
        let req = match gen_request(rng, &mut uni, &shape_req) {
            Ok(r) => r,
            Err(e) => {
                rep.harness_error(&e);
                return None;
            }
        };
        shape.push(0xff);
        // an invalid signature encoding short-circuits before any gate point: part of the shape
        shape.push(u8::from(req.tamper == Tamper::OffSubgroup));
        for e in &req.presented {
            let id = id_of(&mut ids, *e);
            shape.push(id);
        }
        jobs.push(Job { pairs: materialise(&uni, &req), sig: req.sig.clone() });
        reqs.push(req);
    }
    let mut prefill = vec![];
    if rng.bool() {
        for _ in 0..(1 + rng.usize(cap)) {
            let e = if !ids.is_empty() && rng.chance(2, 3) {
                ids[rng.usize(ids.len())]
            } else {
                (Some(rng.usize(nk)), rng.usize(uni.msgs.len()))
            };
            let g = uni.gt(e.0, e.1);
            prefill.push((uni.aug(e.0, e.1), g));
            shape.push(0xfe);
            let id = id_of(&mut ids, e);
            shape.push(id);
        }
    }
    Some(SchedConfig { cap, jobs, reqs, prefill, shape })
}

#[derive(Default)]
struct SchedStats {
    distinct: HashSet<u64>,
}

/// judge one scheduled run; returns false if the run was inconclusive
fn judge_run(
    rep: &mut Report,
    stats: &mut SchedStats,
    cfg: &SchedConfig,
    out: &sched::RunOutcome,
    strategy: &str,
) -> bool {
    rep.count("sched:runs");
    rep.count(&format!("sched:runs:{strategy}"));
    let sched_json = || {
        json!({
            "strategy": strategy,
            "schedule": out.choices(),
            "trace": out.trace.iter().map(|(t, s)| format!("{t}:{}", site_name(*s))).collect::<Vec<_>>().join(" "),
            "len_samples": out.len_samples,
            "config": cfg.describe(),
        })
    };
    if out.timed_out || out.diverged {
        rep.count("sched:inconclusive_runs");
        rep.harness_error(&format!(
            "scheduled run inconclusive (timed_out={}, diverged={}) after {} steps",
            out.timed_out,
            out.diverged,
            out.trace.len()
        ));
        return false;
    }
    rep.add("sched:steps", out.trace.len() as u64);
    rep.max("sched_steps", out.trace.len() as u64);
    for l in &out.len_samples {
        rep.count("sched:len_samples");
        rep.max("len", *l as u64);
        if *l == cfg.cap {
            rep.count("sched:len_samples_at_capacity");
        }
        if *l > cfg.cap {
            rep.violation(
                "bls-cache-len-exceeds-capacity",
                &format!("BlsCache::len() = {l} with capacity {} under a forced interleaving", cfg.cap),
                sched_json(),
            );
            break;
        }
    }
    for (tid, v) in out.verdicts.iter().enumerate() {
        match v {
            Some(Ok(got)) => {
                let det = || {
                    let mut d = sched_json();
                    d["thread"] = json!(tid);
                    d
                };
                judge(rep, "cache-sched", *got, &cfg.reqs[tid], &det);
            }
            Some(Err(p)) if p.in_subject => rep.violation(
                "bls-cache-panic-under-schedule",
                &format!("aggregate_verify panicked in thread {tid}: {} at {}", p.message, p.location),
                sched_json(),
            ),
            Some(Err(p)) => rep.harness_error(&format!("worker panicked in the harness: {} at {}", p.message, p.location)),
            None => rep.harness_error("worker reported no verdict"),
        }
    }
    let mut key = cfg.shape.clone();
    key.push(0xfd);
    for (t, s) in &out.trace {
        key.push(*t);
        key.push(*s);
    }
    let d = fnv64(&key);
    rep.cell_digest(d);
    if stats.distinct.insert(d) {
        rep.count("sched:distinct_interleavings");
        rep.count(&format!("sched:distinct_interleavings:{strategy}"));
    }
    let switches = out.trace.windows(2).filter(|w| w[0].0 != w[1].0).count();
    rep.max("sched_context_switches", switches as u64);
    true
}

fn site_name(s: u8) -> &'static str {
    match s {
        0 => "len",
        1 => "lookup",
        2 => "put",
        3 => "update",
        4 => "evict",
        5 => "clone",
        _ => "?",
    }
}

/// ALL interleavings of the gate points of 2 threads x 2 pairs (DFS over schedule prefixes)
fn case_tiny_exhaustive(rng: &mut Rng, rep: &mut Report, stats: &mut SchedStats) {
    let Some(cfg) = gen_sched_config(rng, rep, true) else { return };
    rep.count("sched:tiny_trees");
    let mut stack: Vec<Vec<usize>> = vec![vec![]];
    let mut runs = 0u64;
    let mut complete = true;
    while let Some(prefix) = stack.pop() {
        if runs >= 1000 {
            complete = false;
            break;
        }
        let cache = cfg.make_cache();
        let out = sched::run_schedule(&cache, &cfg.jobs, &mut Chooser::Prefix(&prefix), SCHED_WATCHDOG);
        runs += 1;
        if !judge_run(rep, stats, &cfg, &out, "tiny-exhaustive") {
            complete = false;
            break;
        }
        let choices = out.choices();
        for step in prefix.len()..choices.len() {
            for alt in &out.enabled[step] {
                if *alt != choices[step] {
                    let mut p = choices[..step].to_vec();
                    p.push(*alt);
                    stack.push(p);
                }
            }
        }
    }
    rep.add("sched:tiny_schedules", runs);
    rep.max("tiny_schedules_per_tree", runs);
    if complete {
        rep.count("sched:tiny_trees_complete");
    } else {
        rep.count("sched:tiny_trees_incomplete");
        rep.harness_error("schedule tree of a tiny configuration was not enumerated completely");
    }
    if rep.want_sample() {
        rep.sample(json!({"kind": "tiny-schedule-tree", "schedules": runs, "complete": complete, "config": cfg.describe()}));
    }
}

/// larger configurations: seeded random, sticky-random and PCT-style priority schedules
fn case_random_schedules(rng: &mut Rng, rep: &mut Report, stats: &mut SchedStats) {
    let Some(cfg) = gen_sched_config(rng, rep, false) else { return };
    rep.count("sched:configs");
    rep.cell(&format!("sched-config:threads{}:cap{}:prefill{}", cfg.jobs.len(), cfg.cap, cfg.prefill.len()));
    let est: usize = cfg.jobs.iter().map(|j| 2 * j.pairs.len()).sum();
    for k in 0..6 {
        let cache = cfg.make_cache();
        let (out, name) = match k % 3 {
            0 => (sched::run_schedule(&cache, &cfg.jobs, &mut Chooser::Random(rng), SCHED_WATCHDOG), "random"),
            1 => (sched::run_schedule(&cache, &cfg.jobs, &mut Chooser::Sticky(rng, None), SCHED_WATCHDOG), "sticky"),
            _ => {
                let depth = 1 + rng.usize(3);
                let mut c = Chooser::pct(rng, cfg.jobs.len(), depth, est);
                (sched::run_schedule(&cache, &cfg.jobs, &mut c, SCHED_WATCHDOG), "pct")
            }
        };
        if !judge_run(rep, stats, &cfg, &out, name) {
            break;
        }
    }
}

// ---------------------------------------------------------------------------
// free-running stress (the TSan workload; also a small dose in the native lane)

fn stress_round(rng: &mut Rng, rep: &mut Report, nthreads: usize, iters: usize) {
    let (nk, nm) = (1 + rng.usize(3), 2 + rng.usize(2));
    let mut uni = Universe::generate(rng, nk, nm);
    let cap = 1 + rng.usize(3);
    let mut reqs = vec![];
    for _ in 0..(8 + rng.usize(12)) {
        let shape = ReqShape { n: rng.usize(4), inf_pct: 8, inf_replace_only: false, allow_dup: true, honest_pct: 60 };
        match gen_request(rng, &mut uni, &shape) {
            Ok(r) => reqs.push((materialise(&uni, &r), r)),
            Err(e) => rep.harness_error(&e),
        }
    }
    if reqs.is_empty() {
        return;
    }
    let honest: Vec<(Vec<u8>, GTElement)> = (0..4)
        .map(|_| {
            let (k, m) = (Some(rng.usize(nk)), rng.usize(uni.msgs.len()));
            (uni.aug(k, m), uni.gt(k, m))
        })
        .collect();
    let cache = Arc::new(BlsCache::new(cap_nz(cap)));
    let jobs: Arc<Vec<Job>> =
        Arc::new(reqs.iter().map(|(p, r)| Job { pairs: p.clone(), sig: r.sig.clone() }).collect());
    let honest = Arc::new(honest);
    let mut handles = vec![];
    for t in 0..nthreads {
        let cache = Arc::clone(&cache);
        let jobs = Arc::clone(&jobs);
        let honest = Arc::clone(&honest);
        let mut trng = Rng::new(rng.u64());
        handles.push(std::thread::spawn(move || {
            let mut verdicts: Vec<(usize, sched::Verdict)> = vec![];
            let mut max_len = 0usize;
            let mut other_ops = 0u64;
            for i in 0..iters {
                let j = trng.usize(jobs.len());
                verdicts.push((j, sched::run_job(&cache, &jobs[j])));
                max_len = max_len.max(cache.len());
                if (i + t) % 5 == 0 {
                    other_ops += 1;
                    match trng.below(4) {
                        0 => {
                            let (a, g) = &honest[trng.usize(honest.len())];
                            cache.update(a, g.clone());
                        }
                        1 => {
                            let job = &jobs[trng.usize(jobs.len())];
                            cache.evict(job.pairs.iter().map(|(p, m)| (p, m.as_slice())));
                        }
                        2 => {
                            let c = (*cache).clone();
                            max_len = max_len.max(c.len());
                        }
                        _ => {
                            let _ = cache.is_empty();
                        }
                    }
                    max_len = max_len.max(cache.len());
                }
            }
            (verdicts, max_len, other_ops)
        }));
    }
    rep.count("stress:rounds");
    for h in handles {
        match h.join() {
            Ok((verdicts, max_len, other_ops)) => {
                rep.add("stress:other_ops", other_ops);
                rep.max("len", max_len as u64);
                rep.count("stress:threads");
                if max_len > cap {
                    rep.violation(
                        "bls-cache-len-exceeds-capacity",
                        &format!("BlsCache::len() = {max_len} with capacity {cap} under free-running threads"),
                        json!({"capacity": cap, "threads": nthreads}),
                    );
                }
                for (j, v) in verdicts {
                    let (pairs, req) = &reqs[j];
                    match v {
                        Ok(got) => {
                            rep.count("stress:verifications");
                            let det = || {
                                let mut d = describe(pairs, req);
                                d["capacity"] = json!(cap);
                                d["threads"] = json!(nthreads);
                                d
                            };
                            judge(rep, "cache-concurrent", got, req, &det);
                        }
                        Err(p) if p.in_subject => rep.violation(
                            "bls-cache-panic-under-concurrency",
                            &format!("aggregate_verify panicked: {} at {}", p.message, p.location),
                            describe(pairs, req),
                        ),
                        Err(p) => rep.harness_error(&format!("harness panic in stress worker: {}", p.message)),
                    }
                }
            }
            Err(_) => rep.harness_error("stress worker died outside guarded code"),
        }
    }
}

// ---------------------------------------------------------------------------
// Miri: the cache's own bookkeeping (linked-hash-map raw pointers) without any
// FFI: GTElement::from_bytes is a plain copy, update/len/clone/evict(empty)
// never reach blst.

fn run_miri(args: &Args, rep: &mut Report) {
    let n = args.cases(4_000, 40_000);
    run_cases(args, "c15-miri", n, rep, |_, rng, rep| {
        let cap = *rng.pick(&[1usize, 2, 3, 5]);
        let mut cache = BlsCache::new(cap_nz(cap));
        let nkeys = 1 + rng.usize(7);
        let keys: Vec<Vec<u8>> = (0..nkeys)
            .map(|_| {
                let n = 48 + rng.usize(40);
                rng.bytes(n)
            })
            .collect();
        for _ in 0..(3 + rng.usize(20)) {
            match rng.below(6) {
                0..=2 => {
                    let mut raw = [0u8; 576];
                    raw.copy_from_slice(&rng.bytes(576));
                    let k = rng.usize(keys.len());
                    cache.update(&keys[k], GTElement::from_bytes(&raw));
                    rep.count("miri:update");
                }
                3 => {
                    let c2 = cache.clone();
                    if rng.bool() {
                        cache = c2;
                    }
                    rep.count("miri:clone");
                }
                4 => {
                    cache.evict(std::iter::empty::<(PublicKey, Vec<u8>)>());
                    rep.count("miri:evict-empty");
                }
                _ => {
                    let _ = cache.is_empty();
                }
            }
            rep.eval();
            check_len(rep, &cache, cap, &|| json!({"capacity": cap, "lane": "miri"}));
        }
        rep.count("cache_histories");
        rep.cell(&format!("miri-history:cap{cap}:keys{}", keys.len()));
    });
}

fn run_tsan(args: &Args, rep: &mut Report) {
    // 8 threads x 500 verifications per round; thorough x scale 0.05 => 20 rounds
    let n = args.cases(40, 400);
    run_cases(args, "c15-stress", n, rep, |_, rng, rep| stress_round(rng, rep, 8, 500));
    rep.set_extra("stress_free_running", json!(true));
}

pub fn run(args: &Args, rep: &mut Report) {
    match args.lane.as_str() {
        "miri" => return run_miri(args, rep),
        "tsan" => return run_tsan(args, rep),
        _ => {}
    }
    // asan / valgrind / checked run the sequential workload only
    let with_schedules = args.lane == "native";
    let n = args.cases(12_000, 160_000);
    let mut stats = SchedStats::default();
    let mut tiny_trees = 0u64;
    sched::install_gate();
    // the kind of a case comes from its own rng: `i % k` would correlate with the shard number
    run_cases(args, "c15", n, rep, |_, rng, rep| match rng.below(200) {
        0..=109 => case_verdict(rng, rep),
        110..=159 => case_history(rng, rep),
        160..=164 if with_schedules => {
            tiny_trees += 1;
            case_tiny_exhaustive(rng, rep, &mut stats);
        }
        165..=198 if with_schedules => case_random_schedules(rng, rep, &mut stats),
        199 if with_schedules => {
            let nthreads = 4 + rng.usize(5);
            stress_round(rng, rep, nthreads, 40);
        }
        _ => case_verdict(rng, rep),
    });
    sched::remove_gate();
    if with_schedules {
        let complete = rep.counter("sched:tiny_trees_complete");
        let schedules = rep.counter("sched:tiny_schedules");
        rep.set_extra("schedules_tiny", json!(schedules));
        rep.set_extra("schedule_trees_tiny", json!(tiny_trees));
        // the driver sums numeric extras over shards, so the flag is written by one shard only;
        // the per-shard truth is the pair of counters sched:tiny_trees / sched:tiny_trees_complete
        if (args.shard == 0 || args.only_case.is_some()) && tiny_trees > 0 && complete == tiny_trees {
            rep.set_extra("schedules_tiny_exhaustive", json!(true));
        }
    }
}
