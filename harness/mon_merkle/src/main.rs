//! C12 — Merkle set roots are canonical; proofs are complete and sound.
//!
//! Oracle: `vcore::merkle_set` (collapsed binary-trie hash written from the
//! definition, calibrated once against /repo/tests/merkle_set.py; an
//! independent interpreter of proof byte strings). Membership ground truth is
//! always the set itself.
//! Observed: chia_consensus::merkle_set::compute_merkle_set_root,
//! chia_consensus::merkle_tree::{MerkleSet::from_leafs, get_root,
//! generate_proof, validate_merkle_proof}.
//!
//! Three workloads, interleaved by case index:
//!  * set cases: a generated set (hostile prefix structure), its root through
//!    both real computations under reorderings/duplications, honest proofs for
//!    members and near non-members, then root-keeping structural rewrites and
//!    byte-level damage of those proofs, every one judged against the set;
//!  * bounded-exhaustive chunks: every proof tree up to 7 (thorough: 9) nodes
//!    over a 4-leaf universe, against the roots of all 16 subsets;
//!  * (inside set cases) deep-chain proofs around the format's depth limit.

use chia_consensus::merkle_set::compute_merkle_set_root;
use chia_consensus::merkle_tree::{validate_merkle_proof, MerkleSet};
use serde_json::{json, Value};
use std::collections::BTreeSet;
use vcore::merkle_set::{
    self as model, bit, flip_bit, mid, with_bit, Decision, Hash, Leaf, PNode, Val, ZERO,
};
use vcore::report::{guarded, run_cases, with_big_stack};
use vcore::{hx, Args, Report, Rng};

#[derive(Clone, Copy)]
struct Mode {
    thorough: bool,
    miri: bool,
}

// ---------------------------------------------------------------------------
// set generation

const KINDS: [&str; 8] = [
    "random",
    "shared-prefix",
    "pairs-bit255",
    "flip-ladder",
    "extremes",
    "dense-low",
    "clusters",
    "deep-pairs",
];

fn bucket(n: usize) -> &'static str {
    match n {
        0 => "0",
        1 => "1",
        2 => "2",
        3 => "3",
        4..=8 => "4-8",
        9..=64 => "9-64",
        65..=500 => "65-500",
        _ => ">500",
    }
}

/// first `k` bits from `p`, the rest from `x`
fn mix(p: &Leaf, x: &Leaf, k: usize) -> Leaf {
    let mut r = *x;
    let whole = k / 8;
    r[..whole].copy_from_slice(&p[..whole]);
    for i in whole * 8..k {
        r = with_bit(&r, i, bit(p, i));
    }
    r
}

/// a prefix length biased towards the nasty ones
fn hostile_k(rng: &mut Rng) -> usize {
    match rng.below(7) {
        0 => 1 + rng.usize(7),
        1 => 8 * (1 + rng.usize(31)),
        2 => 240 + rng.usize(16),
        3 => 255,
        4 => 254,
        _ => 1 + rng.usize(255),
    }
}

fn specials() -> Vec<Leaf> {
    let z = [0u8; 32];
    let o = [0xffu8; 32];
    vec![
        z,
        o,
        flip_bit(&z, 255),
        flip_bit(&o, 255),
        flip_bit(&z, 0),
        flip_bit(&o, 0),
        flip_bit(&z, 254),
        flip_bit(&flip_bit(&z, 254), 255),
        flip_bit(&o, 254),
        flip_bit(&z, 128),
    ]
}

fn gen_size(rng: &mut Rng, m: Mode) -> usize {
    if m.miri {
        return rng.usize(5);
    }
    let w: [u32; 8] = if m.thorough { [2, 4, 12, 8, 18, 30, 20, 6] } else { [3, 5, 15, 9, 20, 35, 13, 0] };
    match rng.weighted(&w) {
        0 => 0,
        1 => 1,
        2 => 2,
        3 => 3,
        4 => 4 + rng.usize(5),
        5 => 9 + rng.usize(56),
        6 => 65 + rng.usize(436),
        _ => 501 + rng.usize(2000),
    }
}

/// Under Miri most sets are squeezed into `cap` significant leading bits (the
/// verifier's work is quadratic in the nesting depth): the last `cap` bits of
/// every leaf are moved to the front, everything else is zero.
fn gen_set_capped(rng: &mut Rng, n: usize, kind: usize, cap: usize) -> Vec<Leaf> {
    let full = gen_set(rng, n, kind);
    let mut seen = BTreeSet::new();
    full.iter()
        .map(|x| {
            let mut r = [0u8; 32];
            for i in 0..cap {
                r = with_bit(&r, i, bit(x, 256 - cap + i));
            }
            r
        })
        .filter(|x| seen.insert(*x))
        .collect()
}

/// distinct leaves, in generation order
fn gen_set(rng: &mut Rng, n: usize, kind: usize) -> Vec<Leaf> {
    let mut out: Vec<Leaf> = vec![];
    let mut seen: BTreeSet<Leaf> = BTreeSet::new();
    let mut push = |x: Leaf, out: &mut Vec<Leaf>| {
        if seen.insert(x) {
            out.push(x);
        }
    };
    let tries = n * 3 + 4;
    match kind {
        0 => {
            for _ in 0..n {
                push(rng.bytes32(), &mut out);
            }
        }
        1 => {
            let p = rng.bytes32();
            let k = hostile_k(rng);
            for _ in 0..tries {
                if out.len() >= n {
                    break;
                }
                push(mix(&p, &rng.bytes32(), k), &mut out);
            }
        }
        2 => {
            let p = rng.bytes32();
            let k = if rng.bool() { hostile_k(rng).min(250) } else { 0 };
            for _ in 0..tries {
                if out.len() >= n {
                    break;
                }
                let x = mix(&p, &rng.bytes32(), k);
                push(x, &mut out);
                if out.len() < n {
                    push(flip_bit(&x, 255), &mut out);
                }
            }
        }
        3 => {
            // z and copies of z with one bit flipped: a caterpillar down to depth 256
            let z = rng.bytes32();
            let mut pos: Vec<usize> = (0..256).collect();
            rng.shuffle(&mut pos);
            if rng.bool() {
                // prefer the deepest positions
                pos.sort_by(|a, b| b.cmp(a));
            }
            if n > 0 {
                push(z, &mut out);
            }
            for p in pos.into_iter().take(n.saturating_sub(1)) {
                push(flip_bit(&z, p), &mut out);
            }
            // larger requests: fill up with second-level flips
            for _ in 0..tries {
                if out.len() >= n {
                    break;
                }
                let a = rng.usize(256);
                let b = rng.usize(256);
                push(flip_bit(&flip_bit(&z, a), b), &mut out);
            }
        }
        4 => {
            let mut sp = specials();
            rng.shuffle(&mut sp);
            for x in sp.into_iter().take(n) {
                push(x, &mut out);
            }
            let z = if rng.bool() { [0u8; 32] } else { [0xffu8; 32] };
            for _ in 0..tries {
                if out.len() >= n {
                    break;
                }
                let k = hostile_k(rng);
                push(mix(&z, &rng.bytes32(), k), &mut out);
            }
        }
        5 => {
            let p = rng.bytes32();
            let w = *rng.pick(&[4usize, 8, 12, 16]);
            for _ in 0..tries {
                if out.len() >= n {
                    break;
                }
                push(mix(&p, &rng.bytes32(), 256 - w), &mut out);
            }
        }
        6 => {
            let c = 1 + rng.usize(4);
            let cl: Vec<(Leaf, usize)> = (0..c).map(|_| (rng.bytes32(), hostile_k(rng))).collect();
            for _ in 0..tries {
                if out.len() >= n {
                    break;
                }
                let (p, k) = *rng.pick(&cl);
                push(mix(&p, &rng.bytes32(), k), &mut out);
            }
        }
        _ => {
            for _ in 0..tries {
                if out.len() >= n {
                    break;
                }
                let x = rng.bytes32();
                let k = 200 + rng.usize(56);
                push(x, &mut out);
                if out.len() < n {
                    push(flip_bit(&mix(&x, &rng.bytes32(), k), k), &mut out);
                }
            }
        }
    }
    out
}

fn near_nonmember(rng: &mut Rng, set: &[Leaf], sorted: &[Leaf]) -> Option<Leaf> {
    for _ in 0..8 {
        let c = if set.is_empty() {
            match rng.below(3) {
                0 => [0u8; 32],
                1 => [0xffu8; 32],
                _ => rng.bytes32(),
            }
        } else {
            let m = *rng.pick(set);
            match rng.below(8) {
                0 => flip_bit(&m, 255),
                1 => flip_bit(&m, 254),
                2 => flip_bit(&m, 0),
                3 => flip_bit(&m, rng.usize(256)),
                4 => mix(&m, &rng.bytes32(), hostile_k(rng)),
                5 => *rng.pick(&specials()),
                6 => {
                    // agree with two members up to where they part, then go the other way
                    let o = *rng.pick(set);
                    let k = model::common_prefix(&m, &o);
                    if k < 255 {
                        flip_bit(&mix(&m, &rng.bytes32(), k + 2), k + 1)
                    } else {
                        flip_bit(&m, 200)
                    }
                }
                _ => rng.bytes32(),
            }
        };
        if sorted.binary_search(&c).is_err() {
            return Some(c);
        }
    }
    None
}

// ---------------------------------------------------------------------------
// judging

struct Truth<'a> {
    sorted: &'a [Leaf],
    root: Hash,
}

impl Truth<'_> {
    fn contains(&self, x: &Leaf) -> bool {
        self.sorted.binary_search(x).is_ok()
    }
}

fn hex_cap(b: &[u8], cap: usize) -> String {
    if b.len() <= cap {
        hx(b)
    } else {
        format!("{}…({} bytes)", hx(&b[..cap]), b.len())
    }
}

fn witness(t: &Truth, kind: &str, bytes: &[u8], item: &Leaf) -> Value {
    let shown: Vec<String> = t.sorted.iter().take(40).map(|l| hx(l)).collect();
    json!({
        "kind": kind,
        "set_size": t.sorted.len(),
        "set": shown,
        "root": hx(&t.root),
        "item": hx(item),
        "item_in_set": t.contains(item),
        "proof": hex_cap(bytes, 4096),
    })
}

/// what the model's interpreter says about a candidate proof
struct View {
    parsed: bool,
    preserved: bool,
    positions_ok: bool,
    decision: Decision,
}

fn view_of(p: &PNode, item: &Leaf, root: &Hash) -> View {
    View {
        parsed: true,
        preserved: p.committed_root() == *root,
        positions_ok: p.positions_ok(),
        decision: p.decide(item),
    }
}

fn view_bytes(bytes: &[u8], item: &Leaf, root: &Hash) -> View {
    match model::parse(bytes) {
        Ok(p) => view_of(&p, item, root),
        Err(_) => View { parsed: false, preserved: false, positions_ok: false, decision: Decision::Undecidable },
    }
}

fn real_validate(bytes: &[u8], item: &Leaf, root: &Hash) -> Result<Option<bool>, vcore::report::PanicInfo> {
    guarded(|| validate_merkle_proof(bytes, item, root).ok())
}

#[derive(Default)]
struct Tally {
    rpa: u64,
    rpa_included: u64,
    rpa_excluded: u64,
    misplaced_accepted: u64,
    rpr: u64,
    rpr_audit: u64,
    rpr_undecidable: u64,
    rpr_model_would_accept: u64,
    rcr_parsed: u64,
    rcr_unparseable: u64,
}

impl Tally {
    /// `src` is "mutants" or "exhaustive" (separate tallies besides the totals)
    fn flush(&self, rep: &mut Report, src: &str) {
        let mut put = |k: &str, v: u64| {
            if v > 0 {
                rep.add(k, v);
            }
        };
        put("root_preserving_accepted", self.rpa);
        put(&format!("rpa_{src}"), self.rpa);
        put("rpa:included", self.rpa_included);
        put("rpa:excluded", self.rpa_excluded);
        put("accepted_with_misplaced_leaf", self.misplaced_accepted);
        put("root_preserving_rejected", self.rpr);
        put(&format!("rpr_{src}"), self.rpr);
        put("rpr:audit", self.rpr_audit);
        put(&format!("rpr_audit_{src}"), self.rpr_audit);
        put("rpr:undecidable", self.rpr_undecidable);
        put("rpr:model-would-accept", self.rpr_model_would_accept);
        put("root_changed_rejected", self.rcr_parsed + self.rcr_unparseable);
        put("rcr:parsed", self.rcr_parsed);
        put("rcr:unparseable", self.rcr_unparseable);
    }
}

/// Judge one candidate proof against the true root of the set. Returns the
/// real outcome and its class.
fn judge(rep: &mut Report, tally: &mut Tally, t: &Truth, kind: &str, bytes: &[u8], item: &Leaf, v: &View) -> (Option<bool>, &'static str) {
    rep.eval();
    let truth = t.contains(item);
    let res = match real_validate(bytes, item, &t.root) {
        Err(p) => {
            rep.violation(
                "merkle-verify-panic",
                &format!("validate_merkle_proof panicked at {}: {}", p.location, p.message),
                witness(t, kind, bytes, item),
            );
            return (None, "panic");
        }
        Ok(r) => r,
    };
    let outcome = match res {
        Some(b) => {
            if b != truth {
                rep.violation(
                    &format!("merkle-unsound-proof-accepted:{kind}"),
                    &format!(
                        "validate_merkle_proof returned Ok({b}) against the true root of a set that {} the item",
                        if truth { "contains" } else { "does not contain" }
                    ),
                    witness(t, kind, bytes, item),
                );
                "accepted-WRONG"
            } else if v.preserved {
                tally.rpa += 1;
                if b {
                    tally.rpa_included += 1;
                } else {
                    tally.rpa_excluded += 1;
                }
                if !v.positions_ok {
                    // right answer, but a shown leaf is off its route: the audit let something through
                    tally.misplaced_accepted += 1;
                    if rep.want_sample() {
                        rep.sample(json!({"note": "accepted although a shown leaf is misplaced", "w": witness(t, kind, bytes, item)}));
                    }
                }
                "accepted"
            } else {
                rep.harness_error(&format!(
                    "verifier accepted a {kind} proof (with the right answer) that the model says commits to another root: proof {} item {}",
                    hex_cap(bytes, 300),
                    hx(item)
                ));
                "accepted-model-root-differs"
            }
        }
        None => {
            if v.preserved {
                tally.rpr += 1;
                if !v.positions_ok {
                    tally.rpr_audit += 1;
                } else if v.decision == Decision::Undecidable {
                    tally.rpr_undecidable += 1;
                } else {
                    tally.rpr_model_would_accept += 1;
                }
                "rp-rejected"
            } else {
                if v.parsed {
                    tally.rcr_parsed += 1;
                } else {
                    tally.rcr_unparseable += 1;
                }
                "rc-rejected"
            }
        }
    };
    (res, outcome)
}

fn judge_mutant(rep: &mut Report, tally: &mut Tally, t: &Truth, kind: &str, bytes: &[u8], item: &Leaf, v: &View) {
    let (_, outcome) = judge(rep, tally, t, kind, bytes, item, v);
    let key = format!("mut:{kind}:{outcome}");
    rep.count(&key);
    rep.cell(&key);
}

// ---------------------------------------------------------------------------
// roots

fn check_roots(rng: &mut Rng, rep: &mut Report, set: &[Leaf], sorted: &[Leaf], want: &Hash, kind: &str) -> bool {
    let n = set.len();
    let mut variants: Vec<(&'static str, Vec<Leaf>)> = vec![("as-generated", set.to_vec())];
    let mut sh = set.to_vec();
    rng.shuffle(&mut sh);
    variants.push(("shuffled", sh));
    if n <= 600 || rng.chance(1, 4) {
        variants.push(("ascending", sorted.to_vec()));
        let mut d = sorted.to_vec();
        d.reverse();
        variants.push(("descending", d));
    }
    if n > 0 {
        // random duplications, shuffled
        let mut dup = set.to_vec();
        let extra = 1 + rng.usize(n.min(40) + 2);
        for _ in 0..extra {
            dup.push(*rng.pick(set));
        }
        rng.shuffle(&mut dup);
        variants.push(("duplicates-shuffled", dup));
        // one element many times, adjacent
        let mut heavy = set.to_vec();
        let e = *rng.pick(set);
        let at = rng.usize(heavy.len() + 1);
        for _ in 0..(2 + rng.usize(6)) {
            heavy.insert(at, e);
        }
        variants.push(("one-element-repeated", heavy));
        if n <= 200 {
            let mut twice = vec![];
            for x in set {
                twice.push(*x);
                twice.push(*x);
            }
            variants.push(("each-twice-adjacent", twice));
        }
    }
    let mut ok = true;
    let mut first: Option<(Hash, Hash)> = None;
    for (vname, list) in &variants {
        let mut a = list.clone();
        let r1 = compute_merkle_set_root(&mut a);
        let mut b = list.clone();
        let r2 = MerkleSet::from_leafs(&mut b).get_root();
        for (which, got) in [("compute_merkle_set_root", r1), ("MerkleSet::get_root", r2)] {
            rep.eval();
            rep.count(&format!("eval:{which}"));
            if got != *want {
                ok = false;
                rep.violation(
                    &format!("merkle-root-mismatch:{which}"),
                    &format!("{which} gives {} but the definition gives {} ({vname} order, {kind} set of {n})", hx(&got), hx(want)),
                    json!({"order": vname, "leaves": list.iter().take(80).map(|l| hx(l)).collect::<Vec<_>>(), "n_listed": list.len(), "set_size": n}),
                );
            }
        }
        match first {
            None => first = Some((r1, r2)),
            Some((f1, f2)) => {
                rep.count("order_variants_compared");
                if r1 != f1 || r2 != f2 {
                    ok = false;
                    rep.violation(
                        "merkle-root-order-dependence",
                        &format!("the same set listed in '{vname}' order gives a different root than as generated"),
                        json!({"order": vname, "leaves": list.iter().take(80).map(|l| hx(l)).collect::<Vec<_>>(), "first": [hx(&f1), hx(&f2)], "now": [hx(&r1), hx(&r2)]}),
                    );
                }
            }
        }
    }
    ok
}

// ---------------------------------------------------------------------------
// mutants

struct Mutant {
    kind: &'static str,
    /// the tree the bytes were serialized from (None for byte-level damage)
    tree: Option<PNode>,
    bytes: Vec<u8>,
    /// the items the candidate proof is presented for
    items: Vec<Leaf>,
}

fn on_route(path: &[bool], item: &Leaf) -> bool {
    path.len() <= 256 && path.iter().enumerate().all(|(i, b)| bit(item, i) == *b)
}

fn one_empty_child(n: &PNode) -> Option<bool> {
    // Some(true) = the empty child is the left one
    match n {
        PNode::Mid(l, r) => match (&**l, &**r) {
            (PNode::Empty, PNode::Empty) => None,
            (PNode::Empty, _) => Some(true),
            (_, PNode::Empty) => Some(false),
            _ => None,
        },
        _ => None,
    }
}

fn swap_children(n: &PNode) -> PNode {
    match n {
        PNode::Mid(l, r) => mid((**r).clone(), (**l).clone()),
        o => o.clone(),
    }
}

/// swap every consecutive one-sided link from `n` downwards
fn swap_chain(n: &PNode) -> PNode {
    match (n, one_empty_child(n)) {
        (PNode::Mid(l, r), Some(true)) => mid(swap_chain(r), (**l).clone()),
        (PNode::Mid(l, r), Some(false)) => mid((**r).clone(), swap_chain(l)),
        _ => n.clone(),
    }
}

/// replace random sub-trees by their hash (one bottom-up pass)
fn random_prune(rng: &mut Rng, n: &PNode, num: u64, den: u64) -> PNode {
    fn go(rng: &mut Rng, n: &PNode, num: u64, den: u64) -> (PNode, Val) {
        match n {
            PNode::Mid(l, r) => {
                let cut = rng.chance(num, den);
                let (lp, lv) = go(rng, l, num, den);
                let (rp, rv) = go(rng, r, num, den);
                let v = model::mid_val(&lv, &rv);
                match (cut, &v) {
                    (true, Val::Inner { hash, .. }) => (PNode::Trunc(*hash), Val::Inner { hash: *hash, double: false }),
                    _ => (mid(lp, rp), v),
                }
            }
            o => (o.clone(), o.eval()),
        }
    }
    go(rng, n, num, den).0
}

struct Pool<'a> {
    set: &'a [Leaf],
    sorted: &'a [Leaf],
    full: Option<&'a PNode>,
    /// other honest proofs of the same set (item, tree)
    others: &'a [(Leaf, PNode)],
}

fn structural_mutants(rng: &mut Rng, p: &PNode, item: &Leaf, pool: &Pool, m: Mode) -> Vec<Mutant> {
    let mut out: Vec<Mutant> = vec![];
    let mut add = |kind: &'static str, t: &PNode, item: &Leaf| {
        // the same tree presented for another item: extend the previous entry
        if let Some(last) = out.last_mut() {
            if last.kind == kind && last.tree.as_ref() == Some(t) {
                last.items.push(*item);
                return;
            }
        }
        out.push(Mutant { kind, tree: Some(t.clone()), bytes: t.serialize(), items: vec![*item] });
    };
    let routes = p.routes();
    let node = |r: &[bool]| -> &PNode { node_at(p, r) };
    let mids: Vec<&Vec<bool>> = routes.iter().filter(|r| matches!(node(r), PNode::Mid(..))).collect();
    let links: Vec<&Vec<bool>> = mids.iter().copied().filter(|r| one_empty_child(node(r)).is_some()).collect();
    let terms: Vec<&Vec<bool>> = routes.iter().filter(|r| matches!(node(r), PNode::Term(_))).collect();
    let truncs: Vec<&Vec<bool>> = routes.iter().filter(|r| matches!(node(r), PNode::Trunc(_))).collect();
    let empties: Vec<&Vec<bool>> = routes.iter().filter(|r| matches!(node(r), PNode::Empty)).collect();
    let other_member = |rng: &mut Rng| -> Option<Leaf> { if pool.set.is_empty() { None } else { Some(*rng.pick(pool.set)) } };

    // 1. swap the sides of one-sided links (root kept iff the other side is a double)
    if !links.is_empty() {
        let shallow = links[0];
        add("swap-link", &p.replaced(shallow, &swap_children(node(shallow))), item);
        add("swap-chain", &p.replaced(shallow, &swap_chain(node(shallow))), item);
        let r = *rng.pick(&links);
        add("swap-link", &p.replaced(r, &swap_children(node(r))), item);
        let deep = links[links.len() - 1];
        add("swap-link", &p.replaced(deep, &swap_children(node(deep))), item);
        // the same rewrites, asked about a leaf the proof shows
        if let Some(tr) = terms.first() {
            if let PNode::Term(x) = node(tr) {
                add("swap-link", &p.replaced(shallow, &swap_children(node(shallow))), x);
                add("swap-chain", &p.replaced(shallow, &swap_chain(node(shallow))), x);
            }
        }
        // 3. shorten a chain
        let r = *rng.pick(&links);
        if let PNode::Mid(l, rr) = node(r) {
            let keep = if one_empty_child(node(r)) == Some(true) { rr } else { l };
            add("shorten-chain", &p.replaced(r, keep), item);
        }
    }
    // 2. lengthen a chain / insert a one-sided link
    if !mids.is_empty() {
        let doubles: Vec<&Vec<bool>> = mids.iter().copied().filter(|r| node(r).eval().is_double()).collect();
        let mut targets: Vec<&Vec<bool>> = vec![*rng.pick(&mids)];
        if !doubles.is_empty() {
            targets.push(doubles[0]);
            targets.push(*rng.pick(&doubles));
            targets.push(doubles[doubles.len() - 1]);
        }
        for r in targets {
            let n = node(r).clone();
            let new = if rng.bool() { mid(PNode::Empty, n) } else { mid(n, PNode::Empty) };
            add("lengthen-chain", &p.replaced(r, &new), item);
        }
    }
    // 4. truncate sub-trees
    {
        let on: Vec<&Vec<bool>> = mids.iter().copied().filter(|r| on_route(r, item)).collect();
        let off: Vec<&Vec<bool>> = mids.iter().copied().filter(|r| !on_route(r, item)).collect();
        if !on.is_empty() {
            let r = *rng.pick(&on);
            add("truncate-on-route", &p.replaced(r, &model::off_route(node(r))), item);
            let r = on[on.len() - 1];
            add("truncate-on-route", &p.replaced(r, &model::off_route(node(r))), item);
        }
        if !off.is_empty() {
            let r = *rng.pick(&off);
            add("truncate-off-route", &p.replaced(r, &model::off_route(node(r))), item);
        }
    }
    // 5. expand truncated sub-trees from the full tree of the set
    if let Some(full) = pool.full {
        for _ in 0..2 {
            if truncs.is_empty() {
                break;
            }
            let r = *rng.pick(&truncs);
            if let Some(sub @ PNode::Mid(..)) = full.at(r) {
                if sub.count_nodes() <= 4000 {
                    let q = p.replaced(r, sub);
                    add("expand-truncated-full", &q, item);
                    // ask about a leaf inside the newly shown part
                    let mut probe = mix_route(r, &rng.bytes32());
                    if let Some(x) = first_leaf(sub) {
                        if rng.bool() {
                            probe = x;
                        }
                    }
                    add("expand-truncated-full", &q, &probe);
                }
                let other = other_member(rng).unwrap_or(*item);
                let part = model::prune(sub, &mix_route(r, &other), r.len());
                let q = p.replaced(r, &part);
                add("expand-truncated-partial", &q, item);
                add("expand-truncated-partial", &q, &mix_route(r, &other));
            }
        }
        // 11. the full tree and random prunings of it, asked about anything
        let mut asks: Vec<Leaf> = vec![*item];
        if let Some(x) = other_member(rng) {
            asks.push(x);
        }
        if let Some(x) = near_nonmember(rng, pool.set, pool.sorted) {
            asks.push(x);
        }
        if full.count_nodes() <= 3000 {
            add("full-tree", full, rng.pick(&asks));
        }
        if full.count_nodes() <= 20000 {
            for _ in 0..(if m.miri { 1 } else if pool.set.len() > 64 { 2 } else { 3 }) {
                let (num, den) = *rng.pick(&[(1u64, 2u64), (1, 4), (1, 8), (1, 16)]);
                let q = random_prune(rng, full, num, den);
                for a in &asks {
                    add("random-pruning", &q, a);
                }
            }
        }
    }
    // 6. re-target the untouched proof
    {
        if let Some(x) = other_member(rng) {
            add("retarget-member", p, &x);
        }
        if let Some(x) = near_nonmember(rng, pool.set, pool.sorted) {
            add("retarget-nonmember", p, &x);
        }
        for tr in terms.iter().take(2) {
            if let PNode::Term(x) = node(tr) {
                add("retarget-shown-leaf", p, x);
                // a non-member next to a shown leaf
                let y = flip_bit(x, 255);
                if pool.sorted.binary_search(&y).is_err() {
                    add("retarget-nonmember", p, &y);
                }
            }
        }
    }
    // 7. splice in parts of another item's proof
    if !pool.others.is_empty() {
        let (oitem, q) = rng.pick(pool.others);
        // shallowest position where the two proofs differ
        if let Some(r) = routes.iter().find(|r| matches!(q.at(r), Some(x) if x != node(r)) && !r.is_empty()) {
            let s = p.replaced(r, q.at(r).unwrap());
            add("splice-same-position", &s, item);
            add("splice-same-position", &s, oitem);
        }
        let qr = q.routes();
        let from = rng.pick(&qr);
        let to = rng.pick(&routes);
        if from != to {
            let s = p.replaced(to, q.at(from).unwrap());
            add("splice-other-position", &s, item);
            add("splice-other-position", &s, oitem);
        }
    }
    // 8. leaves
    if !terms.is_empty() {
        let r = *rng.pick(&terms);
        if let PNode::Term(x) = node(r) {
            let y = mix(x, &rng.bytes32(), r.len().min(256));
            add("replace-leaf-same-prefix", &p.replaced(r, &PNode::Term(y)), item);
            add("replace-leaf-same-prefix", &p.replaced(r, &PNode::Term(flip_bit(x, 255))), item);
            add("retag-leaf-as-truncated", &p.replaced(r, &PNode::Trunc(*x)), item);
        }
        // the leaf (if any) the item's route ends in
        if let Some(r) = terms.iter().find(|r| on_route(r, item)) {
            add("replace-leaf-by-item", &p.replaced(r, &PNode::Term(*item)), item);
            add("leaf-to-empty", &p.replaced(r, &PNode::Empty), item);
        }
        // both leaves of a double exchanged / doubled
        if let Some(r) = mids.iter().find(|r| matches!(node(r), PNode::Mid(a, b) if matches!((&**a, &**b), (PNode::Term(_), PNode::Term(_))))) {
            if let PNode::Mid(a, b) = node(r) {
                add("swap-double-leaves", &p.replaced(r, &mid((**b).clone(), (**a).clone())), item);
                add("double-same-leaf", &p.replaced(r, &mid((**a).clone(), (**a).clone())), item);
                // one leaf of the double replaced by the item, keeping it on its side
                add("replace-leaf-by-item", &p.replaced(r, &mid((**a).clone(), PNode::Term(*item))), item);
                add("leaf-to-empty", &p.replaced(r, &mid((**a).clone(), PNode::Empty)), item);
            }
        }
    }
    if let Some(r) = empties.iter().find(|r| on_route(r, item)) {
        add("empty-to-item", &p.replaced(r, &PNode::Term(*item)), item);
    }
    if !truncs.is_empty() {
        let r = *rng.pick(&truncs);
        if let PNode::Trunc(h) = node(r) {
            add("retag-truncated-as-leaf", &p.replaced(r, &PNode::Term(*h)), item);
            let mut h2 = *h;
            h2[rng.usize(32)] ^= 1 << rng.usize(8);
            add("alter-truncated-hash", &p.replaced(r, &PNode::Trunc(h2)), item);
        }
    }
    out
}

fn node_at<'a>(p: &'a PNode, r: &[bool]) -> &'a PNode {
    p.at(r).expect("route taken from the same tree")
}

/// `x` with its leading bits forced onto `route`
fn mix_route(route: &[bool], x: &Leaf) -> Leaf {
    let mut r = *x;
    for (i, b) in route.iter().enumerate().take(256) {
        r = with_bit(&r, i, *b);
    }
    r
}

fn first_leaf(n: &PNode) -> Option<Leaf> {
    match n {
        PNode::Term(x) => Some(*x),
        PNode::Mid(l, r) => first_leaf(l).or_else(|| first_leaf(r)),
        _ => None,
    }
}

fn byte_mutants(rng: &mut Rng, bytes: &[u8], item: &Leaf, m: Mode) -> Vec<Mutant> {
    let mut out = vec![];
    if m.miri {
        if !bytes.is_empty() {
            let mut b = bytes.to_vec();
            let i = rng.usize(b.len());
            b[i] ^= 1 << rng.usize(8);
            out.push(Mutant { kind: "byte-flip", tree: None, bytes: b, items: vec![*item] });
            out.push(Mutant { kind: "byte-truncate", tree: None, bytes: bytes[..bytes.len() - 1].to_vec(), items: vec![*item] });
        }
        let mut b = bytes.to_vec();
        b.push(0);
        out.push(Mutant { kind: "trailing-bytes", tree: None, bytes: b, items: vec![*item] });
        return out;
    }
    let mut add = |kind: &'static str, b: Vec<u8>| out.push(Mutant { kind, tree: None, bytes: b, items: vec![*item] });
    if !bytes.is_empty() {
        for _ in 0..3 {
            let mut b = bytes.to_vec();
            let i = rng.usize(b.len());
            b[i] ^= 1 << rng.usize(8);
            add("byte-flip", b);
        }
        // hit a tag byte: the first byte is always one
        let mut b = bytes.to_vec();
        b[0] = rng.below(5) as u8;
        add("byte-set-tag", b);
        let mut b = bytes.to_vec();
        let i = rng.usize(b.len());
        b[i] = rng.below(5) as u8;
        add("byte-set-tag", b);
        let cuts = [bytes.len() - 1, bytes.len().saturating_sub(2), bytes.len().saturating_sub(33), rng.usize(bytes.len()), 0];
        for c in cuts {
            add("byte-truncate", bytes[..c].to_vec());
        }
    }
    let mut b = bytes.to_vec();
    b.push(0);
    add("trailing-bytes", b);
    let mut b = bytes.to_vec();
    let n = 1 + rng.usize(40);
    b.extend_from_slice(&rng.bytes(n));
    add("trailing-bytes", b);
    let mut b = bytes.to_vec();
    b.extend_from_slice(bytes);
    add("trailing-bytes", b);
    out
}

/// proofs around the nesting limit: `k` extra links above the honest proof
fn deep_chain(rng: &mut Rng, p: &PNode, item: &Leaf, k: usize) -> (PNode, &'static str) {
    let style = rng.below(4);
    let mut t = p.clone();
    for j in (0..k).rev() {
        let right = match style {
            0 => bit(item, j % 256),
            1 => true,
            2 => false,
            _ => rng.bool(),
        };
        let sib = if style == 3 && rng.chance(1, 3) { PNode::Trunc(rng.bytes32()) } else { PNode::Empty };
        t = if right { mid(sib, t) } else { mid(t, sib) };
    }
    (t, "deep-chain")
}

// ---------------------------------------------------------------------------
// one set case

fn case_set(rng: &mut Rng, rep: &mut Report, m: Mode) {
    let kind_i = rng.usize(KINDS.len());
    let kind = KINDS[kind_i];
    let n_req = gen_size(rng, m);
    // Miri: three quarters of the sets live in 12 significant bits
    let set = if m.miri && !rng.chance(1, 4) { gen_set_capped(rng, n_req, kind_i, 12) } else { gen_set(rng, n_req, kind_i) };
    let n = set.len();
    let mut sorted = set.clone();
    sorted.sort();
    let want = model::root(&set);
    let t = Truth { sorted: &sorted, root: want };
    rep.count("sets");
    rep.count(&format!("sets:size:{}", bucket(n)));
    rep.count(&format!("sets:kind:{kind}"));
    rep.cell(&format!("set:{}:{kind}", bucket(n)));
    rep.cell_digest(u64::from_le_bytes(want[..8].try_into().unwrap()));
    rep.max("set_size", n as u64);

    if !check_roots(rng, rep, &set, &sorted, &want, kind) {
        rep.count("skipped:proofs-after-root-mismatch");
        return;
    }

    // the tree used for proofs is built from a listing with duplicates half of the time
    let mut listing = set.clone();
    if n > 0 && rng.bool() {
        for _ in 0..(1 + rng.usize(4)) {
            listing.push(*rng.pick(&set));
        }
        rng.shuffle(&mut listing);
        rep.count("proof_trees_from_duplicated_listing");
    }
    let tree = MerkleSet::from_leafs(&mut listing);

    // queries
    let max_members = if m.miri { 2 } else if m.thorough { 64 } else { 20 };
    let mut queries: Vec<Leaf> = vec![];
    if n <= max_members {
        queries.extend_from_slice(&set);
    } else {
        for _ in 0..max_members {
            queries.push(*rng.pick(&set));
        }
    }
    let n_non = if m.miri { 1 } else { 8 };
    for _ in 0..n_non {
        if let Some(x) = near_nonmember(rng, &set, &sorted) {
            queries.push(x);
        }
    }

    let full = if n <= 600 && !m.miri || n <= 6 { Some(model::full_tree(&set)) } else { None };
    if let Some(f) = &full {
        if f.committed_root() != want {
            rep.harness_error("model: full tree does not commit to the model root");
            return;
        }
    }

    let mut honest: Vec<(Leaf, PNode, Vec<u8>)> = vec![];
    for item in &queries {
        let truth = t.contains(item);
        rep.eval();
        let (incl, proof) = match guarded(|| tree.generate_proof(item)) {
            Err(p) => {
                rep.violation(
                    "merkle-proof-generation-panic",
                    &format!("generate_proof panicked at {}: {}", p.location, p.message),
                    witness(&t, "honest", &[], item),
                );
                continue;
            }
            Ok(Err(_)) => {
                rep.violation("merkle-proof-generation-failed", "generate_proof on a tree built by from_leafs returned an error", witness(&t, "honest", &[], item));
                continue;
            }
            Ok(Ok(x)) => x,
        };
        rep.count("honest_proofs");
        rep.count(if truth { "honest:member" } else { "honest:nonmember" });
        rep.max("proof_bytes", proof.len() as u64);
        if incl != truth {
            rep.violation(
                "merkle-honest-proof-wrong-membership",
                &format!("generate_proof says included={incl} for an item that is {}in the set", if truth { "" } else { "not " }),
                witness(&t, "honest/generate_proof", &proof, item),
            );
        }
        rep.eval();
        match real_validate(&proof, item, &want) {
            Err(p) => rep.violation(
                "merkle-verify-panic",
                &format!("validate_merkle_proof panicked on an honest proof at {}: {}", p.location, p.message),
                witness(&t, "honest", &proof, item),
            ),
            Ok(None) => rep.violation(
                "merkle-honest-proof-rejected",
                "validate_merkle_proof rejected the proof generate_proof produced, against the true root",
                witness(&t, "honest", &proof, item),
            ),
            Ok(Some(b)) => {
                if b != truth {
                    rep.violation(
                        "merkle-honest-proof-wrong-membership",
                        &format!("validate_merkle_proof says included={b} for an item that is {}in the set", if truth { "" } else { "not " }),
                        witness(&t, "honest/validate_merkle_proof", &proof, item),
                    );
                } else {
                    rep.count("honest_validated");
                }
            }
        }
        // the interpreter must read the honest proof the same way
        match model::parse(&proof) {
            Ok(p) => {
                if model::reference_verdict(&p, item, &want) != Some(truth) {
                    rep.harness_error(&format!("model interpreter does not accept an honest proof: item {} proof {}", hx(item), hex_cap(&proof, 400)));
                }
                rep.max("proof_depth", p.audit().max_depth as u64);
                if let Some(f) = &full {
                    if n <= 64 {
                        if model::prune(f, item, 0).serialize() == proof {
                            rep.count("honest_bytes_equal_model_prover");
                        } else {
                            rep.count("honest_bytes_differ_from_model_prover");
                        }
                    }
                }
                honest.push((*item, p, proof));
            }
            Err(e) => rep.harness_error(&format!("model parser rejects an honest proof ({e:?}): {}", hex_cap(&proof, 400))),
        }
    }
    rep.cell(&format!("honest:{}:{kind}", bucket(n)));

    // soundness workload
    let mut tally = Tally::default();
    let n_mut = if m.miri { 1 } else if n <= 8 { honest.len().min(6) } else if n <= 64 { 3 } else { 2 };
    let others: Vec<(Leaf, PNode)> = honest.iter().take(12).map(|(i, p, _)| (*i, p.clone())).collect();
    let pool = Pool { set: &set, sorted: &sorted, full: full.as_ref(), others: &others };
    for _ in 0..n_mut {
        if honest.is_empty() {
            break;
        }
        let (item, p, bytes) = &honest[rng.usize(honest.len())];
        let mut muts = structural_mutants(rng, p, item, &pool, m);
        muts.extend(byte_mutants(rng, bytes, item, m));
        for mu in &muts {
            let parsed;
            let tree = match &mu.tree {
                Some(x) => Some(x),
                None => {
                    parsed = model::parse(&mu.bytes).ok();
                    parsed.as_ref()
                }
            };
            let (preserved, positions_ok) = match tree {
                Some(x) => (x.committed_root() == want, x.positions_ok()),
                None => (false, false),
            };
            for item in &mu.items {
                let v = View {
                    parsed: tree.is_some(),
                    preserved,
                    positions_ok,
                    decision: tree.map_or(Decision::Undecidable, |x| x.decide(item)),
                };
                judge_mutant(rep, &mut tally, &t, mu.kind, &mu.bytes, item, &v);
            }
        }
        // nesting limit
        let ks: &[usize] = if m.miri { &[256, 257, 258] } else { &[1, 2, 3, 200, 254, 255, 256, 257, 258, 300, 1000] };
        let deep_rounds = if !m.miri { 2 } else if rng.chance(1, 3) { 1 } else { 0 };
        for _ in 0..deep_rounds {
            let k = *rng.pick(ks);
            let (dp, kind) = deep_chain(rng, p, item, k);
            let bytes = dp.serialize();
            let v = view_of(&dp, item, &want);
            judge_mutant(rep, &mut tally, &t, kind, &bytes, item, &v);
            rep.max("mutant_depth", dp.audit().max_depth as u64);
            // the same proof against the root it commits to itself: only "no panic" is judged
            let own = dp.committed_root();
            rep.eval();
            match real_validate(&bytes, item, &own) {
                // a panic here needs overflow checks and a root that belongs to no real set (the proof's own
                // commitment with >= 256 nested links): outside C12's statement, recorded as a note
                // (known_findings.json, notes), never a violation
                Err(pn) => {
                    let _ = (&pn.location, &pn.message, k);
                    rep.count("note:verify-panic-own-root-deep-chain");
                }
                Ok(Some(_)) => rep.count("deep_chain_own_root:accepted"),
                Ok(None) => rep.count("deep_chain_own_root:rejected"),
            }
        }
        // unterminated run of middle tags
        let k = *rng.pick(&[10usize, 257, 258, 5000, 40000]);
        let mut b = vec![model::TAG_MIDDLE; if m.miri { 259 } else { k }];
        if rng.bool() {
            b.extend_from_slice(bytes);
        }
        let v = view_bytes(&b, item, &want);
        judge_mutant(rep, &mut tally, &t, "middle-run", &b, item, &v);
    }
    // whole-proof forgeries that need no honest proof
    let item = queries.first().copied().unwrap_or_else(|| rng.bytes32());
    for (kind, p) in [
        ("truncated-root", PNode::Trunc(want)),
        ("bare-empty", PNode::Empty),
        ("bare-item", PNode::Term(item)),
        ("item-and-empty", if bit(&item, 0) { mid(PNode::Empty, PNode::Term(item)) } else { mid(PNode::Term(item), PNode::Empty) }),
    ] {
        let b = p.serialize();
        let v = view_of(&p, &item, &want);
        judge_mutant(rep, &mut tally, &t, kind, &b, &item, &v);
    }
    let v = view_bytes(&[], &item, &want);
    judge_mutant(rep, &mut tally, &t, "no-bytes", &[], &item, &v);
    tally.flush(rep, "mutants");

    if rep.want_sample() && !honest.is_empty() {
        let (item, _, bytes) = &honest[0];
        rep.sample(json!({"kind": kind, "set_size": n, "root": hx(&want), "item": hx(item), "member": t.contains(item), "proof": hex_cap(bytes, 600)}));
    }
}

// ---------------------------------------------------------------------------
// bounded-exhaustive enumeration over a 4-leaf universe

#[derive(Clone, Debug)]
enum Shape {
    L,
    N(Box<Shape>, Box<Shape>),
}

fn shapes(k: usize) -> Vec<Shape> {
    if k == 0 {
        return vec![Shape::L];
    }
    let mut out = vec![];
    for a in 0..k {
        for l in shapes(a) {
            for r in shapes(k - 1 - a) {
                out.push(Shape::N(Box::new(l.clone()), Box::new(r.clone())));
            }
        }
    }
    out
}

fn fill(s: &Shape, syms: &[PNode], digits: &[usize], next: &mut usize) -> PNode {
    match s {
        Shape::L => {
            let d = digits[*next];
            *next += 1;
            syms[d].clone()
        }
        Shape::N(l, r) => {
            let a = fill(l, syms, digits, next);
            let b = fill(r, syms, digits, next);
            mid(a, b)
        }
    }
}

/// next digit string in `digits[free_from..]` (base `base`); false after the last one
fn advance(digits: &mut [usize], free_from: usize, base: usize) -> bool {
    let mut i = digits.len();
    while i > free_from {
        i -= 1;
        digits[i] += 1;
        if digits[i] < base {
            return true;
        }
        digits[i] = 0;
    }
    false
}

/// leading-bit patterns of the four universe leaves
const UNIVERSES: [[&str; 4]; 4] = [
    ["00", "01", "10", "11"],
    ["000", "001", "01", "1"],
    ["00", "01", "110", "111"],
    ["0", "100", "101", "11"],
];

fn with_prefix(bits: &str, x: &Leaf) -> Leaf {
    let mut r = *x;
    for (i, c) in bits.bytes().enumerate() {
        r = with_bit(&r, i, c == b'1');
    }
    r
}

fn collect_inner_hashes(n: &PNode, out: &mut BTreeSet<Hash>) {
    if let PNode::Mid(l, r) = n {
        if let Val::Inner { hash, .. } = n.eval() {
            out.insert(hash);
        }
        collect_inner_hashes(l, out);
        collect_inner_hashes(r, out);
    }
}

struct Chunk {
    universe: usize,
    k: usize,
    shape: usize,
    /// fixed symbol of the first leaf slot (None: all)
    first: Option<usize>,
}

/// the 16 subsets of a universe (sorted leaves, model root) and the proof symbols:
/// empty, the 4 leaves, every inner hash of every subset's tree, one unrelated hash
fn universe_symbols(u: &[Leaf], junk: Hash) -> (Vec<(Vec<Leaf>, Hash)>, Vec<PNode>) {
    let mut subsets = vec![];
    let mut hashes: BTreeSet<Hash> = BTreeSet::new();
    for mask in 0u32..16 {
        let mut s: Vec<Leaf> = (0..4).filter(|i| mask >> i & 1 == 1).map(|i| u[i]).collect();
        s.sort();
        let r = model::root(&s);
        collect_inner_hashes(&model::full_tree(&s), &mut hashes);
        subsets.push((s, r));
    }
    let mut syms: Vec<PNode> = vec![PNode::Empty];
    syms.extend(u.iter().map(|x| PNode::Term(*x)));
    syms.extend(hashes.iter().map(|h| PNode::Trunc(*h)));
    syms.push(PNode::Trunc(junk));
    (subsets, syms)
}

fn chunks(max_k: usize) -> Vec<Chunk> {
    let mut v = vec![];
    for (u, pats) in UNIVERSES.iter().enumerate() {
        // the number of symbols depends only on the leading-bit patterns
        let leaves: Vec<Leaf> = pats.iter().map(|p| with_prefix(p, &ZERO)).collect();
        let alphabet = universe_symbols(&leaves, [0xaa; 32]).1.len();
        for k in 0..=max_k {
            let ns = shapes(k).len();
            for s in 0..ns {
                if k <= 2 {
                    v.push(Chunk { universe: u, k, shape: s, first: None });
                } else {
                    for f in 0..alphabet {
                        v.push(Chunk { universe: u, k, shape: s, first: Some(f) });
                    }
                }
            }
        }
    }
    v
}

fn case_exhaustive(slot: u64, rng: &mut Rng, rep: &mut Report, m: Mode) {
    let max_k = if m.miri { 1 } else if m.thorough { 4 } else { 3 };
    let all = chunks(max_k);
    // a stride walk so that a scaled-down run still touches every universe and shape
    let ch = &all[((slot as usize) * 7919) % all.len()];
    let u: Vec<Leaf> = UNIVERSES[ch.universe].iter().map(|p| with_prefix(p, &rng.bytes32())).collect();
    // an item outside the universe, next to one of its leaves
    let outside = {
        let b = u[rng.usize(4)];
        flip_bit(&b, 3 + rng.usize(253))
    };
    let items: Vec<Leaf> = u.iter().copied().chain(std::iter::once(outside)).collect();
    // the 16 subsets, their roots (model) and the two real root computations
    let (subsets, syms) = universe_symbols(&u, rng.bytes32());
    for (s, r) in &subsets {
        for (which, got) in [
            ("compute_merkle_set_root", compute_merkle_set_root(&mut s.clone())),
            ("MerkleSet::get_root", MerkleSet::from_leafs(&mut s.clone()).get_root()),
        ] {
            rep.eval();
            if got != *r {
                rep.violation(
                    &format!("merkle-root-mismatch:{which}"),
                    &format!("{which} gives {} but the definition gives {}", hx(&got), hx(r)),
                    json!({"leaves": s.iter().map(|l| hx(l)).collect::<Vec<_>>()}),
                );
            }
        }
    }
    if ch.first.is_some_and(|f| f >= syms.len()) {
        rep.harness_error("exhaustive chunk refers to a symbol the universe does not have");
        return;
    }
    let shape = &shapes(ch.k)[ch.shape];
    let slots = ch.k + 1;
    let mut digits = vec![0usize; slots];
    let free_from = if let Some(f) = ch.first {
        digits[0] = f;
        1
    } else {
        0
    };
    let mut count = 0u64;
    let mut rot = 0usize;
    let mut tally = Tally::default();
    loop {
        let mut next = 0;
        let p = fill(shape, &syms, &digits, &mut next);
        let bytes = p.serialize();
        let committed = p.committed_root();
        let pos_ok = p.positions_ok();
        count += 1;
        for (s, r) in &subsets {
            let t = Truth { sorted: s, root: *r };
            let preserved = committed == *r;
            let ask_all = preserved;
            rot = (rot + 1) % items.len();
            let view = |item: &Leaf| View { parsed: true, preserved, positions_ok: pos_ok, decision: p.decide(item) };
            if ask_all {
                for item in &items {
                    judge(rep, &mut tally, &t, "exhaustive", &bytes, item, &view(item));
                }
            } else {
                let item = items[rot];
                if judge(rep, &mut tally, &t, "exhaustive", &bytes, &item, &view(&item)).0.is_some() {
                    // accepted against a root the model says it does not commit to: ask about everything
                    for item in &items {
                        judge(rep, &mut tally, &t, "exhaustive", &bytes, item, &view(item));
                    }
                }
            }
        }
        if m.miri && count >= 6 {
            break;
        }
        if !advance(&mut digits, free_from, syms.len()) {
            break;
        }
    }
    tally.flush(rep, "exhaustive");
    rep.add("exhaustive_proof_trees", count);
    rep.count("exhaustive_chunks");
    rep.max("exhaustive_nodes", (2 * ch.k + 1) as u64);
    rep.cell(&format!("exh:u{}:k{}:s{}:f{:?}", ch.universe, ch.k, ch.shape, ch.first));
}

fn main() {
    let args = Args::parse();
    with_big_stack(move || {
        let mut rep = Report::new(&args.prop, &args.lane);
        if args.prop != "C12" {
            rep.harness_error(&format!("mon_merkle does not serve property {}", args.prop));
            rep.finish(&args);
            return;
        }
        let m = Mode { thorough: args.thorough(), miri: args.lane == "miri" };
        let n = args.cases(24_000, 160_000);
        // a prime period, so the exhaustive chunks spread over all shards
        let period: u64 = if m.thorough { 109 } else { 41 };
        run_cases(&args, "c12", n, &mut rep, |i, rng, rep| {
            if i % period == 0 {
                case_exhaustive(i / period, rng, rep, m);
            } else {
                case_set(rng, rep, m);
            }
        });
        rep.finish(&args);
    });
}
