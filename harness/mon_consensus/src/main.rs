//! Consensus monitors: C01 (conditions vs reference model), C02 (accepted-result
//! invariants), C03 (time locks) ... see DESIGN.md §4.

mod c01;
mod c02;
mod c03;
mod c04;
mod c05;
mod c06;
mod c07;
mod c08;
mod c09;
mod c10;
mod c19;
mod c19_ff;
mod entry;
mod common;
mod corpus;

use vcore::report::with_big_stack;
use vcore::{Args, Report};

fn main() {
    let args = Args::parse();
    with_big_stack(move || {
        let mut rep = Report::new(&args.prop, &args.lane);
        match args.prop.as_str() {
            "C01" => c01::run(&args, &mut rep),
            "C02" => c02::run(&args, &mut rep),
            "C03" => c03::run(&args, &mut rep),
            "C04" => c04::run(&args, &mut rep),
            "C05" => c05::run(&args, &mut rep),
            "C06" => c06::run(&args, &mut rep),
            "C07" => c07::run(&args, &mut rep),
            "C08" => c08::run(&args, &mut rep),
            "C09" => c09::run(&args, &mut rep),
            "C10" => c10::run(&args, &mut rep),
            "C19" => c19::run(&args, &mut rep),
            p => rep.harness_error(&format!("mon_consensus does not serve {p}")),
        }
        rep.finish(&args);
    });
}
