//! C01 — conditions are accepted / rejected / summarised exactly per the rules.
//! Reference-model monitor: the same output tree goes to `parse_spends` and to
//! `vcore::conditions::evaluate`.

use crate::common::*;
use chia_bls::Signature;
use chia_consensus::conditions::{parse_spends, EmptyVisitor, MempoolVisitor};
use chia_consensus::owned_conditions::OwnedSpendBundleConditions;
use chia_consensus::validation_error::ValidationErr;
use clvmr::Allocator;
use serde_json::json;
use vcore::bundlegen::{gen_bundle, ABundle, GenParams};
use vcore::conditions::{classify_opcode, evaluate, MFlags, MVisitor, Op, Verdict, ELIGIBLE_FOR_DEDUP};
use vcore::report::run_cases;
use vcore::sx::{Repr, Sx};
use vcore::{Args, Report, Rng};

pub fn run_parse_spends(
    ctx: &Ctx,
    output: &Sx,
    repr: Repr,
    rng: &mut Rng,
    max_cost: u64,
    flags: MFlags,
    visitor: MVisitor,
    sig: &Signature,
) -> Result<OwnedSpendBundleConditions, ValidationErr> {
    let mut a = Allocator::new();
    let node = output.to_node(&mut a, repr, rng);
    let f = to_flags(flags);
    let r = match visitor {
        MVisitor::Empty => parse_spends::<EmptyVisitor>(&a, node, max_cost, 0, f, sig, None, &ctx.consts),
        MVisitor::Mempool => parse_spends::<MempoolVisitor>(&a, node, max_cost, 0, f, sig, None, &ctx.consts),
    };
    r.map(|c| OwnedSpendBundleConditions::from(&a, c))
}

fn reason_class(reason: &str) -> String {
    // first few words, without concrete numbers
    let s: String = reason.chars().filter(|c| !c.is_ascii_digit()).collect();
    s.split(':').next().unwrap_or("").trim().chars().take(48).collect()
}

pub fn opcodes_in(b: &ABundle) -> Vec<String> {
    let mut v = vec![];
    for s in &b.spends {
        let (items, _) = s.conditions().unlist().0.into_iter().fold((vec![], ()), |mut acc, c| {
            acc.0.push(c.clone());
            acc
        });
        for c in items {
            let name = match c.first().map(classify_opcode) {
                Some(Op::Known(o)) => format!("{o}"),
                Some(Op::Priced(_)) => "2byte".into(),
                Some(Op::Unknown) => "unknown".into(),
                None => "atom".into(),
            };
            if !v.contains(&name) {
                v.push(name);
            }
        }
    }
    v
}

fn empty_hint_only_difference(model: &vcore::conditions::MBundle, got: &vcore::conditions::MBundle) -> bool {
    // true iff the summaries become equal once an implementation hint of Some("") is read as None
    let mut g = got.clone();
    let mut changed = false;
    for s in &mut g.spends {
        for c in &mut s.create_coin {
            if c.hint.as_ref().is_some_and(Vec::is_empty) {
                c.hint = None;
                changed = true;
            }
        }
        s.create_coin.sort();
    }
    changed && diff_bundles(model, &g, 0, true).is_none()
}

pub fn judge_case(ctx: &Ctx, rng: &mut Rng, rep: &mut Report, b: &ABundle, out: &Sx, flags: MFlags, visitor: MVisitor) {
    let key_ok = |pk: &[u8]| ctx.key_ok(pk);
    // unlimited-cost verdict first, to learn the total and the pairs to sign
    let free = evaluate(out, flags, visitor, &ctx.mconsts, u64::MAX, &key_ok);
    let total = free.accepted().map_or(0, |m| m.condition_cost);
    let max_cost = match rng.below(10) {
        0 => total,
        1 if total > 0 => total - 1,
        2 => rng.below(total.saturating_add(2)),
        _ => 11_000_000_000_000,
    };
    let mut expected = if max_cost >= total {
        free
    } else {
        evaluate(out, flags, visitor, &ctx.mconsts, max_cost, &key_ok)
    };

    // signature, valid or not by construction
    let mut sig = Signature::default();
    let mut sig_kind = "unchecked";
    if !flags.dont_validate_signature {
        if let Some(m) = expected.accepted() {
            let good = ctx.sign_pairs(&m.pkm_pairs);
            match good {
                None => {
                    // a key the harness cannot sign for (valid key outside the pool): cannot judge with signatures on
                    rep.count("skipped:foreign-key");
                    return;
                }
                Some(good) => {
                    if rng.chance(4, 5) {
                        sig = good;
                        sig_kind = "valid";
                    } else {
                        sig_kind = "tampered";
                        if m.pkm_pairs.is_empty() {
                            sig = Signature::generator();
                        } else if rng.bool() {
                            sig = Signature::default();
                        } else {
                            let mut pairs = m.pkm_pairs.clone();
                            let k = rng.usize(pairs.len());
                            pairs[k].1.push(0x21);
                            sig = ctx.sign_pairs(&pairs).unwrap();
                        }
                        expected = Verdict::Reject("aggregate signature invalid".into());
                    }
                }
            }
        }
    }

    let repr = *rng.pick(&[Repr::Plain, Repr::Plain, Repr::Substr, Repr::Concat, Repr::Mixed]);
    let got = run_parse_spends(ctx, out, repr, rng, max_cost, flags, visitor, &sig);
    rep.eval();
    let fname = flags_name(flags);
    let vname = visitor_name(visitor);
    let witness = || {
        json!({"bundle": bundle_json(b), "flags": fname, "visitor": vname, "max_cost": max_cost,
               "repr": format!("{repr:?}"), "signature": sig_kind})
    };
    let ops = opcodes_in(b);
    match (&expected, &got) {
        (Verdict::Accept(m), Ok(o)) => {
            rep.count("accepted");
            for op in &ops {
                rep.count(&format!("op-accepted:{op}"));
                rep.cell(&format!("op{op}:A:{fname}:{vname}"));
            }
            accept_invariants(rep, "parse_spends", o, Some(max_cost), None, &witness);
            let g = owned_to_model(o);
            if let Some(d) = diff_bundles(m, &g, 0, true) {
                let sig = if empty_hint_only_difference(m, &g) {
                    "c01-summary:empty-first-memo-reported-as-hint".to_string()
                } else {
                    format!("c01-summary:{}", diff_class(&d))
                };
                rep.violation(&sig, &format!("accepted by both, summaries differ: {d}"), witness());
            }
            if o.cost != m.condition_cost {
                rep.violation(
                    "c01-summary:cost",
                    &format!("parse_spends cost {} but the table gives {}", o.cost, m.condition_cost),
                    witness(),
                );
            }
            if o.validated_signature == flags.dont_validate_signature {
                rep.violation("c01-summary:validated_signature", "validated_signature flag wrong", witness());
            }
            if visitor == MVisitor::Mempool {
                for s in &m.spends {
                    if s.flags & ELIGIBLE_FOR_DEDUP != 0 {
                        rep.count("dedup-eligible");
                    }
                    if s.flags & 4 != 0 {
                        rep.count("ff-eligible");
                    }
                }
            }
            if rep.want_sample() {
                rep.sample(json!({"verdict": "accepted by model and parse_spends", "case": witness()}));
            }
        }
        (Verdict::Reject(r), Err(_)) => {
            rep.count("rejected");
            let rc = reason_class(r);
            rep.count(&format!("reject-reason:{rc}"));
            rep.cell(&format!("rej:{rc}:{fname}"));
            for op in &ops {
                rep.count(&format!("op-rejected:{op}"));
            }
        }
        (Verdict::Accept(_), Err(e)) => {
            rep.violation(
                "c01-verdict:rules-accept-implementation-rejects",
                &format!("the rules accept this output, parse_spends rejected it with {e:?}"),
                witness(),
            );
        }
        (Verdict::Reject(r), Ok(_)) => {
            rep.violation(
                &format!("c01-verdict:rules-reject-implementation-accepts:{}", reason_class(r)),
                &format!("the rules reject this output ({r}), parse_spends accepted it"),
                witness(),
            );
        }
    }
    for t in &b.tags {
        if t.starts_with("defect:") || t.starts_with("hint:") {
            rep.count(&format!("tag:{t}"));
        }
    }
}

pub fn gen_params(ctx: &Ctx, defect_pct: u64) -> GenParams {
    GenParams {
        consts: ctx.mconsts.clone(),
        keys: ctx.keys.clone(),
        defect_pct,
        max_spends: 6,
        max_conds: 8,
        agg_sigs: true,
        locks_only: false,
        parent_pool: true,
        big_amount_pct: 12,
    }
}

pub fn run(args: &Args, rep: &mut Report) {
    let ctx = Ctx::new();
    let n = args.cases(400_000, 8_000_000);
    let params = gen_params(&ctx, 55);
    let combos = if args.thorough() { 6 } else { 4 };
    // the first cases are the recorded generators (model calibration + corpus through the native path)
    let corpus = crate::corpus::load_corpus(if args.thorough() { 4_000_000 } else { 400_000 });
    let node_cap = if args.thorough() { 6_000_000 } else { 1_500_000 };
    run_cases(args, "c01", n, rep, |i, rng, rep| {
        if (i as usize) < corpus.len() {
            crate::corpus::calibrate_file(rep, &corpus[i as usize], node_cap);
            return;
        }
        // the per-block spend limit: exactly at, one below and one above it
        let b = if i % 1500 == 777 {
            let n = *rng.pick(&[5999usize, 6000, 6001, 6002]);
            rep.count(&format!("spend-limit-stratum:{n}"));
            vcore::bundlegen::many_spends(rng, n)
        } else {
            gen_bundle(rng, &params)
        };
        let out = b.output();
        for _ in 0..combos {
            let flags = flags_from_bits(rng.below(32));
            let visitor = if rng.bool() { MVisitor::Empty } else { MVisitor::Mempool };
            judge_case(&ctx, rng, rep, &b, &out, flags, visitor);
        }
    });
}
