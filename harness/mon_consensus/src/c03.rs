//! C03 — time-lock aggregation and checking equal per-condition semantics.

use crate::c01::run_parse_spends;
use crate::common::*;
use chia_bls::Signature;
use chia_consensus::check_time_locks::check_time_locks;
use chia_protocol::{Bytes32, Coin, CoinRecord};
use serde_json::json;
use std::collections::HashMap;
use vcore::bundlegen::{gen_bundle, ABundle, GenParams};
use vcore::conditions::{evaluate, MFlags, MVisitor, Verdict};
use vcore::report::run_cases;
use vcore::sx::{Repr, Sx};
use vcore::timelocks::{holds, is_height_kind, is_lock_opcode, is_relative_kind, Birth, Chain, LockCond};
use vcore::{Args, Report, Rng};

/// the lock / birth conditions of the bundle exactly as emitted, unfolded
fn lock_conds(b: &ABundle) -> Vec<LockCond> {
    let mut v = vec![];
    for (i, s) in b.spends.iter().enumerate() {
        let conds = s.conditions();
        for c in conds.unlist().0 {
            let Some((op, args)) = c.as_pair() else { continue };
            let Some(opb) = op.as_atom() else { continue };
            if opb.len() != 1 || !is_lock_opcode(opb[0]) {
                continue;
            }
            if let Some(arg) = args.first().and_then(Sx::as_atom) {
                v.push(LockCond { spend: i, op: opb[0], arg: arg.to_vec() });
            }
        }
    }
    v
}

fn clamp32(v: i128) -> u32 {
    v.clamp(0, i128::from(u32::MAX)) as u32
}
fn clamp64(v: i128) -> u64 {
    v.clamp(0, i128::from(u64::MAX)) as u64
}

fn arg_value(c: &LockCond) -> Option<u64> {
    match vcore::ints::classify_uint(&c.arg, if is_height_kind(c.op) { 4 } else { 8 }) {
        vcore::ints::UintClass::Ok(v) => Some(v),
        _ => None,
    }
}

/// chain states placed at the thresholds of the assertions in play (and one off either side)
fn gen_state(rng: &mut Rng, conds: &[LockCond], nspends: usize) -> (Chain, Vec<Birth>) {
    let mut births: Vec<Birth> = (0..nspends)
        .map(|_| Birth { height: rng.below(50) as u32, timestamp: rng.below(5000) })
        .collect();
    // honour (or just miss) birth assertions, put some births near the top of the range
    for c in conds {
        if let Some(v) = arg_value(c) {
            let d = rng.below(8);
            let delta: i128 = match d {
                0 => -1,
                1 => 1,
                _ => 0,
            };
            if c.op == 75 && rng.chance(3, 4) {
                births[c.spend].height = clamp32(i128::from(v) + delta);
            }
            if c.op == 74 && rng.chance(3, 4) {
                births[c.spend].timestamp = clamp64(i128::from(v) + delta);
            }
        }
    }
    if rng.chance(1, 6) {
        let i = rng.usize(nspends.max(1)).min(nspends.saturating_sub(1));
        if nspends > 0 {
            births[i].height = u32::MAX - rng.below(3) as u32;
            births[i].timestamp = u64::MAX - rng.below(3);
        }
    }
    // now: at a threshold of one of the conditions, +-1
    let mut height: i128 = rng.below(2000) as i128;
    let mut ts: i128 = rng.below(2_000_000) as i128;
    if !conds.is_empty() {
        for _ in 0..2 {
            let c = &conds[rng.usize(conds.len())];
            if let Some(v) = arg_value(c) {
                let base: i128 = if is_relative_kind(c.op) {
                    if is_height_kind(c.op) {
                        i128::from(births[c.spend].height)
                    } else {
                        births[c.spend].timestamp as i128
                    }
                } else {
                    0
                };
                let t = base + i128::from(v) + (rng.below(3) as i128 - 1);
                if c.op == 74 || c.op == 75 {
                    continue;
                }
                if is_height_kind(c.op) {
                    height = t;
                } else {
                    ts = t;
                }
            }
        }
    }
    if rng.chance(1, 10) {
        height = i128::from(u32::MAX) - rng.below(2) as i128;
    }
    if rng.chance(1, 10) {
        ts = i128::from(u64::MAX) - rng.below(2) as i128;
    }
    let mut chain = Chain { height: clamp32(height), timestamp: clamp64(ts) };
    // mostly states in which every spent coin was confirmed no later than now; the rest are states
    // "before the coin exists", which the statement quantifies over as well (the classification of
    // negative arguments as tautologies does not depend on the state)
    if !rng.chance(1, 4) {
        for b in &births {
            chain.height = chain.height.max(b.height);
            chain.timestamp = chain.timestamp.max(b.timestamp);
        }
    }
    (chain, births)
}

/// is there any chain state (with now >= birth) satisfying all assertions? Interval
/// constraints: if a witness exists, one exists with every quantity at a threshold, +-1.
fn satisfiable(conds: &[LockCond], nspends: usize) -> bool {
    let mut cand_h: Vec<u32> = vec![0, u32::MAX];
    let mut cand_s: Vec<u64> = vec![0, u64::MAX];
    for c in conds {
        if let Some(v) = arg_value(c) {
            for d in [-1i128, 0, 1] {
                if is_height_kind(c.op) {
                    cand_h.push(clamp32(i128::from(v) + d));
                } else {
                    cand_s.push(clamp64(i128::from(v) + d));
                }
            }
        }
    }
    // births: asserted value if any, else 0 (the most permissive for "after", and
    // "before" bounds are relative to it as well, so 0 loses nothing)
    let mut births = vec![Birth { height: 0, timestamp: 0 }; nspends];
    for c in conds {
        if let Some(v) = arg_value(c) {
            if c.op == 75 {
                births[c.spend].height = v as u32;
            }
            if c.op == 74 {
                births[c.spend].timestamp = v;
            }
        }
    }
    // with births fixed, relative thresholds are birth+v
    for c in conds {
        if let (Some(v), true) = (arg_value(c), is_relative_kind(c.op)) {
            for d in [-1i128, 0, 1] {
                if is_height_kind(c.op) {
                    cand_h.push(clamp32(i128::from(births[c.spend].height) + i128::from(v) + d));
                } else {
                    cand_s.push(clamp64(births[c.spend].timestamp as i128 + i128::from(v) + d));
                }
            }
        }
    }
    let hmin = births.iter().map(|b| b.height).max().unwrap_or(0);
    let smin = births.iter().map(|b| b.timestamp).max().unwrap_or(0);
    let h_ok = cand_h.iter().filter(|h| **h >= hmin).any(|h| {
        conds.iter().filter(|c| is_height_kind(c.op)).all(|c| {
            holds(c, Chain { height: *h, timestamp: 0 }, births[c.spend]).is_some_and(|r| r.0)
        })
    });
    let s_ok = cand_s.iter().filter(|s| **s >= smin).any(|s| {
        conds.iter().filter(|c| !is_height_kind(c.op)).all(|c| {
            holds(c, Chain { height: 0, timestamp: *s }, births[c.spend]).is_some_and(|r| r.0)
        })
    });
    h_ok && s_ok
}

pub fn run(args: &Args, rep: &mut Report) {
    let ctx = Ctx::new();
    let n = args.cases(150_000, 3_000_000);
    let params = GenParams {
        consts: ctx.mconsts.clone(),
        keys: ctx.keys.clone(),
        defect_pct: 12,
        max_spends: 4,
        max_conds: 4,
        agg_sigs: false,
        locks_only: true,
        parent_pool: true,
        big_amount_pct: 12,
    };
    let states = if args.thorough() { 16 } else { 10 };
    run_cases(args, "c03", n, rep, |_i, rng, rep| {
        let b = gen_bundle(rng, &params);
        let out = b.output();
        let flags = MFlags {
            strict_args: rng.bool(),
            cost_conditions: rng.bool(),
            no_unknown_conds: rng.chance(1, 4),
            limit_spends: rng.bool(),
            dont_validate_signature: true,
        };
        let key_ok = |pk: &[u8]| ctx.key_ok(pk);
        let model = evaluate(&out, flags, MVisitor::Empty, &ctx.mconsts, u64::MAX, &key_ok);
        let repr = *rng.pick(&[Repr::Plain, Repr::Substr]);
        let got = run_parse_spends(&ctx, &out, repr, rng, u64::MAX, flags, MVisitor::Empty, &Signature::default());
        rep.eval();
        let conds = lock_conds(&b);
        let witness = || json!({"bundle": bundle_json(&b), "flags": flags_name(flags)});
        let owned = match (&model, got) {
            (Verdict::Accept(_), Ok(o)) => o,
            (Verdict::Reject(r), Err(_)) => {
                rep.count("parse-rejected");
                if r.starts_with("impossible") {
                    rep.count("impossible-rejections-cross-checked");
                    rep.cell(&format!("impossible:{r}"));
                    // the rejection is only legitimate if no chain state satisfies the assertions
                    let lock_only: Vec<LockCond> = conds.clone();
                    if satisfiable(&lock_only, b.spends.len()) {
                        rep.violation(
                            "c03-impossible-rejection-of-satisfiable-set",
                            &format!("rejected at parse time ({r}) although a chain state satisfies every assertion"),
                            witness(),
                        );
                    }
                }
                if r.starts_with("relative/birth condition on an ephemeral") {
                    rep.count("ephemeral-relative-rejected");
                }
                return;
            }
            (Verdict::Accept(_), Err(e)) => {
                rep.violation("c03-parse-verdict:rules-accept-implementation-rejects", &format!("{e:?}"), witness());
                return;
            }
            (Verdict::Reject(r), Ok(_)) => {
                let class: String = r.chars().filter(|c| !c.is_ascii_digit()).take(40).collect();
                rep.violation(&format!("c03-parse-verdict:rules-reject-implementation-accepts:{class}"), r, witness());
                return;
            }
        };
        rep.count("parse-accepted");
        accept_invariants(rep, "parse_spends", &owned, None, None, &witness);
        if conds.is_empty() {
            rep.count("no-lock-conditions");
        }
        for _ in 0..states {
            let (chain, births) = gen_state(rng, &conds, b.spends.len());
            let mut records: HashMap<Bytes32, CoinRecord> = HashMap::new();
            for (s, br) in owned.spends.iter().zip(births.iter()) {
                records.insert(
                    s.coin_id,
                    CoinRecord::new(
                        Coin::new(s.parent_id, s.puzzle_hash, s.coin_amount),
                        br.height,
                        0,
                        false,
                        br.timestamp,
                    ),
                );
            }
            let mut all = true;
            let mut first_fail: Option<u8> = None;
            for c in &conds {
                // spends are reported in generator order, so births[c.spend] is that spend's record
                let Some((ok, t, sat)) = holds(c, chain, births[c.spend]) else { continue };
                let now = if is_height_kind(c.op) { u128::from(chain.height) } else { u128::from(chain.timestamp) };
                let margin = if now + 1 == t {
                    "t-1"
                } else if now == t {
                    "t"
                } else if now == t + 1 {
                    "t+1"
                } else if now < t {
                    "below"
                } else {
                    "above"
                };
                rep.cell(&format!("lock{}:{}:{}:{}", c.op, if sat { "saturated" } else { "plain" }, margin, ok));
                rep.count(&format!("cond-eval:{}:{}", c.op, if ok { "holds" } else { "fails" }));
                if sat {
                    rep.count(&format!("saturated:{}", c.op));
                }
                if !ok && first_fail.is_none() {
                    first_fail = Some(c.op);
                }
                all &= ok;
            }
            let r = check_time_locks(&records, &owned, chain.height, chain.timestamp, true);
            rep.eval();
            rep.count(if all { "state:all-hold" } else { "state:some-fail" });
            let w = || {
                json!({"bundle": bundle_json(&b), "flags": flags_name(flags),
                       "height": chain.height, "timestamp": chain.timestamp,
                       "births": births.iter().map(|b| json!([b.height, b.timestamp])).collect::<Vec<_>>(),
                       "check_time_locks": format!("{r:?}")})
            };
            match (all, r.is_ok()) {
                (true, true) | (false, false) => {}
                (true, false) => rep.violation(
                    &format!("c03-timelock:rejected-although-every-assertion-holds:{:?}", r.as_ref().err().map(|e| format!("{e:?}"))),
                    "check_time_locks failed but every individual assertion holds in this state",
                    w(),
                ),
                (false, true) => rep.violation(
                    &format!("c03-timelock:passed-although-assertion-{}-fails", first_fail.unwrap_or(0)),
                    "check_time_locks passed but an individual assertion is false in this state",
                    w(),
                ),
            }
            if rep.want_sample() && !conds.is_empty() {
                rep.sample(w());
            }
        }
    });
}
