//! C05 — signature acceptance binds each AGG_SIG condition to its
//! domain-separated text. Ground truth by construction: the harness owns the
//! secret keys and signs exactly the messages the rules prescribe (model),
//! then applies one known tampering or none.

use crate::c07::mflags_of;
use crate::common::*;
use crate::entry::*;
use chia_bls::{sign, BlsCache, Signature};
use chia_consensus::conditions::{parse_spends, EmptyVisitor};
use chia_consensus::flags::{ConsensusFlags, MEMPOOL_MODE};
use chia_consensus::make_aggsig_final_message::make_aggsig_final_message;
use chia_consensus::owned_conditions::OwnedSpendBundleConditions;
use chia_consensus::spendbundle_validation::validate_clvm_and_signature;
use clvmr::Allocator;
use serde_json::json;
use std::num::NonZeroUsize;
use vcore::bundlegen::{gen_bundle, ABundle};
use vcore::conditions::{evaluate, MBundle, MConstants, MVisitor, PkMsg, Verdict};
use vcore::report::run_cases;
use vcore::sx::Sx;
use vcore::{Args, Report, Rng};

fn sorted(mut v: Vec<PkMsg>) -> Vec<PkMsg> {
    v.sort();
    v
}

/// the signature for one of the tampering classes; None = class not applicable to this bundle
fn tampered(ctx: &Ctx, rng: &mut Rng, b: &ABundle, model: &MBundle, kind: &str) -> Option<Signature> {
    let pairs = &model.pkm_pairs;
    let good = ctx.sign_pairs(pairs)?;
    let n = pairs.len();
    let key_ok = |pk: &[u8]| ctx.key_ok(pk);
    let remodel = |bb: &ABundle, consts: &MConstants| -> Option<Vec<PkMsg>> {
        match evaluate(&output_for_generator(bb), vcore::conditions::MFlags { dont_validate_signature: true, ..Default::default() }, MVisitor::Empty, consts, u64::MAX, &key_ok) {
            Verdict::Accept(m) => Some(m.pkm_pairs),
            Verdict::Reject(_) => None,
        }
    };
    match kind {
        "drop-one" if n > 0 => {
            let k = rng.usize(n);
            let rest: Vec<PkMsg> = pairs.iter().enumerate().filter(|(i, _)| *i != k).map(|(_, p)| p.clone()).collect();
            ctx.sign_pairs(&rest)
        }
        "extra-one" => {
            let mut s = good;
            s.aggregate(&sign(&ctx.sks[rng.usize(ctx.sks.len())], b"an extra signature"));
            Some(s)
        }
        "message-byte" if n > 0 => {
            let mut p = pairs.clone();
            let k = rng.usize(n);
            if p[k].1.is_empty() {
                p[k].1.push(0x42);
            } else {
                let at = rng.usize(p[k].1.len());
                p[k].1[at] ^= 1 << rng.below(8);
            }
            ctx.sign_pairs(&p)
        }
        "message-truncated" if n > 0 => {
            let mut p = pairs.clone();
            let k = rng.usize(n);
            if p[k].1.pop().is_none() {
                return None;
            }
            ctx.sign_pairs(&p)
        }
        "other-key" if n > 0 => {
            let mut p = pairs.clone();
            let k = rng.usize(n);
            let other = ctx.keys.valid.iter().find(|x| **x != p[k].0)?.clone();
            p[k].0 = other;
            ctx.sign_pairs(&p)
        }
        "coin-amount" | "coin-parent" | "coin-puzzle" if n > 0 => {
            // sign what the rules would prescribe for a slightly different coin
            let mut bb = b.clone();
            let i = rng.usize(bb.spends.len());
            match kind {
                "coin-amount" => {
                    bb.spends[i].amount ^= 1;
                    bb.spends[i].amount_atom = Sx::atom(&vcore::ints::minimal_be_u64(bb.spends[i].amount));
                }
                "coin-parent" => {
                    bb.spends[i].parent[31] ^= 1;
                    bb.spends[i].parent_atom = Sx::atom(&bb.spends[i].parent);
                }
                _ => {
                    bb.spends[i].puzzle_hash[0] ^= 1;
                    bb.spends[i].puzzle_hash_atom = Sx::atom(&bb.spends[i].puzzle_hash);
                }
            }
            // self-assertions and cross references may now fail in the model; only the pairs matter, so
            // recompute them with assertions stripped
            for s in &mut bb.spends {
                s.conds.retain(|c| c.first().and_then(Sx::as_atom).is_some_and(|o| o.len() == 1 && (43..=50).contains(&o[0])));
            }
            let mut orig = b.clone();
            for s in &mut orig.spends {
                s.conds.retain(|c| c.first().and_then(Sx::as_atom).is_some_and(|o| o.len() == 1 && (43..=50).contains(&o[0])));
            }
            let p = remodel(&bb, &ctx.mconsts)?;
            let o = remodel(&orig, &ctx.mconsts)?;
            if sorted(p.clone()) == sorted(o) {
                return None; // the changed attribute is not covered by any signature here
            }
            ctx.sign_pairs(&p)
        }
        "swap-opcode" if n > 0 => {
            // sign as if one AGG_SIG condition had a different AGG_SIG opcode
            let mut bb = b.clone();
            let mut sites = vec![];
            for (i, s) in bb.spends.iter().enumerate() {
                for (j, c) in s.conds.iter().enumerate() {
                    if c.first().and_then(Sx::as_atom).is_some_and(|o| o.len() == 1 && (43..=50).contains(&o[0])) {
                        sites.push((i, j));
                    }
                }
            }
            if sites.is_empty() {
                return None;
            }
            let (i, j) = sites[rng.usize(sites.len())];
            let c = bb.spends[i].conds[j].clone();
            let old = c.first().unwrap().as_atom().unwrap()[0];
            let new = *rng.pick(&[43u8, 44, 45, 46, 47, 48, 49, 50].iter().copied().filter(|o| *o != old).collect::<Vec<_>>());
            bb.spends[i].conds[j] = Sx::pair(Sx::atom(&[new]), c.rest().unwrap().clone());
            let p = remodel(&bb, &ctx.mconsts)?;
            if sorted(p.clone()) == sorted(pairs.clone()) {
                return None;
            }
            ctx.sign_pairs(&p)
        }
        "swap-domain-constants" if n > 0 => {
            let mut c = ctx.mconsts.clone();
            match rng.below(4) {
                0 => std::mem::swap(&mut c.me, &mut c.parent),
                1 => std::mem::swap(&mut c.puzzle, &mut c.amount),
                2 => std::mem::swap(&mut c.puzzle_amount, &mut c.parent_amount),
                _ => std::mem::swap(&mut c.parent_puzzle, &mut c.me),
            }
            let p = remodel(b, &c)?;
            if sorted(p.clone()) == sorted(pairs.clone()) {
                return None;
            }
            ctx.sign_pairs(&p)
        }
        "negated" if n > 0 => {
            let mut s = good;
            s.negate();
            Some(s)
        }
        "identity" if n > 0 => Some(Signature::default()),
        "generator-point" => Some(Signature::generator()),
        _ => None,
    }
}

const TAMPERS: &[&str] = &[
    "drop-one", "extra-one", "message-byte", "message-truncated", "other-key", "coin-amount", "coin-parent",
    "coin-puzzle", "swap-opcode", "swap-domain-constants", "negated", "identity", "generator-point",
];

/// every way the harness can offer (bundle, signature) to a signature-checking entry point
fn verdicts(ctx: &Ctx, b: &ABundle, sig: &Signature, flags: ConsensusFlags, warm: Option<&Signature>) -> Vec<(&'static str, bool)> {
    let out = output_for_generator(b);
    let mf = mflags_of(flags);
    let f = to_flags(mf);
    let limit = 1u64 << 62;
    let mut v = vec![];
    let run_ps = |cache: Option<&BlsCache>, s: &Signature| -> bool {
        let mut a = Allocator::new();
        let node = out.to_node_plain(&mut a);
        parse_spends::<EmptyVisitor>(&a, node, limit, 0, f, s, cache, &ctx.consts).is_ok()
    };
    v.push(("parse_spends/no-cache", run_ps(None, sig)));
    let cold = BlsCache::new(NonZeroUsize::new(64).unwrap());
    v.push(("parse_spends/cold-cache", run_ps(Some(&cold), sig)));
    if let Some(good) = warm {
        let warmc = BlsCache::new(NonZeroUsize::new(64).unwrap());
        let _ = run_ps(Some(&warmc), good);
        v.push(("parse_spends/warm-cache", run_ps(Some(&warmc), sig)));
        let tiny = BlsCache::new(NonZeroUsize::new(1).unwrap());
        let _ = run_ps(Some(&tiny), good);
        v.push(("parse_spends/warm-cache-capacity-1", run_ps(Some(&tiny), sig)));
    }
    let program = quoted_generator(b).serialize();
    v.push(("run_block_generator2", rbg2(ctx, &program, &[], limit, f, sig, None).is_ok()));
    v.push(("run_block_generator", rbg1(ctx, &program, &[], limit, f, sig, None).is_ok()));
    let cache2 = BlsCache::new(NonZeroUsize::new(3).unwrap());
    v.push(("run_block_generator2/cache", rbg2(ctx, &program, &[], limit, f, sig, Some(&cache2)).is_ok()));
    if b.as_spendbundle_ok() {
        let sb = spend_bundle(b, sig);
        v.push(("validate_clvm_and_signature", validate_clvm_and_signature(&sb, limit, &ctx.consts, f).is_ok()));
    }
    v
}

fn case(ctx: &Ctx, rng: &mut Rng, rep: &mut Report, params: &vcore::bundlegen::GenParams) {
    let mut b = gen_bundle(rng, params);
    if b.spends.is_empty() {
        return;
    }
    // make sure signatures matter: add a few AGG_SIG conditions over all eight opcodes
    for _ in 0..(1 + rng.usize(4)) {
        let i = rng.usize(b.spends.len());
        let op = *rng.pick(&[43u8, 44, 45, 46, 47, 48, 49, 50]);
        let pk = rng.pick(&ctx.keys.valid).clone();
        let msg: Vec<u8> = match rng.below(5) {
            0 => vec![],
            1 => rng.bytes(32),
            2 => rng.bytes(1024),
            _ => {
                let n = 1 + rng.usize(40);
                rng.bytes(n)
            }
        };
        b.spends[i].conds.push(Sx::pair(Sx::atom(&[op]), Sx::list(&[Sx::atom(&pk), Sx::atom(&msg)])));
    }
    // repeated pairs: the aggregate must cover the MULTISET of (key, message) pairs, so the same
    // condition twice in one spend (identical final message) or the same AGG_SIG_UNSAFE in two spends
    // must be signed twice
    if rng.chance(1, 3) {
        let mut sites = vec![];
        for (i, s) in b.spends.iter().enumerate() {
            for (j, c) in s.conds.iter().enumerate() {
                if let Some(o) = c.first().and_then(Sx::as_atom) {
                    if o.len() == 1 && (43..=50).contains(&o[0]) {
                        sites.push((i, j, o[0]));
                    }
                }
            }
        }
        if !sites.is_empty() {
            let (i, j, op) = sites[rng.usize(sites.len())];
            let c = b.spends[i].conds[j].clone();
            let target = if op == 49 && rng.bool() { rng.usize(b.spends.len()) } else { i };
            b.spends[target].conds.push(c);
            rep.count("repeated-pair-bundles");
        }
    }
    let mut flags = ConsensusFlags::empty();
    if rng.chance(1, 3) {
        flags |= MEMPOOL_MODE;
    }
    if rng.bool() {
        flags |= ConsensusFlags::COST_CONDITIONS;
    }
    let mf = mflags_of(flags);
    let key_ok = |pk: &[u8]| ctx.key_ok(pk);
    let out = output_for_generator(&b);
    let Verdict::Accept(model) = evaluate(&out, mf, MVisitor::Empty, &ctx.mconsts, u64::MAX, &key_ok) else {
        rep.count("skipped:rules-reject");
        return;
    };
    let Some(good) = ctx.sign_pairs(&model.pkm_pairs) else {
        rep.count("skipped:foreign-key");
        return;
    };
    let witness = |extra: serde_json::Value| json!({"bundle": bundle_json(&b), "flags": format!("{flags:?}"), "pairs": model.pkm_pairs.len(), "detail": extra});
    for s in &b.spends {
        let len = vcore::ints::minimal_be_u64(s.amount).len();
        for c in &s.conds {
            if let Some(o) = c.first().and_then(Sx::as_atom) {
                if o.len() == 1 && (43..=50).contains(&o[0]) {
                    rep.cell(&format!("aggsig{}:amount-len{len}", o[0]));
                }
            }
        }
    }

    // 1. the right signature is accepted everywhere
    for (mode, ok) in verdicts(ctx, &b, &good, flags, Some(&good)) {
        rep.eval();
        rep.count(&format!("valid:{mode}"));
        if !ok {
            rep.violation(
                &format!("c05-valid-signature-rejected:{mode}"),
                "the aggregate over exactly the prescribed (key, message) pairs was rejected",
                witness(json!({"mode": mode})),
            );
        }
    }

    // 2. what consensus says it verified == what the rules prescribe == the helper's messages
    if b.as_spendbundle_ok() {
        let sb = spend_bundle(&b, &good);
        let f = to_flags(mf);
        if let Ok((owned, pairs)) = run_sb(ctx, &sb, 1 << 62, f) {
            rep.eval();
            let got: Vec<PkMsg> = pairs.iter().map(|(pk, m)| (pk.to_bytes().to_vec(), m.to_vec())).collect();
            if got != model.pkm_pairs {
                rep.violation(
                    "c05-verified-pairs-differ-from-rules",
                    "run_spendbundle's (key, message) pairs are not the ones the rules prescribe",
                    witness(json!({"got": got.len(), "want": model.pkm_pairs.len()})),
                );
            }
            let helper = helper_messages(ctx, &owned);
            if sorted(helper.clone()) != sorted(model.pkm_pairs.clone()) {
                rep.violation(
                    "c05-final-message-helper-differs",
                    "make_aggsig_final_message over the reported conditions does not give the verified messages",
                    witness(json!({"helper": helper.len()})),
                );
            }
            rep.count("pairs-cross-checked");
        }
    }

    // 3. every single-point tampering is rejected everywhere
    let kind = *rng.pick(TAMPERS);
    if let Some(bad) = tampered(ctx, rng, &b, &model, kind) {
        if bad == good {
            rep.count("skipped:tamper-is-identity");
        } else {
            for (mode, ok) in verdicts(ctx, &b, &bad, flags, Some(&good)) {
                rep.eval();
                rep.count(&format!("tamper:{kind}"));
                if ok {
                    rep.violation(
                        &format!("c05-tampered-signature-accepted:{kind}:{mode}"),
                        &format!("a signature with tampering '{kind}' was accepted"),
                        witness(json!({"mode": mode, "tamper": kind})),
                    );
                }
            }
            rep.cell(&format!("tamper:{kind}:{}", model.pkm_pairs.len().min(6)));
        }
    } else {
        rep.count("tamper-not-applicable");
    }
    if rep.want_sample() {
        rep.sample(witness(json!({"tamper": kind})));
    }
}

fn helper_messages(ctx: &Ctx, o: &OwnedSpendBundleConditions) -> Vec<PkMsg> {
    let mut v = vec![];
    for (pk, m) in &o.agg_sig_unsafe {
        v.push((pk.to_bytes().to_vec(), m.to_vec()));
    }
    for s in &o.spends {
        for (op, list) in [
            (50u16, &s.agg_sig_me),
            (43, &s.agg_sig_parent),
            (44, &s.agg_sig_puzzle),
            (45, &s.agg_sig_amount),
            (46, &s.agg_sig_puzzle_amount),
            (47, &s.agg_sig_parent_amount),
            (48, &s.agg_sig_parent_puzzle),
        ] {
            for (pk, m) in list {
                let mut msg = m.to_vec();
                make_aggsig_final_message(op, &mut msg, s, &ctx.consts);
                v.push((pk.to_bytes().to_vec(), msg));
            }
        }
    }
    v
}

/// a second network in the same process: seven other domain constants (a node, a test-suite or a
/// wallet library can validate for more than one network; the reserved suffixes are those of the
/// constants it is GIVEN, not of the first ones it ever saw)
fn other_network(ctx: &Ctx) -> (chia_consensus::consensus_constants::ConsensusConstants, Vec<[u8; 32]>) {
    let dom = |i: u8| -> [u8; 32] { vcore::sha256(&[b"verif-other-network", &[i]]) };
    let mut c = ctx.consts.clone();
    c.agg_sig_me_additional_data = chia_protocol::Bytes32::new(dom(0));
    c.agg_sig_parent_additional_data = chia_protocol::Bytes32::new(dom(1));
    c.agg_sig_puzzle_additional_data = chia_protocol::Bytes32::new(dom(2));
    c.agg_sig_amount_additional_data = chia_protocol::Bytes32::new(dom(3));
    c.agg_sig_puzzle_amount_additional_data = chia_protocol::Bytes32::new(dom(4));
    c.agg_sig_parent_amount_additional_data = chia_protocol::Bytes32::new(dom(5));
    c.agg_sig_parent_puzzle_additional_data = chia_protocol::Bytes32::new(dom(6));
    (c, (0..7).map(dom).collect())
}

/// keys and AGG_SIG_UNSAFE suffixes that must be refused with and without signature checking
fn case_refusals(ctx: &Ctx, rng: &mut Rng, rep: &mut Report) {
    let parent = rng.bytes32();
    let amount = *rng.pick(vcore::bundlegen::AMOUNT_POOL);
    let ph = vcore::bundlegen::puzzle(0).tree_hash();
    // which network this validation is for, and whose constant the message ends in
    let (other_consts, other_doms) = other_network(ctx);
    let main_doms: Vec<[u8; 32]> = ctx.mconsts.all().iter().take(7).map(|d| <[u8; 32]>::try_from(&d[..]).unwrap()).collect();
    let on_other = rng.bool();
    let consts = if on_other { &other_consts } else { &ctx.consts };
    let (own, foreign) = if on_other { (&other_doms, &main_doms) } else { (&main_doms, &other_doms) };
    let mut must_accept = false;
    let (cond, what): (Sx, String) = if rng.bool() {
        let k = rng.usize(7);
        let mlen = rng.usize(3) * 16;
        let mut msg = rng.bytes(mlen);
        if rng.chance(1, 4) {
            // ends in a constant of the OTHER network: not reserved here
            msg.extend_from_slice(&foreign[k]);
            must_accept = true;
            let pk = rng.pick(&ctx.keys.valid).clone();
            (Sx::pair(Sx::atom(&[49]), Sx::list(&[Sx::atom(&pk), Sx::atom(&msg)])), format!("foreign-suffix-{k}"))
        } else {
            msg.extend_from_slice(&own[k]);
            let pk = rng.pick(&ctx.keys.valid).clone();
            (Sx::pair(Sx::atom(&[49]), Sx::list(&[Sx::atom(&pk), Sx::atom(&msg)])), format!("unsafe-suffix-{k}"))
        }
    } else {
        let op = *rng.pick(&[43u8, 44, 45, 46, 47, 48, 49, 50]);
        let k = rng.usize(ctx.keys.invalid.len());
        (Sx::pair(Sx::atom(&[op]), Sx::list(&[Sx::atom(&ctx.keys.invalid[k]), Sx::atom(b"m")])), format!("bad-key-{k}"))
    };
    let out = Sx::pair(
        Sx::list(&[Sx::list(&[Sx::atom(&parent), Sx::atom(&ph), Sx::atom(&vcore::ints::minimal_be_u64(amount)), Sx::list(&[cond])])]),
        Sx::nil(),
    );
    let class = what.split('-').take(2).collect::<Vec<_>>().join("-");
    rep.cell(&format!("network:{class}:{}", if on_other { "other-network" } else { "main-network" }));
    for dont in [false, true] {
        if must_accept && !dont {
            continue; // no signature is built for this probe
        }
        let mut a = Allocator::new();
        let node = out.to_node_plain(&mut a);
        let mut f = ConsensusFlags::empty();
        if dont {
            f |= ConsensusFlags::DONT_VALIDATE_SIGNATURE;
        }
        let r = parse_spends::<EmptyVisitor>(&a, node, 1 << 62, 0, f, &Signature::default(), None, consts);
        rep.eval();
        if must_accept {
            rep.count("foreign-suffix-probes");
        } else {
            rep.count(&format!("refusal:{class}"));
        }
        if must_accept {
            if let Err(e) = r {
                rep.violation(
                    "c05-foreign-suffix-refused",
                    &format!("AGG_SIG_UNSAFE message ending in a constant of ANOTHER network refused: {e:?}"),
                    json!({"output": out.show(), "validated_for": if on_other { "other network" } else { "main network" }}),
                );
            }
        } else if r.is_ok() {
            rep.violation(
                &format!("c05-must-refuse:{class}:accepted"),
                &format!("{what} accepted (DONT_VALIDATE_SIGNATURE={dont})"),
                json!({"output": out.show(), "dont_validate": dont, "validated_for": if on_other { "other network" } else { "main network" }}),
            );
        }
    }
}

pub fn run(args: &Args, rep: &mut Report) {
    let ctx = Ctx::new();
    let n = args.cases(4_000, 80_000);
    let mut params = crate::c01::gen_params(&ctx, 0);
    params.max_spends = 4;
    params.max_conds = 3;
    run_cases(args, "c05", n, rep, |_i, rng, rep| {
        if rng.chance(1, 8) {
            for _ in 0..8 {
                case_refusals(&ctx, rng, rep);
            }
        } else {
            case(&ctx, rng, rep, &params);
        }
    });
}
