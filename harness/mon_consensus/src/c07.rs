//! C07 — both block-generator execution paths agree (differential monitor).

use crate::common::*;
use crate::entry::*;
use chia_bls::Signature;
use chia_consensus::flags::{ConsensusFlags, MEMPOOL_MODE};
use chia_consensus::owned_conditions::OwnedSpendBundleConditions;
use serde_json::{json, Value};
use std::collections::HashMap;
use vcore::bundlegen::{gen_bundle, puzzle, ABundle};
use vcore::conditions::{evaluate, MFlags, MVisitor, Verdict};
use vcore::report::run_cases;
use vcore::{hx, Args, Report, Rng, Sx};

/// coin id -> model's tree hash of the revealed puzzle; and, for every spend that is the only one
/// with its (parent, amount), `reveal_slot(parent, amount)` -> the same hash, so that a result
/// reporting a wrong puzzle hash (and therefore another coin id) is still matched to its reveal
pub fn reveals_of(b: &ABundle) -> HashMap<[u8; 32], [u8; 32]> {
    let mut m: HashMap<[u8; 32], [u8; 32]> =
        b.spends.iter().map(|s| (s.coin_id(), puzzle(s.puzzle_idx).tree_hash())).collect();
    // only when every coin field is well-formed: a corrupted amount atom makes a spend report
    // another amount, which may be the (parent, amount) of a sibling with another puzzle
    if !b.as_spendbundle_ok() {
        return m;
    }
    let mut slots: HashMap<[u8; 32], Vec<[u8; 32]>> = HashMap::new();
    for s in &b.spends {
        slots.entry(crate::common::reveal_slot(&s.parent, s.amount)).or_default().push(puzzle(s.puzzle_idx).tree_hash());
    }
    for (k, v) in slots {
        if v.len() == 1 {
            m.insert(k, v[0]);
        }
    }
    m
}

/// judge one pair of results obtained from identical arguments
#[allow(clippy::too_many_arguments)]
pub fn compare_paths(
    rep: &mut Report,
    r1: &Outcome,
    r2: &Outcome,
    interned: bool,
    tight_limit: bool,
    witness: &dyn Fn() -> Value,
) {
    rep.eval();
    match (r1, r2) {
        (Ok(o1), Ok(o2)) => {
            rep.count("pair:both-accept");
            let (m1, m2) = (masked(o1, true, 0, false), masked(o2, true, 0, false));
            if let Some(d) = diff_owned(&m1, &m2) {
                rep.violation(
                    &format!("c07-summary-differs:{}", diff_class(&d)),
                    &format!("both paths accept, results differ (legacy vs native): {d}"),
                    witness(),
                );
            }
            if !interned && o2.cost > o1.cost {
                rep.violation(
                    "c07-native-costs-more",
                    &format!("native path cost {} > legacy path cost {}", o2.cost, o1.cost),
                    witness(),
                );
            }
        }
        (Err(_), Err(_)) => rep.count("pair:both-reject"),
        (Err(e1), Ok(_)) => {
            if is_resource_error(e1) {
                rep.count("pair:permitted-asymmetry");
            } else {
                rep.violation(
                    &format!("c07-legacy-rejects-native-accepts:{}", err_name(e1)),
                    &format!("legacy path rejected with {e1:?}, native path accepted"),
                    witness(),
                );
            }
        }
        (Ok(_), Err(e2)) => {
            if interned && tight_limit {
                rep.count("pair:interned-tight-limit-not-judged");
            } else {
                rep.violation(
                    &format!("c07-legacy-accepts-native-rejects:{}", err_name(e2)),
                    &format!("legacy path accepted, native path rejected with {e2:?}"),
                    witness(),
                );
            }
        }
    }
}

fn random_flags(rng: &mut Rng) -> ConsensusFlags {
    let mut f = ConsensusFlags::empty();
    if rng.chance(1, 4) {
        f |= MEMPOOL_MODE;
    }
    for (p, fl) in [
        (3, ConsensusFlags::NO_UNKNOWN_CONDS),
        (3, ConsensusFlags::STRICT_ARGS_COUNT),
        (2, ConsensusFlags::COST_CONDITIONS),
        (4, ConsensusFlags::SIMPLE_GENERATOR),
        (2, ConsensusFlags::LIMIT_SPENDS),
        (6, ConsensusFlags::INTERNED_GENERATOR),
        // interpreter-level flags: both paths receive the same ones
        (8, ConsensusFlags::CANONICAL_INTS),
        (8, ConsensusFlags::NO_UNKNOWN_OPS),
        (8, ConsensusFlags::LIMIT_HEAP),
        (8, ConsensusFlags::LIMITS),
        (8, ConsensusFlags::ENABLE_GC),
        (8, ConsensusFlags::MALACHITE),
        (8, ConsensusFlags::ENABLE_SHA256_TREE),
        (8, ConsensusFlags::ENABLE_KECCAK_OPS_OUTSIDE_GUARD),
        (8, ConsensusFlags::RELAXED_BLS),
    ] {
        if rng.chance(1, p) {
            f |= fl;
        }
    }
    f
}

pub fn mflags_of(f: ConsensusFlags) -> MFlags {
    MFlags {
        no_unknown_conds: f.contains(ConsensusFlags::NO_UNKNOWN_CONDS),
        strict_args: f.contains(ConsensusFlags::STRICT_ARGS_COUNT),
        cost_conditions: f.contains(ConsensusFlags::COST_CONDITIONS),
        limit_spends: f.contains(ConsensusFlags::LIMIT_SPENDS),
        dont_validate_signature: f.contains(ConsensusFlags::DONT_VALIDATE_SIGNATURE),
    }
}

fn mutate_bytes(rng: &mut Rng, mut v: Vec<u8>) -> Vec<u8> {
    for _ in 0..(1 + rng.usize(3)) {
        if v.is_empty() {
            v.push(rng.u8());
            continue;
        }
        let at = rng.usize(v.len());
        match rng.below(5) {
            0 => v[at] ^= 1 << rng.below(8),
            1 => v[at] = *rng.pick(&[0x00u8, 0x01, 0x80, 0xff, 0xfe, 0x7f]),
            2 => {
                v.remove(at);
            }
            3 => v.insert(at, *rng.pick(&[0xffu8, 0x80, 0x01, 0xfe, 0x00])),
            _ => v.truncate(at),
        }
    }
    v
}

/// the same tree, serialized with longer-than-necessary atom size prefixes on some atoms (always
/// decodable by a lenient reader; whether the paths accept it is theirs to decide, together)
fn serialize_padded(x: &Sx, rng: &mut Rng, pad_head: bool, out: &mut Vec<u8>) {
    fn atom(a: &[u8], widen: u32, out: &mut Vec<u8>) {
        let n = a.len();
        // minimal class: 0 = single byte / 0x80, 1 = 6-bit size, 2 = 13-bit, 3 = 20-bit, 4 = 27-bit
        let min_class = if n == 0 || (n == 1 && a[0] <= 0x7f) {
            0
        } else if n < 0x40 {
            1
        } else if n < 0x2000 {
            2
        } else if n < 0x10_0000 {
            3
        } else {
            4
        };
        let class = (min_class + widen).min(4);
        match class {
            0 => {
                if n == 0 {
                    out.push(0x80);
                } else {
                    out.push(a[0]);
                }
                return;
            }
            1 => out.push(0x80 | n as u8),
            2 => out.extend_from_slice(&[0xc0 | (n >> 8) as u8, n as u8]),
            3 => out.extend_from_slice(&[0xe0 | (n >> 16) as u8, (n >> 8) as u8, n as u8]),
            _ => out.extend_from_slice(&[0xf0 | (n >> 24) as u8, (n >> 16) as u8, (n >> 8) as u8, n as u8]),
        }
        out.extend_from_slice(a);
    }
    // iterative pre-order walk
    let mut stack: Vec<(&Sx, bool)> = vec![(x, pad_head)];
    let mut first_atom = true;
    while let Some((n, _)) = stack.pop() {
        match n.as_pair() {
            Some((l, r)) => {
                out.push(0xff);
                stack.push((r, false));
                stack.push((l, false));
            }
            None => {
                let a = n.as_atom().unwrap_or(&[]);
                let widen = if first_atom && pad_head {
                    1 + rng.below(2) as u32
                } else if rng.chance(1, 12) {
                    1 + rng.below(3) as u32
                } else {
                    0
                };
                first_atom = false;
                atom(a, widen, out);
            }
        }
    }
}

/// A generator that READS its block references: it prepends one extra spend whose parent id is
/// sha256(ref0 ‖ ref1), computed at run time from the first two references, in that order. The same
/// extra spend is inserted into the abstract bundle, so the model knows the output.
pub fn refs_reader_program(b: &mut ABundle, rng: &mut Rng) -> (Sx, Vec<Vec<u8>>) {
    let n = 2 + rng.usize(2);
    let refs: Vec<Vec<u8>> = (0..n)
        .map(|i| {
            let k = rng.usize(6);
            [vec![i as u8 + 1], rng.bytes(k)].concat()
        })
        .collect();
    let rest = generator_value(b);
    let parent = vcore::sha256(&[&refs[0], &refs[1]]);
    let ph = vcore::bundlegen::puzzle(0).tree_hash();
    let amount = rng.below(500);
    let q = |v: Sx| Sx::pair(Sx::atom(&[1]), v);
    let env = Sx::atom(&[1]);
    let refs_list = Sx::list(&[Sx::atom(&[5]), Sx::list(&[Sx::atom(&[6]), env])]); // (f (r 1))
    let ref0 = Sx::list(&[Sx::atom(&[5]), refs_list.clone()]);
    let ref1 = Sx::list(&[Sx::atom(&[5]), Sx::list(&[Sx::atom(&[6]), refs_list])]);
    let tail = Sx::list(&[vcore::bundlegen::puzzle(0), Sx::atom(&vcore::ints::minimal_be_u64(amount)), Sx::nil()]);
    let extra = Sx::list(&[Sx::atom(&[4]), Sx::list(&[Sx::atom(&[11]), ref0, ref1]), q(tail)]);
    let (spend_list, ext) = rest.as_pair().map(|(l, e)| (l.clone(), e.clone())).unwrap();
    let program = Sx::list(&[Sx::atom(&[4]), Sx::list(&[Sx::atom(&[4]), extra, q(spend_list)]), q(ext)]);
    b.spends.insert(
        0,
        vcore::bundlegen::ASpend {
            parent,
            puzzle_idx: 0,
            puzzle_hash: ph,
            amount,
            amount_atom: Sx::atom(&vcore::ints::minimal_be_u64(amount)),
            parent_atom: Sx::atom(&parent),
            puzzle_hash_atom: Sx::atom(&ph),
            conds: vec![],
            cond_term: Sx::nil(),
            spend_ext: Sx::nil(),
            fields: 4,
        },
    );
    (program, refs)
}

fn case_generated(ctx: &Ctx, rng: &mut Rng, rep: &mut Report, params: &vcore::bundlegen::GenParams, spend_limit_stratum: bool) {
    let b = if spend_limit_stratum {
        let n = *rng.pick(&[5999usize, 6000, 6001]);
        rep.count(&format!("spend-limit-stratum:{n}"));
        vcore::bundlegen::many_spends(rng, n)
    } else {
        gen_bundle(rng, params)
    };
    let form = rng.below(12);
    // a generator that READS its block references: it prepends one extra spend whose parent id is
    // sha256(ref0 ‖ ref1), computed at run time from the first two references, in that order
    let mut b = b;
    let mut refs_for_reader: Option<Vec<Vec<u8>>> = None;
    let (program_sx, form_name): (Sx, &str) = match form {
        0..=3 => (quoted_generator(&b), "quoted-plain"),
        4..=5 => (quoted_generator(&b), "quoted-backrefs"),
        6 => (procedural_generator(&b), "procedural"),
        7 => (computed_program(&generator_value(&b), rng, 0), "procedural-computed-atoms"),
        8 => {
            let (program, refs) = refs_reader_program(&mut b, rng);
            refs_for_reader = Some(refs);
            (program, "procedural-reads-block-refs")
        }
        9 => (quoted_generator(&b), "padded-size-prefixes"),
        _ => (quoted_generator(&b), "byte-mutated"),
    };
    let b = b;
    let known_output = !matches!(form_name, "byte-mutated" | "padded-size-prefixes");
    let program: Vec<u8> = match form_name {
        "quoted-backrefs" => serialize_backrefs(&program_sx),
        "byte-mutated" => mutate_bytes(rng, program_sx.serialize()),
        "padded-size-prefixes" => {
            let mut v = vec![];
            let pad_head = rng.bool();
            serialize_padded(&program_sx, rng, pad_head, &mut v);
            v
        }
        _ => program_sx.serialize(),
    };
    // SIMPLE_GENERATOR admits exactly the programs of the form (q . x)
    let is_plain_quote = program_sx.first().and_then(Sx::as_atom) == Some(&[1][..]);
    let mut flags = random_flags(rng);
    let refs: Vec<Vec<u8>> = match (refs_for_reader, rng.below(10)) {
        (Some(r), _) => r,
        (None, 0) => vec![vec![0x80]],
        (None, 1) => vec![rng.bytes(5), vec![0xff, 0x01, 0x80]],
        _ => vec![],
    };
    let interned = flags.contains(ConsensusFlags::INTERNED_GENERATOR);
    let simple = flags.contains(ConsensusFlags::SIMPLE_GENERATOR);

    // what the rules say about this generator (when its output is known by construction)
    let out = output_for_generator(&b);
    let key_ok = |pk: &[u8]| ctx.key_ok(pk);
    let validate = rng.chance(1, 5);
    if !validate {
        flags |= ConsensusFlags::DONT_VALIDATE_SIGNATURE;
    }
    let mf = mflags_of(flags);
    let mut expected = evaluate(&out, mf, MVisitor::Empty, &ctx.mconsts, u64::MAX, &key_ok);
    let mut sig = Signature::default();
    if validate {
        if let Some(m) = expected.accepted() {
            match ctx.sign_pairs(&m.pkm_pairs) {
                Some(s) => sig = s,
                None => {
                    rep.count("skipped:foreign-key");
                    return;
                }
            }
        }
    }
    if simple && (!is_plain_quote || !refs.is_empty()) {
        expected = Verdict::Reject("SIMPLE_GENERATOR: not a plain quoted list / block references given".into());
    }

    let limit = 11_000_000_000u64;
    let r1 = rbg1(ctx, &program, &refs, limit, flags, &sig, None);
    let r2 = rbg2(ctx, &program, &refs, limit, flags, &sig, None);
    let witness = || {
        json!({"generator": hx(&program), "form": form_name, "refs": refs.iter().map(|r| hx(r)).collect::<Vec<_>>(),
               "flags": format!("{flags:?}"), "max_cost": limit, "tags": b.tags,
               "legacy": r1.as_ref().map(|o| o.cost).map_err(err_name), "native": r2.as_ref().map(|o| o.cost).map_err(err_name)})
    };
    rep.count(&format!("form:{form_name}"));
    rep.cell(&format!("{form_name}:{}:{}:{}", flags.bits() >> 16, r1.is_ok(), r2.is_ok()));
    let reveals = reveals_of(&b);
    for (name, r) in [("run_block_generator", &r1), ("run_block_generator2", &r2)] {
        if let Ok(o) = r {
            accept_invariants(rep, name, o, Some(limit), if known_output { Some(&reveals) } else { None }, &witness);
        }
    }
    compare_paths(rep, &r1, &r2, interned, false, &witness);
    for t in &b.tags {
        if t.starts_with("defect:") {
            rep.count(&format!("tag:{t}"));
        }
    }

    // the native path against the rules themselves
    if known_output {
        rep.eval();
        match (&expected, &r2) {
            (Verdict::Accept(m), Ok(o)) => {
                if let Some(d) = diff_bundles(m, &owned_to_model(o), 0, true) {
                    let sig = if d.contains("create_coin") && d.contains("Some([])") {
                        "c07-native-vs-rules:empty-first-memo-reported-as-hint".to_string()
                    } else {
                        format!("c07-native-vs-rules:summary:{}", diff_class(&d))
                    };
                    rep.violation(&sig, &d, witness());
                }
                rep.count("rules:accept");
            }
            (Verdict::Reject(_), Err(_)) => rep.count("rules:reject"),
            (Verdict::Accept(m), Err(e)) => {
                // the condition model knows table costs only; a bundle whose conditions alone
                // approach the limit may legitimately run out of cost
                if is_resource_error(e) && m.condition_cost > limit / 2 {
                    rep.count("rules:cost-bound-not-judged");
                } else {
                    rep.violation(
                        &format!("c07-native-vs-rules:rules-accept-native-rejects:{}", err_name(e)),
                        &format!("{e:?}"),
                        witness(),
                    );
                }
            }
            (Verdict::Reject(r), Ok(_)) => {
                let class: String = r.chars().filter(|c| !c.is_ascii_digit()).take(40).collect();
                rep.violation(&format!("c07-native-vs-rules:rules-reject-native-accepts:{class}"), r, witness());
            }
        }
    }

    // exact limits: at each path's own total and one below
    if let (Ok(o1), Ok(o2)) = (&r1, &r2) {
        let mut limits = vec![o2.cost, o2.cost.saturating_sub(1), o1.cost, o1.cost.saturating_sub(1)];
        limits.dedup();
        for l in limits {
            let a1 = rbg1(ctx, &program, &refs, l, flags, &sig, None);
            let a2 = rbg2(ctx, &program, &refs, l, flags, &sig, None);
            let w = || json!({"base": witness(), "max_cost": l});
            rep.count("limit-pairs");
            compare_paths(rep, &a1, &a2, interned, true, &w);
            for (name, r) in [("run_block_generator", &a1), ("run_block_generator2", &a2)] {
                if let Ok(o) = r {
                    accept_invariants(rep, name, o, Some(l), None, &w);
                }
            }
        }
        if rep.want_sample() {
            rep.sample(witness());
        }
    }
}

/// generators the repository's own tests do not put through the legacy path (hours of CLVM)
const LEGACY_TOO_SLOW: &[&str] = &[
    "single-coin-only-garbage",
    "many-coins-announcement-cap",
    "puzzle-hash-stress-test",
    "puzzle-hash-stress-tree",
    "aa-million-message-spends",
    "aa-million-messages",
    "29500-remarks-procedural",
    "100000-remarks-prefab",
    "3000000-conditions-single-coin",
];

pub fn run_corpus_file(ctx_test: &crate::corpus::CorpusFile, rep: &mut Report, probe_budget: u64) {
    let f = ctx_test;
    if LEGACY_TOO_SLOW.contains(&f.name.as_str()) {
        rep.count("corpus:skipped-legacy-too-slow");
        return;
    }
    for mempool in [false, true] {
        let mut flags = if mempool { MEMPOOL_MODE } else { ConsensusFlags::empty() };
        flags |= ConsensusFlags::DONT_VALIDATE_SIGNATURE;
        if f.name == "aa-million-messages" || f.name == "aa-million-message-spends" {
            flags |= ConsensusFlags::COST_CONDITIONS;
        }
        let c = &chia_consensus::consensus_constants::TEST_CONSTANTS;
        let run1 = |l: u64| -> Outcome {
            chia_consensus::run_block_generator::run_block_generator(&f.generator, &f.refs, l, flags, &Signature::default(), None, c)
                .map(|(a, c)| OwnedSpendBundleConditions::from(&a, c))
        };
        let run2 = |l: u64| -> Outcome {
            chia_consensus::run_block_generator::run_block_generator2(&f.generator, &f.refs, l, flags, &Signature::default(), None, c)
                .map(|(a, c)| OwnedSpendBundleConditions::from(&a, c))
        };
        // bound the time spent per file: the native path is the cheaper one
        if probe_budget < 11_000_000_000 {
            if let Err(e) = run2(probe_budget) {
                if is_resource_error(&e) {
                    rep.count("corpus:skipped-over-probe-budget");
                    continue;
                }
            }
        }
        let (r1, r2) = (run1(11_000_000_000), run2(11_000_000_000));
        let witness = || json!({"corpus_file": f.name, "mempool": mempool});
        rep.cell(&format!("corpus:{}:{mempool}", f.name));
        rep.count("form:corpus");
        for (name, r) in [("run_block_generator", &r1), ("run_block_generator2", &r2)] {
            if let Ok(o) = r {
                accept_invariants(rep, name, o, Some(11_000_000_000), None, &witness);
            }
        }
        compare_paths(rep, &r1, &r2, false, false, &witness);
    }
}


pub fn run(args: &Args, rep: &mut Report) {
    let ctx = Ctx::new();
    let n = args.cases(60_000, 1_000_000);
    let mut params = crate::c01::gen_params(&ctx, 35);
    params.max_conds = 6;
    // recorded generators first; the heavy ones only in the thorough tier
    let corpus = crate::corpus::load_corpus(if args.thorough() { 4_000_000 } else { 60_000 });
    run_cases(args, "c07", n, rep, |i, rng, rep| {
        if (i as usize) < corpus.len() {
            run_corpus_file(&corpus[i as usize], rep, if args.thorough() { 11_000_000_000 } else { 300_000_000 });
            return;
        }
        case_generated(&ctx, rng, rep, &params, i % 3000 == 1777);
    });
}
