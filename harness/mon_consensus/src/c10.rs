//! C10 — block builders emit exactly the accepted bundles within the cost limit.
//! History monitor with a shadow list of accepted batches and a twin builder.

use crate::common::*;
use crate::entry::*;
use chia_bls::{sign, Signature};
use chia_consensus::build_compressed_block::BlockBuilder;
use chia_consensus::build_interned_block::InternedBlockBuilder;
use chia_consensus::consensus_constants::ConsensusConstants;
use chia_consensus::flags::ConsensusFlags;
use chia_protocol::{Coin, CoinSpend, Program, SpendBundle};
use clvmr::serde::node_from_bytes_backrefs;
use clvmr::Allocator;
use serde_json::{json, Value};
use vcore::bundlegen::gen_bundle;
use vcore::report::{guarded, run_cases};
use vcore::{hx, Args, Report, Rng, Sx};

type SpendKey = (Vec<u8>, Vec<u8>, Vec<u8>, Vec<u8>);

fn spend_keys(sb: &SpendBundle) -> Vec<SpendKey> {
    sb.coin_spends
        .iter()
        .map(|cs| {
            (
                cs.coin.parent_coin_info.to_vec(),
                cs.puzzle_reveal.to_vec(),
                vcore::ints::minimal_be_u64(cs.coin.amount),
                cs.solution.to_vec(),
            )
        })
        .collect()
}

/// decode `(q . ((parent puzzle amount solution) ...))` with the trusted deserializer
fn decode_generator(g: &[u8]) -> Option<Vec<SpendKey>> {
    let mut a = Allocator::new();
    let n = node_from_bytes_backrefs(&mut a, g).ok()?;
    let sx = Sx::from_node_capped(&a, n, 5_000_000)?;
    let (q, body) = sx.as_pair()?;
    if q.as_atom()? != [1] {
        return None;
    }
    let (list, tail) = body.as_pair()?;
    if !tail.is_nil() {
        return None;
    }
    let (items, term) = list.unlist();
    if !term.is_nil() {
        return None;
    }
    let mut v = vec![];
    for it in items {
        let (f, t) = it.unlist();
        if f.len() != 4 || !t.is_nil() {
            return None;
        }
        v.push((f[0].as_atom()?.to_vec(), f[1].serialize(), f[2].as_atom()?.to_vec(), f[3].serialize()));
    }
    Some(v)
}

enum Builder {
    Compressed(Option<BlockBuilder>),
    Interned(InternedBlockBuilder),
}

impl Builder {
    fn new(interned: bool, c: &ConsensusConstants) -> Builder {
        if interned {
            Builder::Interned(InternedBlockBuilder::new(c))
        } else {
            Builder::Compressed(Some(BlockBuilder::new().expect("BlockBuilder::new")))
        }
    }
    fn add(&mut self, batch: &[SpendBundle], cost: u64, c: &ConsensusConstants) -> Result<bool, String> {
        match self {
            Builder::Compressed(b) => b.as_mut().unwrap().add_spend_bundles(batch.iter(), cost, c).map(|r| r.0).map_err(|e| format!("{e:?}")),
            Builder::Interned(b) => b.add_spend_bundles(batch.iter(), cost).map(|r| r.0).map_err(|e| format!("{e:?}")),
        }
    }
    fn cost(&self) -> u64 {
        match self {
            Builder::Compressed(b) => b.as_ref().unwrap().cost(),
            Builder::Interned(b) => b.cost(),
        }
    }
    fn finalize(&mut self, c: &ConsensusConstants) -> Result<(Vec<u8>, Signature, u64), String> {
        match self {
            Builder::Compressed(b) => b.take().unwrap().finalize(c).map_err(|e| format!("{e:?}")),
            Builder::Interned(b) => b.finalize().map_err(|e| format!("{e:?}")),
        }
    }
}

struct Item {
    sb: SpendBundle,
    /// execution + condition cost under the history's flags, None if the bundle is not valid on its own
    truthful: Option<u64>,
}

fn history(ctx: &Ctx, rng: &mut Rng, rep: &mut Report, params: &vcore::bundlegen::GenParams, recorded: &[(String, SpendBundle)]) {
    let interned = rng.bool();
    let name = if interned { "interned" } else { "compressed" };
    let mut consts = ctx.consts.clone();
    consts.max_block_cost_clvm = match rng.below(4) {
        0 => 20_000_000 + rng.below(30_000_000),
        1 => 50_000_000 + rng.below(150_000_000),
        2 => 7_000_000 + rng.below(10_000_000),
        _ => 400_000_000,
    };
    let mut flags = ConsensusFlags::DONT_VALIDATE_SIGNATURE;
    if rng.bool() {
        flags |= ConsensusFlags::COST_CONDITIONS;
    }
    if interned {
        flags |= ConsensusFlags::INTERNED_GENERATOR;
    }

    // pool of bundles for this history
    let mut pool: Vec<Item> = vec![];
    for _ in 0..(3 + rng.usize(10)) {
        let sb = if !recorded.is_empty() && rng.chance(1, 8) {
            recorded[rng.usize(recorded.len())].1.clone()
        } else {
            let b = gen_bundle(rng, params);
            if !b.as_spendbundle_ok() || b.spends.is_empty() {
                continue;
            }
            // a distinct signature per bundle (the builders aggregate, they do not verify)
            let sig = sign(&ctx.sks[rng.usize(ctx.sks.len())], rng.bytes(8));
            spend_bundle(&strip_ext(&b), &sig)
        };
        let truthful = run_sb(ctx, &sb, 1 << 62, flags).ok().map(|(o, _)| o.execution_cost + o.condition_cost);
        pool.push(Item { sb, truthful });
    }
    if pool.is_empty() {
        return;
    }
    // a bundle whose reveal is not deserializable: an error in the middle of a batch
    let broken = {
        let mut sb = pool[0].sb.clone();
        if let Some(cs) = sb.coin_spends.last_mut() {
            *cs = CoinSpend::new(Coin::new(cs.coin.parent_coin_info, cs.coin.puzzle_hash, cs.coin.amount), Program::new(vec![0xff, 0xff].into()), cs.solution.clone());
        }
        sb
    };

    let mut builder = Builder::new(interned, &consts);
    let mut accepted: Vec<(Vec<SpendBundle>, u64)> = vec![];
    let mut log: Vec<Value> = vec![];
    let mut all_truthful = true;
    let mut byte_contrib: std::collections::HashMap<usize, u64> = std::collections::HashMap::new();
    let mut last_cost_estimate = builder.cost();
    let long = rng.chance(1, 5);
    let steps = 1 + rng.usize(if long { 40 } else { 12 });
    let mut rejected = 0u32;
    for _ in 0..steps {
        let k = match rng.below(10) {
            0 => 0,
            1..=6 => 1,
            7 | 8 => 2,
            _ => 3,
        };
        let mut batch: Vec<SpendBundle> = vec![];
        let mut batch_idx: Vec<usize> = vec![];
        let mut truthful: Option<u64> = Some(0);
        for _ in 0..k {
            let pi = rng.usize(pool.len());
            batch_idx.push(pi);
            let it = &pool[pi];
            batch.push(it.sb.clone());
            truthful = match (truthful, it.truthful) {
                (Some(a), Some(b)) => Some(a + b),
                _ => None,
            };
        }
        let mid_error = k > 0 && rng.chance(1, 12);
        if mid_error {
            let at = rng.usize(batch.len() + 1);
            batch.insert(at, broken.clone());
            truthful = None;
        }
        let remaining = consts.max_block_cost_clvm.saturating_sub(builder.cost());
        // byte cost this batch added the last time its bundles were accepted (learned from cost() deltas):
        // lets a declared cost be chosen so that the estimate AFTER the add lands within a hair of the limit
        let learned: Option<u64> = if mid_error || batch_idx.is_empty() {
            None
        } else {
            batch_idx.iter().map(|i| byte_contrib.get(i).copied()).sum::<Option<u64>>()
        };
        // the interned builder's estimate for a spend is a function of the spend alone
        // (interned size of (parent puzzle amount solution) plus one cons): the model predicts it
        let learned = learned.or_else(|| {
            if !interned || mid_error || batch.is_empty() {
                return None;
            }
            let mut v = 0u64;
            for sb in &batch {
                for cs in &sb.coin_spends {
                    let (p, _) = Sx::deserialize(cs.puzzle_reveal.as_slice())?;
                    let (so, _) = Sx::deserialize(cs.solution.as_slice())?;
                    let item = Sx::list(&[
                        Sx::atom(cs.coin.parent_coin_info.as_slice()),
                        p,
                        Sx::atom(&vcore::ints::minimal_be_u64(cs.coin.amount)),
                        so,
                    ]);
                    v += item.interned_vbytes() + 3;
                }
            }
            Some(v * consts.cost_per_byte)
        });
        let cost_before = builder.cost();
        let (declared, kind) = match rng.below(14) {
            12 | 13 if learned.is_some() => {
                let delta = rng.below(400_001) as i64 - 200_000;
                let base = remaining.saturating_sub(learned.unwrap()) as i64;
                ((base + delta).max(0) as u64, "tight-fit-after-add")
            }
            0 => (remaining, "exactly-remaining"),
            1 => (remaining.saturating_sub(1), "remaining-1"),
            2 => (remaining.saturating_add(1), "remaining+1"),
            3 => (0, "zero"),
            4 => ((1u64 << 61) + rng.below(1 << 40), "absurd"),
            5 => (remaining / 2, "half-remaining"),
            _ => (truthful.unwrap_or(1_000_000 + rng.below(5_000_000)), "truthful"),
        };
        let is_truthful = truthful == Some(declared);
        let r = guarded(|| builder.add(&batch, declared, &consts));
        rep.eval();
        rep.count(&format!("add:{name}"));
        rep.count(&format!("declared:{kind}"));
        let added = match r {
            Err(p) => {
                rep.violation(
                    &format!("c10-panic:add_spend_bundles:{name}"),
                    &format!("add_spend_bundles panicked at {}: {}", p.location, p.message),
                    json!({"builder": name, "log": log, "declared": declared}),
                );
                return;
            }
            Ok(Err(_)) => {
                rep.count("add:error");
                if mid_error {
                    rep.count("add:mid-batch-error");
                }
                false
            }
            Ok(Ok(a)) => a,
        };
        log.push(json!({"batch": batch.len(), "declared": declared, "kind": kind, "added": added, "cost_after": builder.cost(), "mid_error": mid_error}));
        if added && batch_idx.len() == 1 && !mid_error {
            byte_contrib.insert(batch_idx[0], builder.cost().saturating_sub(cost_before).saturating_sub(declared));
        }
        if added {
            rep.count("add:accepted");
            let slack = consts.max_block_cost_clvm as i128 - builder.cost() as i128;
            if slack.abs() <= 200_000 {
                rep.count("add:accepted-within-200k-of-limit");
            }
            if declared == remaining || kind == "exactly-remaining" {
                rep.count("add:accepted-landing-on-limit");
            }
            all_truthful &= is_truthful;
            accepted.push((batch, declared));
            last_cost_estimate = builder.cost();
        } else {
            rep.count("add:rejected");
            rejected += 1;
        }
    }
    rep.cell(&format!("{name}:accepted{}:rejected{}", accepted.len().min(8), rejected.min(8)));

    let witness = |extra: Value| json!({"builder": name, "max_block_cost": consts.max_block_cost_clvm, "flags": format!("{flags:?}"), "log": log, "detail": extra});
    let fin = guarded(|| builder.finalize(&consts));
    rep.eval();
    rep.count(&format!("histories:{name}"));
    let (gen, sig, cost) = match fin {
        Err(p) => {
            rep.violation(&format!("c10-panic:finalize:{name}"), &format!("finalize panicked at {}: {}", p.location, p.message), witness(json!({})));
            return;
        }
        Ok(Err(e)) => {
            rep.violation(&format!("c10-finalize-error:{name}"), &e, witness(json!({})));
            return;
        }
        Ok(Ok(x)) => x,
    };

    // exactly the spends of the accepted attempts
    let mut want: Vec<SpendKey> = accepted.iter().flat_map(|(b, _)| b.iter().flat_map(spend_keys)).collect();
    want.sort();
    match decode_generator(&gen) {
        None => rep.violation(&format!("c10-generator-undecodable:{name}"), "the finalized generator is not a quoted list of 4-field spends", witness(json!({"generator": hx(&gen[..gen.len().min(2000)])}))),
        Some(mut got) => {
            got.sort();
            if got != want {
                rep.violation(
                    &format!("c10-generator-content:{name}"),
                    &format!("the generator holds {} spends, the accepted attempts hold {}", got.len(), want.len()),
                    witness(json!({"generator": hx(&gen[..gen.len().min(2000)])})),
                );
            }
        }
    }
    let mut agg = Signature::default();
    for (b, _) in &accepted {
        for sb in b {
            agg.aggregate(&sb.aggregated_signature);
        }
    }
    if sig != agg {
        rep.violation(&format!("c10-signature:{name}"), "returned signature is not the aggregate of the accepted bundles' signatures", witness(json!({})));
    }
    if cost > consts.max_block_cost_clvm {
        rep.violation(&format!("c10-cost-above-block-limit:{name}"), &format!("returned cost {cost} > max block cost {}", consts.max_block_cost_clvm), witness(json!({})));
    }
    if all_truthful {
        rep.count("histories:all-truthful");
        if last_cost_estimate < cost {
            rep.violation(
                &format!("c10-estimate-underestimates:{name}{}", if accepted.is_empty() { ":empty-builder" } else { "" }),
                &format!("cost() after the last accepted add was {last_cost_estimate}, finalize returned {cost}"),
                witness(json!({})),
            );
        }
        // what consensus charges for this generator
        match rbg2(ctx, &gen, &[], 1 << 62, flags, &Signature::default(), None) {
            Ok(o) => {
                rep.count("consensus-cost-compared");
                accept_invariants(rep, "run_block_generator2", &o, None, None, &|| witness(json!({})));
                if o.cost != cost {
                    rep.violation(
                        &format!("c10-cost-differs-from-consensus:{name}"),
                        &format!("builder returned cost {cost}, consensus charges {}", o.cost),
                        witness(json!({})),
                    );
                }
            }
            Err(_) => rep.count("consensus-cost-not-comparable(block invalid as a whole)"),
        }
    }

    // twin: only the accepted attempts. A rejected attempt must leave no trace.
    let mut twin = Builder::new(interned, &consts);
    let mut twin_ok = true;
    for (b, d) in &accepted {
        match guarded(|| twin.add(b, *d, &consts)) {
            Ok(Ok(true)) => {}
            _ => {
                twin_ok = false;
                break;
            }
        }
    }
    if !twin_ok {
        // with rejections removed the byte cost estimate can differ (compression state), so a twin may
        // legitimately refuse near the limit; this is recorded, not judged
        rep.count("twin:refused-an-accepted-batch");
        return;
    }
    if let Ok(Ok((g2, s2, c2))) = guarded(|| twin.finalize(&consts)) {
        rep.eval();
        rep.count("twin:compared");
        let (mut d1, mut d2) = (decode_generator(&gen).unwrap_or_default(), decode_generator(&g2).unwrap_or_default());
        d1.sort();
        d2.sort();
        if d1 != d2 || s2 != sig {
            rep.violation(&format!("c10-rejected-attempt-left-a-trace:{name}"), "a builder fed only the accepted attempts produces different spends or signature", witness(json!({})));
        }
        if g2 == gen {
            rep.count("twin:byte-identical");
        } else {
            rep.count("twin:bytes-differ");
        }
        if c2 != cost {
            rep.count("twin:cost-differs");
            if interned {
                // the interned cost is a function of the tree alone
                rep.violation(&format!("c10-rejected-attempt-changes-cost:{name}"), &format!("cost {cost} vs twin {c2}"), witness(json!({})));
            }
        }
    }
    if rep.want_sample() {
        rep.sample(witness(json!({"final_cost": cost, "generator_len": gen.len()})));
    }
}

pub fn run(args: &Args, rep: &mut Report) {
    let ctx = Ctx::new();
    let n = args.cases(6_000, 100_000);
    let mut params = crate::c01::gen_params(&ctx, 0);
    params.parent_pool = false;
    params.max_spends = 3;
    params.max_conds = 4;
    let recorded = crate::c08::load_recorded_bundles();
    run_cases(args, "c10", n, rep, |_i, rng, rep| history(&ctx, rng, rep, &params, &recorded));
}
