//! C06 — strict modes only restrict, and ordering never changes the verdict.

use crate::c01::run_parse_spends;
use crate::c07::mflags_of;
use crate::common::*;
use crate::entry::*;
use chia_bls::Signature;
use chia_consensus::flags::ConsensusFlags;
use chia_consensus::owned_conditions::OwnedSpendBundleConditions;
use serde_json::json;
use vcore::bundlegen::{gen_bundle, ABundle};
use vcore::conditions::{MFlags, MVisitor, ELIGIBLE_FOR_FF};
use vcore::report::run_cases;
use vcore::sx::Repr;
use vcore::{Args, Report, Rng};

/// order-insensitive view of a result: spends keyed by coin id, lists sorted,
/// the positionally defined fast-forward bit masked
fn normal(o: &OwnedSpendBundleConditions) -> OwnedSpendBundleConditions {
    let mut m = masked(o, false, ELIGIBLE_FOR_FF, false);
    m.agg_sig_unsafe.sort_by_key(|(pk, msg)| (pk.to_bytes(), msg.to_vec()));
    for s in &mut m.spends {
        for l in [
            &mut s.agg_sig_me,
            &mut s.agg_sig_parent,
            &mut s.agg_sig_puzzle,
            &mut s.agg_sig_amount,
            &mut s.agg_sig_puzzle_amount,
            &mut s.agg_sig_parent_amount,
            &mut s.agg_sig_parent_puzzle,
        ] {
            l.sort_by_key(|(pk, msg)| (pk.to_bytes(), msg.to_vec()));
        }
    }
    m.spends.sort_by_key(|s| s.coin_id);
    m
}

fn permuted(rng: &mut Rng, b: &ABundle) -> ABundle {
    let mut p = b.clone();
    match rng.below(3) {
        0 => rng.shuffle(&mut p.spends),
        1 => {
            for s in &mut p.spends {
                rng.shuffle(&mut s.conds);
            }
        }
        _ => {
            rng.shuffle(&mut p.spends);
            for s in &mut p.spends {
                rng.shuffle(&mut s.conds);
            }
        }
    }
    p
}

fn case(ctx: &Ctx, rng: &mut Rng, rep: &mut Report, params: &vcore::bundlegen::GenParams, perms: usize) {
    let b = gen_bundle(rng, params);
    let out = b.output();
    let sig = Signature::default();
    let visitor = if rng.bool() { MVisitor::Empty } else { MVisitor::Mempool };
    let cost_conditions = rng.bool();
    let max_cost = 11_000_000_000_000u64;

    // (a) strictness lattice through parse_spends
    let mut results: Vec<(u64, Result<OwnedSpendBundleConditions, String>)> = vec![];
    for bits in 0..8u64 {
        let f = MFlags {
            no_unknown_conds: bits & 1 != 0,
            strict_args: bits & 2 != 0,
            limit_spends: bits & 4 != 0,
            cost_conditions,
            dont_validate_signature: true,
        };
        let r = run_parse_spends(ctx, &out, Repr::Plain, rng, max_cost, f, visitor, &sig).map_err(|e| format!("{e:?}"));
        if let Ok(o) = &r {
            accept_invariants(rep, "parse_spends", o, Some(max_cost), None, &|| bundle_json(&b));
        }
        results.push((bits, r));
    }
    for (s, rs) in &results {
        let Ok(os) = rs else { continue };
        if *s == 7 {
            rep.count("accepted-under-full-strictness");
        }
        for (t, rt) in &results {
            if t & s != *t || t == s {
                continue; // t must be a proper subset of s
            }
            rep.eval();
            rep.count("lattice-pairs");
            let w = || json!({"bundle": bundle_json(&b), "strict": s, "relaxed": t, "cost_conditions": cost_conditions, "visitor": visitor_name(visitor)});
            match rt {
                Err(e) => rep.violation(
                    "c06-strict-accepts-relaxed-rejects",
                    &format!("accepted with strictness bits {s:#05b} but rejected with the subset {t:#05b}: {e}"),
                    w(),
                ),
                Ok(ot) => {
                    if let Some(d) = diff_owned(&masked(os, false, 0, false), &masked(ot, false, 0, false)) {
                        rep.violation(
                            &format!("c06-strictness-changes-summary:{}", diff_class(&d)),
                            &format!("summary under strictness {s:#05b} differs from subset {t:#05b}: {d}"),
                            w(),
                        );
                    }
                }
            }
        }
    }
    rep.cell(&format!("lattice:{}:{}", results.iter().filter(|r| r.1.is_ok()).count(), visitor_name(visitor)));

    // (b) reordering through parse_spends
    let f = MFlags {
        no_unknown_conds: rng.chance(1, 3),
        strict_args: rng.chance(1, 3),
        limit_spends: rng.bool(),
        cost_conditions,
        dont_validate_signature: true,
    };
    let base = run_parse_spends(ctx, &out, Repr::Plain, rng, max_cost, f, visitor, &sig);
    let base_n = base.as_ref().ok().map(normal);
    for _ in 0..perms {
        let p = permuted(rng, &b);
        let r = run_parse_spends(ctx, &p.output(), Repr::Plain, rng, max_cost, f, visitor, &sig);
        rep.eval();
        rep.count("permutation-pairs");
        let w = || json!({"original": bundle_json(&b), "permuted": bundle_json(&p), "flags": flags_name(f), "visitor": visitor_name(visitor)});
        match (&base_n, &r) {
            (Some(bn), Ok(o)) => {
                rep.count("permutation-pairs-accepted");
                if let Some(d) = diff_owned(bn, &normal(o)) {
                    rep.violation(&format!("c06-order-changes-summary:{}", diff_class(&d)), &d, w());
                }
                // cost does not depend on order, so the permuted bundle must also pass when given
                // exactly the original order's cost as its limit
                let exact = run_parse_spends(ctx, &p.output(), Repr::Plain, rng, bn.cost, f, visitor, &sig);
                rep.eval();
                rep.count("permutation-pairs-at-exact-cost");
                if let Err(e) = exact {
                    rep.violation(
                        "c06-order-changes-verdict:at-exact-cost",
                        &format!("the original order costs {} and is accepted; a reordering is rejected at that limit with {e:?}", bn.cost),
                        w(),
                    );
                }
            }
            (None, Err(_)) => {}
            (Some(_), Err(e)) => rep.violation("c06-order-changes-verdict", &format!("original order accepted, permuted order rejected with {e:?}"), w()),
            (None, Ok(_)) => rep.violation("c06-order-changes-verdict", "original order rejected, permuted order accepted", w()),
        }
    }
    rep.cell(&format!("perm:{}:{}:{}", b.spends.len().min(4), base.is_ok(), flags_name(f)));

    // (c) the same two relations through the mempool entry point
    if b.as_spendbundle_ok() && rng.chance(1, 2) {
        let run = |bb: &ABundle, fl: ConsensusFlags| run_sb(ctx, &spend_bundle(bb, &sig), max_cost, fl).map(|x| x.0);
        let mut fl = ConsensusFlags::DONT_VALIDATE_SIGNATURE;
        if cost_conditions {
            fl |= ConsensusFlags::COST_CONDITIONS;
        }
        let strict = fl | ConsensusFlags::NO_UNKNOWN_CONDS | ConsensusFlags::STRICT_ARGS_COUNT | ConsensusFlags::LIMIT_SPENDS;
        let rs = run(&b, strict);
        let rr = run(&b, fl);
        rep.eval();
        let w = || json!({"bundle": bundle_json(&b), "entry": "run_spendbundle", "flags": format!("{fl:?}")});
        if let Ok(os) = &rs {
            rep.count("sb-accepted-strict");
            match &rr {
                Err(e) => rep.violation("c06-strict-accepts-relaxed-rejects", &format!("run_spendbundle: {e:?}"), w()),
                Ok(or) => {
                    if let Some(d) = diff_owned(&masked(os, false, 0, false), &masked(or, false, 0, false)) {
                        rep.violation(&format!("c06-strictness-changes-summary:{}", diff_class(&d)), &d, w());
                    }
                }
            }
        }
        let _ = mflags_of(fl);
        let p = permuted(rng, &b);
        let rp = run(&p, fl);
        rep.eval();
        rep.count("sb-permutation-pairs");
        match (&rr, &rp) {
            (Ok(a), Ok(c)) => {
                // the byte cost of the generator does not depend on order, execution cost of these puzzles neither
                if let Some(d) = diff_owned(&normal(a), &normal(c)) {
                    rep.violation(&format!("c06-order-changes-summary:{}", diff_class(&d)), &format!("run_spendbundle: {d}"), json!({"original": bundle_json(&b), "permuted": bundle_json(&p)}));
                }
            }
            (Err(_), Err(_)) => {}
            _ => rep.violation("c06-order-changes-verdict", "run_spendbundle verdict depends on order", json!({"original": bundle_json(&b), "permuted": bundle_json(&p)})),
        }
    }
}

pub fn run(args: &Args, rep: &mut Report) {
    let ctx = Ctx::new();
    let n = args.cases(40_000, 800_000);
    let mut params = crate::c01::gen_params(&ctx, 30);
    params.max_conds = 6;
    let perms = if args.thorough() { 8 } else { 5 };
    run_cases(args, "c06", n, rep, |_i, rng, rep| case(&ctx, rng, rep, &params, perms));
}
