//! C08 — what the mempool validated is what the block yields.

use crate::c07::reveals_of;
use crate::common::*;
use crate::entry::*;
use chia_bls::Signature;
use chia_consensus::build_compressed_block::BlockBuilder;
use chia_consensus::build_interned_block::InternedBlockBuilder;
use chia_consensus::flags::{ConsensusFlags, MEMPOOL_MODE};
use chia_consensus::owned_conditions::OwnedSpendBundleConditions;
use chia_consensus::solution_generator::{calculate_generator_length, solution_generator, solution_generator_backrefs};
use chia_protocol::SpendBundle;
use chia_traits::Streamable;
use serde_json::{json, Value};
use vcore::bundlegen::gen_bundle;
use vcore::report::run_cases;
use vcore::{hx, Args, Report, Rng, Sx};

pub fn load_recorded_bundles() -> Vec<(String, SpendBundle)> {
    let mut names: Vec<String> = std::fs::read_dir("/repo/test-bundles")
        .map(|d| d.filter_map(|e| e.ok()).filter_map(|e| e.file_name().into_string().ok()).filter(|n| n.ends_with(".bundle")).collect())
        .unwrap_or_default();
    names.sort();
    let mut v = vec![];
    for n in names {
        if let Ok(bytes) = std::fs::read(format!("/repo/test-bundles/{n}")) {
            if let Ok(sb) = SpendBundle::from_bytes(&bytes) {
                v.push((n, sb));
            }
        }
    }
    v
}

/// the property's precondition, decided by the model: every reveal and solution is a
/// canonical plain serialization and the declared puzzle hash is the reveal's tree hash
pub fn precondition(sb: &SpendBundle) -> bool {
    sb.coin_spends.iter().all(|cs| {
        let (Some((p, pl)), Some((s, sl))) = (Sx::deserialize(cs.puzzle_reveal.as_slice()), Sx::deserialize(cs.solution.as_slice())) else {
            return false;
        };
        pl == cs.puzzle_reveal.len()
            && sl == cs.solution.len()
            && p.serialize() == cs.puzzle_reveal.as_slice()
            && s.serialize() == cs.solution.as_slice()
            && p.tree_hash() == cs.coin.puzzle_hash.to_bytes()
    })
}

/// view in which the two paths must agree: per coin id, visitor-specific fields masked
fn view(o: &OwnedSpendBundleConditions) -> OwnedSpendBundleConditions {
    let mut m = masked(o, true, 1 | 4, true);
    for s in &mut m.spends {
        s.fingerprint = chia_protocol::Bytes::default();
    }
    m.spends.sort_by_key(|s| s.coin_id);
    // the bundle-level list follows spend order, and the generator forms list the spends in reverse
    m.agg_sig_unsafe.sort_by_key(|(pk, msg)| (pk.to_bytes(), msg.to_vec()));
    m
}

pub fn check_bundle(ctx: &Ctx, rng: &mut Rng, rep: &mut Report, name: &str, sb: &SpendBundle, witness: &dyn Fn() -> Value, reveals: Option<&std::collections::HashMap<[u8; 32], [u8; 32]>>) {
    if !precondition(sb) {
        rep.count("skipped:outside-precondition");
        return;
    }
    let cpb = ctx.consts.cost_per_byte;
    let limit = 1u64 << 62;
    let spends: Vec<_> = sb.coin_spends.iter().map(|cs| (cs.coin, cs.puzzle_reveal.as_slice(), cs.solution.as_slice())).collect();
    let plain = solution_generator(spends.clone()).expect("solution_generator");
    let backrefs = solution_generator_backrefs(spends).expect("solution_generator_backrefs");

    // the predicted length is what admission uses for fee-per-cost
    rep.eval();
    let predicted = calculate_generator_length(&sb.coin_spends);
    for cs in &sb.coin_spends {
        rep.cell(&format!("amount-len:{}", vcore::ints::minimal_be_u64(cs.coin.amount).len()));
        rep.count(&format!("amount-len:{}", vcore::ints::minimal_be_u64(cs.coin.amount).len()));
    }
    if predicted != plain.len() {
        rep.violation(
            "c08-predicted-generator-length",
            &format!("calculate_generator_length = {predicted}, actual plain generator = {} bytes", plain.len()),
            witness(),
        );
    }

    // which of the small atoms a tree-interning cost can de-duplicate against are absent from the
    // whole bundle (reveals, solutions, coin amounts)
    {
        let mut present = [false; 3];
        let mut stack: Vec<Sx> = vec![];
        for cs in &sb.coin_spends {
            stack.extend(Sx::deserialize(cs.puzzle_reveal.as_slice()).map(|x| x.0));
            stack.extend(Sx::deserialize(cs.solution.as_slice()).map(|x| x.0));
            stack.push(Sx::atom(&vcore::ints::minimal_be_u64(cs.coin.amount)));
        }
        while let Some(x) = stack.pop() {
            match x.as_atom() {
                Some(a) => {
                    if a.is_empty() {
                        present[0] = true;
                    } else if a == [1] {
                        present[1] = true;
                    } else if a == [4] {
                        present[2] = true;
                    }
                }
                None => {
                    stack.extend(x.first().cloned());
                    stack.extend(x.rest().cloned());
                }
            }
        }
        for (i, n) in ["nil", "1", "4"].iter().enumerate() {
            if !present[i] && !sb.coin_spends.is_empty() {
                rep.count(&format!("bundle-without-atom:{n}"));
            }
        }
    }

    let flag_sets = [
        ConsensusFlags::empty(),
        ConsensusFlags::COST_CONDITIONS,
        ConsensusFlags::INTERNED_GENERATOR,
        ConsensusFlags::COST_CONDITIONS | ConsensusFlags::INTERNED_GENERATOR,
    ];
    let base = *rng.pick(&flag_sets);
    let mempool = rng.bool();
    let flags = base | ConsensusFlags::DONT_VALIDATE_SIGNATURE | if mempool { MEMPOOL_MODE } else { ConsensusFlags::empty() };
    let interned = flags.contains(ConsensusFlags::INTERNED_GENERATOR);

    let direct = run_sb(ctx, sb, limit, flags).map(|x| x.0);
    if let Ok(o) = &direct {
        accept_invariants(rep, "run_spendbundle", o, Some(limit), reveals, witness);
    }

    // truthful cost for the builders: execution + conditions of the direct run
    let truthful = direct.as_ref().ok().map(|o| o.execution_cost + o.condition_cost);
    let mut forms: Vec<(&str, Vec<u8>, Option<u64>)> = vec![("plain", plain.clone(), None), ("backrefs", backrefs, None)];
    if let Some(t) = truthful {
        if !interned {
            if let Ok(mut bb) = BlockBuilder::new() {
                let mut big = ctx.consts.clone();
                big.max_block_cost_clvm = 1 << 60;
                if let Ok((true, _)) = bb.add_spend_bundles([sb], t, &big) {
                    if let Ok((g, _, c)) = bb.finalize(&big) {
                        forms.push(("block-builder", g, Some(c)));
                    }
                }
            }
        } else {
            let mut big = ctx.consts.clone();
            big.max_block_cost_clvm = 1 << 60;
            let mut ib = InternedBlockBuilder::new(&big);
            if let Ok((true, _)) = ib.add_spend_bundles([sb], t) {
                if let Ok((g, _, c)) = ib.finalize() {
                    forms.push(("interned-builder", g, Some(c)));
                }
            }
        }
    }

    for (form, program, builder_cost) in &forms {
        let r = rbg2(ctx, program, &[], limit, flags, &Signature::default(), None);
        rep.eval();
        rep.count(&format!("form:{form}"));
        rep.cell(&format!("{form}:{}:{}:{}:spends{}", flags.bits() >> 16, direct.is_ok(), r.is_ok(), sb.coin_spends.len().min(6)));
        let w = || json!({"bundle": witness(), "form": form, "generator": hx(&program[..program.len().min(4000)]), "flags": format!("{flags:?}"), "name": name});
        match (&direct, &r) {
            (Ok(d), Ok(g)) => {
                rep.count("both-accept");
                accept_invariants(rep, "run_block_generator2", g, Some(limit), reveals, &w);
                if let Some(diff) = diff_owned(&view(d), &view(g)) {
                    rep.violation(&format!("c08-conditions-differ:{form}:{}", diff_class(&diff)), &diff, w());
                }
                if *form == "plain" {
                    let want = if interned { 20 } else { 2 * cpb + 20 };
                    if g.cost != d.cost + want {
                        rep.violation(
                            if interned { "c08-quote-overhead:interned" } else { "c08-quote-overhead:bytes" },
                            &format!("generator cost {} - direct cost {} != fixed quote overhead {want}", g.cost, d.cost),
                            w(),
                        );
                    }
                    if g.execution_cost != d.execution_cost + 20 {
                        rep.violation("c08-quote-overhead:execution", &format!("execution {} vs direct {} + 20", g.execution_cost, d.execution_cost), w());
                    }
                }
                if let Some(c) = builder_cost {
                    if *c != g.cost {
                        rep.violation(
                            &format!("c08-builder-cost:{form}"),
                            &format!("builder returned cost {c}, consensus charges {} for its generator", g.cost),
                            w(),
                        );
                    }
                }
            }
            (Err(_), Err(_)) => rep.count("both-reject"),
            (Ok(_), Err(e)) => rep.violation(
                &format!("c08-mempool-accepts-block-rejects:{form}:{}", err_name(e)),
                &format!("run_spendbundle accepted, run_block_generator2({form}) rejected with {e:?}"),
                w(),
            ),
            (Err(e), Ok(_)) => rep.violation(
                &format!("c08-mempool-rejects-block-accepts:{form}:{}", err_name(e)),
                &format!("run_spendbundle rejected with {e:?}, run_block_generator2({form}) accepted"),
                w(),
            ),
        }
    }
    if rep.want_sample() {
        rep.sample(json!({"name": name, "flags": format!("{flags:?}"), "direct": direct.as_ref().map(|o| o.cost).map_err(err_name), "plain_len": plain.len()}));
    }
}

pub fn run(args: &Args, rep: &mut Report) {
    let ctx = Ctx::new();
    let n = args.cases(25_000, 400_000);
    let recorded = load_recorded_bundles();
    let mut params = crate::c01::gen_params(&ctx, 20);
    params.max_conds = 6;
    rep.set_extra("recorded_bundles", json!(recorded.len()));
    run_cases(args, "c08", n, rep, |i, rng, rep| {
        let reps = if args.thorough() { 4 } else { 2 };
        if (i as usize) < recorded.len() * reps {
            let (name, sb) = &recorded[i as usize % recorded.len()];
            rep.count("recorded-bundle-cases");
            check_bundle(&ctx, rng, rep, name, sb, &|| json!({"recorded_bundle": name}), None);
            return;
        }
        let b = if i % 3000 == 1777 {
            let n = *rng.pick(&[5999usize, 6000, 6001]);
            rep.count(&format!("spend-limit-stratum:{n}"));
            vcore::bundlegen::many_spends(rng, n)
        } else {
            gen_bundle(rng, &params)
        };
        if !b.as_spendbundle_ok() {
            rep.count("skipped:malformed-coin-fields");
            return;
        }
        let sb = spend_bundle(&b, &Signature::default());
        let reveals = reveals_of(&b);
        check_bundle(&ctx, rng, rep, "generated", &sb, &|| bundle_json(&b), Some(&reveals));
    });
}
