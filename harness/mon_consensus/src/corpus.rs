//! The recorded generators in /repo/generator-tests: (a) calibration of the
//! reference model against the *recorded expected text* (ground truth that
//! does not come from the current implementation), (b) the same generators
//! through the real entry points, judged by the model.

use crate::common::*;
use chia_bls::Signature;
use chia_consensus::consensus_constants::TEST_CONSTANTS;
use chia_consensus::flags::{ConsensusFlags, MEMPOOL_MODE};
use chia_consensus::owned_conditions::OwnedSpendBundleConditions;
use chia_consensus::run_block_generator::run_block_generator2;
use clvmr::allocator::{Allocator, NodePtr, SExp};
use clvmr::chia_dialect::ChiaDialect;
use clvmr::reduction::Reduction;
use clvmr::run_program::run_program;
use clvmr::serde::{node_from_bytes, node_from_bytes_backrefs};
use serde_json::json;
use std::fmt::Write;
use vcore::conditions::{evaluate, MBundle, MConstants, MFlags, MVisitor, Verdict};
use vcore::{hx, Report, Sx};

pub struct CorpusFile {
    pub name: String,
    pub generator: Vec<u8>,
    pub refs: Vec<Vec<u8>>,
    pub expected: [String; 2],
}

pub fn test_mconsts() -> MConstants {
    let c = &TEST_CONSTANTS;
    MConstants {
        me: c.agg_sig_me_additional_data.to_vec(),
        parent: c.agg_sig_parent_additional_data.to_vec(),
        puzzle: c.agg_sig_puzzle_additional_data.to_vec(),
        amount: c.agg_sig_amount_additional_data.to_vec(),
        puzzle_amount: c.agg_sig_puzzle_amount_additional_data.to_vec(),
        parent_amount: c.agg_sig_parent_amount_additional_data.to_vec(),
        parent_puzzle: c.agg_sig_parent_puzzle_additional_data.to_vec(),
    }
}

pub fn load_corpus(max_hex_len: usize) -> Vec<CorpusFile> {
    let dir = "/repo/generator-tests";
    let mut names: Vec<String> = std::fs::read_dir(dir)
        .map(|d| {
            d.filter_map(|e| e.ok())
                .filter_map(|e| e.file_name().into_string().ok())
                .filter(|n| n.ends_with(".txt"))
                .collect()
        })
        .unwrap_or_default();
    names.sort();
    let mut out = vec![];
    for n in names {
        let Ok(text) = std::fs::read_to_string(format!("{dir}/{n}")) else { continue };
        if text.trim().is_empty() {
            continue; // emptied in this snapshot
        }
        let Some((g, expected)) = text.split_once('\n') else { continue };
        if g.len() > max_hex_len {
            continue;
        }
        let Ok(generator) = hex::decode(g.trim()) else { continue };
        let expected = match expected.split_once("STRICT:\n") {
            Some((c, m)) => [c.to_string(), m.to_string()],
            None => [expected.to_string(), expected.to_string()],
        };
        let stem = n.trim_end_matches(".txt").to_string();
        let mut refs = vec![];
        if let Ok(env) = std::fs::read_to_string(format!("{dir}/{stem}.env")) {
            if let Ok(b) = hex::decode(env.trim()) {
                refs.push(b);
            }
        }
        out.push(CorpusFile { name: stem, generator, refs, expected });
    }
    out
}

/// Run a generator with clvmr (trusted interpreter) the way the consensus
/// rules describe and return the output tree ((parent puzzle_hash amount conditions) ...)
/// with puzzle hashes from the model's tree hash. Err = CLVM-level failure.
pub fn generator_output(generator: &[u8], refs: &[Vec<u8>], clvm_flags: clvmr::chia_dialect::ClvmFlags, node_cap: usize) -> Result<Sx, String> {
    // the harness's own CLVM budget: small node caps (quick tier) also bound the time spent here
    let budget: u64 = if node_cap < 2_000_000 { 1_500_000_000 } else { 11_000_000_000 };
    let over = |e: clvmr::error::EvalErr, what: &str| -> String {
        if budget < 11_000_000_000 && matches!(e, clvmr::error::EvalErr::CostExceeded) { "too-large".to_string() } else { format!("{what}: {e:?}") }
    };
    let mut a = Allocator::new();
    let program = node_from_bytes_backrefs(&mut a, generator).map_err(|e| format!("deserialize: {e:?}"))?;
    let deser = node_from_bytes(&mut a, &chia_puzzles::CHIALISP_DESERIALISATION).map_err(|e| format!("{e:?}"))?;
    let mut blocks = a.nil();
    for r in refs.iter().rev() {
        let n = a.new_atom(r).map_err(|e| format!("{e:?}"))?;
        blocks = a.new_pair(n, blocks).map_err(|e| format!("{e:?}"))?;
    }
    let nil = a.nil();
    let args = a.new_pair(blocks, nil).map_err(|e| format!("{e:?}"))?;
    let args = a.new_pair(deser, args).map_err(|e| format!("{e:?}"))?;
    let dialect = ChiaDialect::new(clvm_flags);
    let Reduction(_, result) =
        run_program(&mut a, &dialect, program, args, budget).map_err(|e| over(e, "generator"))?;
    let SExp::Pair(mut iter, _) = a.sexp(result) else {
        return Err("generator returned an atom".into());
    };
    let mut spends: Vec<Sx> = vec![];
    let term;
    loop {
        match a.sexp(iter) {
            SExp::Atom => {
                term = Sx::atom(a.atom(iter).as_ref());
                break;
            }
            SExp::Pair(spend, rest) => {
                iter = rest;
                let f = fields4(&a, spend).ok_or("spend with fewer than four fields")?;
                let Reduction(_, conds) =
                    run_program(&mut a, &dialect, f[1], f[3], budget).map_err(|e| over(e, "puzzle"))?;
                if a.pair_count() > node_cap {
                    return Err("too-large".into());
                }
                let too = || "too-large".to_string();
                let ph = Sx::from_node_capped(&a, f[1], node_cap).ok_or_else(too)?.tree_hash();
                spends.push(Sx::list_term(
                    &[
                        Sx::from_node_capped(&a, f[0], 1000).ok_or_else(too)?,
                        Sx::atom(&ph),
                        Sx::from_node_capped(&a, f[2], 1000).ok_or_else(too)?,
                        Sx::from_node_capped(&a, conds, node_cap).ok_or_else(too)?,
                    ],
                    Sx::nil(),
                ));
                if spends.len() > node_cap / 50 {
                    return Err(too());
                }
            }
        }
    }
    Ok(Sx::pair(Sx::list_term(&spends, term), Sx::nil()))
}

fn fields4(a: &Allocator, mut n: NodePtr) -> Option<[NodePtr; 4]> {
    let mut r = [a.nil(); 4];
    for slot in &mut r {
        let SExp::Pair(f, rest) = a.sexp(n) else { return None };
        *slot = f;
        n = rest;
    }
    Some(r)
}

/// the model's summary rendered like the recorded expectation files
/// (only the lines the condition rules determine)
pub fn render(m: &MBundle) -> String {
    let mut ret = String::new();
    if m.reserve_fee > 0 {
        writeln!(ret, "RESERVE_FEE: {}", m.reserve_fee).unwrap();
    }
    if m.height_absolute > 0 {
        writeln!(ret, "ASSERT_HEIGHT_ABSOLUTE {}", m.height_absolute).unwrap();
    }
    if m.seconds_absolute > 0 {
        writeln!(ret, "ASSERT_SECONDS_ABSOLUTE {}", m.seconds_absolute).unwrap();
    }
    if let Some(v) = m.before_seconds_absolute {
        writeln!(ret, "ASSERT_BEFORE_SECONDS_ABSOLUTE {v}").unwrap();
    }
    if let Some(v) = m.before_height_absolute {
        writeln!(ret, "ASSERT_BEFORE_HEIGHT_ABSOLUTE {v}").unwrap();
    }
    let mut u = m.agg_sig_unsafe.clone();
    u.sort();
    for (pk, msg) in u {
        writeln!(ret, "AGG_SIG_UNSAFE pk: {} msg: {}", hx(&pk), hx(&msg)).unwrap();
    }
    writeln!(ret, "SPENDS:").unwrap();
    let mut spends = m.spends.clone();
    spends.sort_by_key(|s| s.coin_id);
    for s in spends {
        writeln!(ret, "- coin id: {} ph: {} cond-cost: {}", hx(&s.coin_id), hx(&s.puzzle_hash), s.condition_cost).unwrap();
        if let Some(v) = s.height_relative {
            writeln!(ret, "  ASSERT_HEIGHT_RELATIVE {v}").unwrap();
        }
        if let Some(v) = s.seconds_relative {
            writeln!(ret, "  ASSERT_SECONDS_RELATIVE {v}").unwrap();
        }
        if let Some(v) = s.before_height_relative {
            writeln!(ret, "  ASSERT_BEFORE_HEIGHT_RELATIVE {v}").unwrap();
        }
        if let Some(v) = s.before_seconds_relative {
            writeln!(ret, "  ASSERT_BEFORE_SECONDS_RELATIVE {v}").unwrap();
        }
        for c in &s.create_coin {
            match &c.hint {
                None => writeln!(ret, "  CREATE_COIN: ph: {} amount: {}", hx(&c.puzzle_hash), c.amount).unwrap(),
                Some(h) => writeln!(ret, "  CREATE_COIN: ph: {} amount: {} hint: {}", hx(&c.puzzle_hash), c.amount, hx(h)).unwrap(),
            }
        }
        for (list, name) in [
            (&s.agg_sig_me, "AGG_SIG_ME"),
            (&s.agg_sig_parent, "AGG_SIG_PARENT"),
            (&s.agg_sig_puzzle, "AGG_SIG_PUZZLE"),
            (&s.agg_sig_amount, "AGG_SIG_AMOUNT"),
            (&s.agg_sig_puzzle_amount, "AGG_SIG_PUZZLE_AMOUNT"),
            (&s.agg_sig_parent_amount, "AGG_SIG_PARENT_AMOUNT"),
            (&s.agg_sig_parent_puzzle, "AGG_SIG_PARENT_PUZZLE"),
        ] {
            let mut l = list.clone();
            l.sort();
            for (pk, msg) in l {
                writeln!(ret, "  {name} pk: {} msg: {}", hx(&pk), hx(&msg)).unwrap();
            }
        }
    }
    writeln!(ret, "condition-cost: {}", m.condition_cost).unwrap();
    writeln!(ret, "removal_amount: {}", m.removal_amount).unwrap();
    writeln!(ret, "addition_amount: {}", m.addition_amount).unwrap();
    ret
}

/// strip from a recorded expectation the lines/fields the model does not determine
pub fn normalise_expected(e: &str) -> String {
    let mut out = String::new();
    for l in e.lines() {
        if l.starts_with("cost:") || l.starts_with("execution-cost:") || l.starts_with("atoms:")
            || l.starts_with("pairs:") || l.starts_with("heap:") || l.trim().is_empty()
        {
            continue;
        }
        if l.starts_with("- coin id:") {
            // drop "exe-cost: N "
            let parts: Vec<&str> = l.split(" exe-cost: ").collect();
            if parts.len() == 2 {
                let tail = parts[1].split_once(' ').map_or("", |x| x.1);
                out.push_str(parts[0]);
                out.push(' ');
                out.push_str(tail);
                out.push('\n');
                continue;
            }
        }
        out.push_str(l);
        out.push('\n');
    }
    out
}

pub fn calibrate_file(rep: &mut Report, f: &CorpusFile, node_cap: usize) {
    let mc = test_mconsts();
    let key_ok = |pk: &[u8]| {
        <[u8; 48]>::try_from(pk).is_ok_and(|a| chia_bls::PublicKey::from_bytes(&a).is_ok_and(|k| !k.is_inf()))
    };
    for (mode, expected) in f.expected.iter().enumerate() {
        let mempool = mode == 1;
        let mut cflags = if mempool { MEMPOOL_MODE } else { ConsensusFlags::empty() };
        let mut mflags = MFlags {
            no_unknown_conds: mempool,
            strict_args: mempool,
            cost_conditions: false,
            limit_spends: mempool,
            dont_validate_signature: true,
        };
        if f.name == "aa-million-messages" || f.name == "aa-million-message-spends" {
            cflags |= ConsensusFlags::COST_CONDITIONS;
            mflags.cost_conditions = true;
        }
        let out = generator_output(&f.generator, &f.refs, cflags.to_clvm_flags(), node_cap);
        let expect_fail = expected.trim_start().starts_with("FAILED");
        let tag = format!("{}:{}", f.name, if mempool { "strict" } else { "consensus" });
        let verdict = match &out {
            Err(e) if e == "too-large" => {
                rep.count("calibration:skipped-too-large");
                continue;
            }
            Err(_) => None,
            Ok(o) => Some(evaluate(o, mflags, MVisitor::Empty, &mc, 11_000_000_000, &key_ok)),
        };
        // (a) model vs recorded text: a disagreement here is a defect of the MODEL
        // (or of my reading of the format) and never a verdict about the code
        match (&verdict, expect_fail) {
            (None, true) => rep.count("calibration:clvm-failure-recorded-as-failed"),
            (None, false) => rep.harness_error(&format!("calibration {tag}: harness could not run the generator ({:?}) but the file records success", out.as_ref().err())),
            (Some(Verdict::Reject(_)), true) => rep.count("calibration:model-rejects-as-recorded"),
            (Some(Verdict::Reject(r)), false) => rep.harness_error(&format!("calibration {tag}: model rejects ({r}) but the file records success")),
            (Some(Verdict::Accept(_)), true) => {
                // recorded failure may be a cost/CLVM-limit failure the condition model does not see
                if expected.contains("CostExceeded") || expected.contains("clvm error") || expected.contains("Clvm") {
                    rep.count("calibration:recorded-failure-outside-model");
                } else {
                    rep.harness_error(&format!("calibration {tag}: model accepts but the file records {}", expected.lines().next().unwrap_or("")));
                }
            }
            (Some(Verdict::Accept(m)), false) => {
                let want = normalise_expected(expected);
                let got = render(m);
                if want == got {
                    rep.count("calibration:model-matches-recorded-text");
                } else {
                    let first = want.lines().zip(got.lines()).find(|(a, b)| a != b);
                    rep.harness_error(&format!("calibration {tag}: model text differs from recorded text; first differing line {first:?}"));
                }
            }
        }
        // (b) the real native path on the same generator, judged by the model
        if let Some(v) = verdict {
            let r = run_block_generator2(
                &f.generator,
                &f.refs,
                11_000_000_000,
                cflags | ConsensusFlags::DONT_VALIDATE_SIGNATURE,
                &Signature::default(),
                None,
                &TEST_CONSTANTS,
            );
            rep.eval();
            rep.cell(&format!("corpus:{tag}"));
            let witness = || json!({"corpus_file": f.name, "mode": if mempool {"strict"} else {"consensus"}});
            match (v, r) {
                (Verdict::Accept(m), Ok((a, c))) => {
                    let o = OwnedSpendBundleConditions::from(&a, c);
                    accept_invariants(rep, "run_block_generator2", &o, Some(11_000_000_000), None, &witness);
                    // spends may be listed in any order relative to the model? No: same order as the generator emits.
                    if let Some(d) = diff_bundles(&m, &owned_to_model(&o), 0, true) {
                        rep.violation(&format!("c01-corpus-summary:{}", diff_class(&d)), &format!("{tag}: {d}"), witness());
                    }
                    rep.count("corpus:accepted");
                }
                (Verdict::Reject(_), Err(_)) => rep.count("corpus:rejected"),
                (Verdict::Accept(_), Err(e)) => {
                    // the model does not see CLVM cost: a cost failure of the real path is not a disagreement
                    let es = format!("{e:?}");
                    if es.contains("CostExceeded") || es.contains("Clvm") {
                        rep.count("corpus:cost-or-clvm-failure");
                    } else {
                        rep.violation("c01-corpus-verdict:rules-accept-implementation-rejects", &format!("{tag}: {es}"), witness());
                    }
                }
                (Verdict::Reject(r), Ok(_)) => {
                    rep.violation("c01-corpus-verdict:rules-reject-implementation-accepts", &format!("{tag}: rules say {r}"), witness());
                }
            }
        }
    }
}
