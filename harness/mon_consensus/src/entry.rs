//! Uniform wrappers around the real entry points, and the generator /
//! spend-bundle forms derived from an abstract bundle.

use crate::common::*;
use chia_bls::{BlsCache, PublicKey, Signature};
use chia_consensus::flags::ConsensusFlags;
use chia_consensus::owned_conditions::OwnedSpendBundleConditions;
use chia_consensus::run_block_generator::{run_block_generator, run_block_generator2};
use chia_consensus::spendbundle_conditions::run_spendbundle;
use chia_consensus::validation_error::{ErrorCode, ValidationErr};
use chia_protocol::{Bytes, Bytes32, Coin, CoinSpend, Program, SpendBundle};
use clvmr::error::EvalErr;
use clvmr::serde::node_to_bytes_backrefs;
use clvmr::Allocator;
use vcore::bundlegen::{puzzle, ABundle};
use vcore::sx::{Repr, Sx};
use vcore::Rng;

pub type Outcome = Result<OwnedSpendBundleConditions, ValidationErr>;

pub fn coin_spends(b: &ABundle) -> Vec<CoinSpend> {
    b.spends
        .iter()
        .map(|s| {
            CoinSpend::new(
                Coin::new(Bytes32::new(s.parent), Bytes32::new(s.puzzle_hash), s.amount),
                Program::new(puzzle(s.puzzle_idx).serialize().into()),
                Program::new(s.solution().serialize().into()),
            )
        })
        .collect()
}

pub fn spend_bundle(b: &ABundle, sig: &Signature) -> SpendBundle {
    SpendBundle::new(coin_spends(b), sig.clone())
}

fn spend_entry(s: &vcore::bundlegen::ASpend) -> Sx {
    let fields = [s.parent_atom.clone(), puzzle(s.puzzle_idx), s.amount_atom.clone(), s.solution()];
    Sx::list_term(&fields[..s.fields], s.spend_ext.clone())
}

/// the bundle without the optional extension fields (what a SpendBundle can express)
pub fn strip_ext(b: &ABundle) -> ABundle {
    let mut n = b.clone();
    n.outer_ext = Sx::nil();
    for s in &mut n.spends {
        s.spend_ext = Sx::nil();
    }
    n
}

/// `(q . ((spend ...) . ext))`
pub fn quoted_generator(b: &ABundle) -> Sx {
    let spends: Vec<Sx> = b.spends.iter().map(spend_entry).collect();
    Sx::pair(Sx::atom(&[1]), Sx::pair(Sx::list_term(&spends, b.spend_term.clone()), b.outer_ext.clone()))
}

/// a program that *computes* the same value with `c`: (c (c (q . s1) (c (q . s2) (q . term))) (q . ext))
pub fn procedural_generator(b: &ABundle) -> Sx {
    let q = |x: Sx| Sx::pair(Sx::atom(&[1]), x);
    let c = |x: Sx, y: Sx| Sx::list(&[Sx::atom(&[4]), x, y]);
    let mut l = q(b.spend_term.clone());
    for s in b.spends.iter().rev() {
        l = c(q(spend_entry(s)), l);
    }
    c(l, q(b.outer_ext.clone()))
}

/// A CLVM program that *evaluates to* `x`, with some atoms produced at run time instead of quoted:
/// empty atoms by `(substr (q . "hello") (q . 5))` (a zero-length heap atom, not the canonical nil
/// node), longer atoms by `(concat (q . head) (q . tail))`, pairs by `(c l r)`. The value is the
/// same; only its in-memory representation inside the interpreter differs.
pub fn computed_program(x: &Sx, rng: &mut Rng, depth: u32) -> Sx {
    let q = |v: Sx| Sx::pair(Sx::atom(&[1]), v);
    match x {
        Sx::Atom(b) => {
            if b.is_empty() && rng.chance(1, 2) {
                Sx::list(&[Sx::atom(&[12]), q(Sx::atom(b"hello")), q(Sx::atom(&[5]))])
            } else if b.len() >= 2 && rng.chance(1, 3) {
                let cut = 1 + rng.usize(b.len() - 1);
                Sx::list(&[Sx::atom(&[14]), q(Sx::atom(&b[..cut])), q(Sx::atom(&b[cut..]))])
            } else {
                q(x.clone())
            }
        }
        Sx::Pair(l, r) => {
            // keep the program small: below a certain depth, or at random, quote the whole subtree
            if depth > 9 || rng.chance(1, 5) {
                q(x.clone())
            } else {
                Sx::list(&[Sx::atom(&[4]), computed_program(l, rng, depth + 1), computed_program(r, rng, depth + 1)])
            }
        }
    }
}

/// the value a generator built from `b` must return: ((spend ...) . ext)
pub fn generator_value(b: &ABundle) -> Sx {
    let spends: Vec<Sx> = b.spends.iter().map(spend_entry).collect();
    Sx::pair(Sx::list_term(&spends, b.spend_term.clone()), b.outer_ext.clone())
}

pub fn serialize_backrefs(x: &Sx) -> Vec<u8> {
    let mut a = Allocator::new();
    let mut rng = Rng::new(0);
    let n = x.to_node(&mut a, Repr::Plain, &mut rng);
    node_to_bytes_backrefs(&a, n).expect("backrefs")
}

/// the raw output the rules see for a generator built from `b`: the puzzle
/// hash is always the tree hash of the revealed puzzle on these paths
pub fn output_for_generator(b: &ABundle) -> Sx {
    let mut n = b.clone();
    for s in &mut n.spends {
        s.puzzle_hash_atom = Sx::atom(&s.puzzle_hash);
    }
    n.output()
}

pub fn rbg1(ctx: &Ctx, program: &[u8], refs: &[Vec<u8>], max_cost: u64, flags: ConsensusFlags, sig: &Signature, cache: Option<&BlsCache>) -> Outcome {
    run_block_generator(program, refs, max_cost, flags, sig, cache, &ctx.consts)
        .map(|(a, c)| OwnedSpendBundleConditions::from(&a, c))
}

pub fn rbg2(ctx: &Ctx, program: &[u8], refs: &[Vec<u8>], max_cost: u64, flags: ConsensusFlags, sig: &Signature, cache: Option<&BlsCache>) -> Outcome {
    run_block_generator2(program, refs, max_cost, flags, sig, cache, &ctx.consts)
        .map(|(a, c)| OwnedSpendBundleConditions::from(&a, c))
}

#[allow(clippy::type_complexity)]
pub fn run_sb(ctx: &Ctx, sb: &SpendBundle, max_cost: u64, flags: ConsensusFlags) -> Result<(OwnedSpendBundleConditions, Vec<(PublicKey, Bytes)>), ValidationErr> {
    let mut a = chia_consensus::allocator::make_allocator(ConsensusFlags::LIMIT_HEAP);
    run_spendbundle(&mut a, sb, max_cost, flags, &ctx.consts).map(|(c, p)| (OwnedSpendBundleConditions::from(&a, c), p))
}

/// errors the legacy path may raise on a program the native path completes
pub fn is_resource_error(e: &ValidationErr) -> bool {
    matches!(
        e,
        ValidationErr::Err(ErrorCode::CostExceeded)
            | ValidationErr::Eval(
                EvalErr::OutOfMemory
                    | EvalErr::TooManyPairs
                    | EvalErr::TooManyAtoms
                    | EvalErr::CostExceeded
                    | EvalErr::ValueStackLimitReached(_)
                    | EvalErr::EnvironmentStackLimitReached(_)
            )
    )
}

pub fn err_name(e: &ValidationErr) -> String {
    match e {
        ValidationErr::Err(c) => format!("{c:?}"),
        ValidationErr::Eval(e) => {
            let s = format!("{e:?}");
            s.split(['(', ' ']).next().unwrap_or("Eval").to_string()
        }
    }
}

/// copy with the fields that legitimately differ between two paths cleared
pub fn masked(o: &OwnedSpendBundleConditions, mask_costs: bool, mask_flag_bits: u32, mask_sig: bool) -> OwnedSpendBundleConditions {
    let mut m = o.clone();
    m.num_atoms = 0;
    m.num_pairs = 0;
    m.heap_size = 0;
    if mask_costs {
        m.cost = 0;
        m.execution_cost = 0;
    }
    if mask_sig {
        m.validated_signature = false;
    }
    for s in &mut m.spends {
        if mask_costs {
            s.execution_cost = 0;
        }
        s.flags &= !mask_flag_bits;
        if mask_flag_bits & 1 != 0 {
            s.fingerprint = Bytes::default();
        }
        s.create_coin.sort();
    }
    m
}

/// first differing field between two (masked) results, by name
pub fn diff_owned(a: &OwnedSpendBundleConditions, b: &OwnedSpendBundleConditions) -> Option<String> {
    if a == b {
        return None;
    }
    macro_rules! f {
        ($n:ident) => {
            if a.$n != b.$n {
                return Some(format!("{}: {:?} vs {:?}", stringify!($n), a.$n, b.$n));
            }
        };
    }
    f!(reserve_fee);
    f!(height_absolute);
    f!(seconds_absolute);
    f!(before_height_absolute);
    f!(before_seconds_absolute);
    f!(agg_sig_unsafe);
    f!(cost);
    f!(removal_amount);
    f!(addition_amount);
    f!(validated_signature);
    f!(execution_cost);
    f!(condition_cost);
    if a.spends.len() != b.spends.len() {
        return Some(format!("spends: {} vs {}", a.spends.len(), b.spends.len()));
    }
    for (i, (x, y)) in a.spends.iter().zip(b.spends.iter()).enumerate() {
        if x != y {
            macro_rules! g {
                ($n:ident) => {
                    if x.$n != y.$n {
                        return Some(format!("spend[{i}].{}: {:?} vs {:?}", stringify!($n), x.$n, y.$n));
                    }
                };
            }
            g!(coin_id);
            g!(parent_id);
            g!(puzzle_hash);
            g!(coin_amount);
            g!(height_relative);
            g!(seconds_relative);
            g!(before_height_relative);
            g!(before_seconds_relative);
            g!(birth_height);
            g!(birth_seconds);
            g!(create_coin);
            g!(agg_sig_me);
            g!(agg_sig_parent);
            g!(agg_sig_puzzle);
            g!(agg_sig_amount);
            g!(agg_sig_puzzle_amount);
            g!(agg_sig_parent_amount);
            g!(agg_sig_parent_puzzle);
            g!(flags);
            g!(execution_cost);
            g!(condition_cost);
            g!(fingerprint);
        }
    }
    Some("unknown field".into())
}
