//! C04 — the cost charged equals the consensus cost table and the limit is exact.

use crate::c07::{mflags_of, reveals_of};
use crate::common::*;
use crate::entry::*;
use chia_bls::Signature;
use chia_consensus::flags::{ConsensusFlags, MEMPOOL_MODE};
use chia_consensus::validation_error::{ErrorCode, ValidationErr};
use clvmr::chia_dialect::{ChiaDialect, ClvmFlags};
use clvmr::reduction::Reduction;
use clvmr::run_program::run_program;
use clvmr::Allocator;
use serde_json::{json, Value};
use vcore::bundlegen::{gen_bundle, puzzle, ABundle};
use vcore::conditions::{evaluate, MVisitor, Verdict};
use vcore::report::run_cases;
use vcore::sx::{Repr, Sx};
use vcore::{Args, Report, Rng};

/// CLVM cost of running `program` on `env`, measured with clvmr itself
pub fn measured_cost(program: &Sx, env: &Sx, clvm_flags: ClvmFlags) -> Option<u64> {
    let mut a = Allocator::new();
    let p = program.to_node_plain(&mut a);
    let e = env.to_node_plain(&mut a);
    let d = ChiaDialect::new(clvm_flags);
    run_program(&mut a, &d, p, e, 11_000_000_000).ok().map(|Reduction(c, _)| c)
}

fn is_cost_exceeded(e: &ValidationErr) -> bool {
    matches!(e, ValidationErr::Err(ErrorCode::CostExceeded))
}

/// limit exactness around a known total
#[allow(clippy::too_many_arguments)]
fn check_limits(
    rep: &mut Report,
    rng: &mut Rng,
    entry: &str,
    total: u64,
    base_plus_exec: u64,
    base: u64,
    full: &chia_consensus::owned_conditions::OwnedSpendBundleConditions,
    cuts: &[u64],
    run: &dyn Fn(u64) -> Outcome,
    witness: &dyn Fn() -> Value,
) {
    let at = run(total);
    rep.eval();
    match &at {
        Ok(o) => {
            if masked(o, false, 0, false) != masked(full, false, 0, false) {
                rep.violation(
                    &format!("c04-limit:result-changes-with-limit:{entry}"),
                    "result at limit == total differs from the result at an ample limit",
                    witness(),
                );
            }
            rep.count("limit:at-total-ok");
        }
        Err(e) => rep.violation(
            &format!("c04-limit:fails-at-exact-total:{entry}"),
            &format!("validation with max_cost == reported cost {total} failed with {e:?}"),
            witness(),
        ),
    }
    let mut smaller = vec![];
    if total > 0 {
        smaller.push(total - 1);
        smaller.push(rng.below(total));
        smaller.push(0);
    }
    if base_plus_exec > 0 && base_plus_exec <= total {
        smaller.push(base_plus_exec - 1);
    }
    if base > 0 {
        smaller.push(base - 1);
    }
    // partial sums of the cost components (where an implementation's remaining budget is exactly
    // zero between two charges), a sample of them and their lower neighbours
    let mut cs: Vec<u64> = cuts.iter().copied().filter(|c| *c < total).collect();
    cs.sort_unstable();
    cs.dedup();
    rng.shuffle(&mut cs);
    for c in cs.into_iter().take(10) {
        rep.count("limit:partial-sum-cut");
        smaller.push(c);
        if c > 0 && rng.chance(1, 3) {
            smaller.push(c - 1);
        }
    }
    smaller.sort_unstable();
    smaller.dedup();
    for l in smaller {
        if l >= total {
            continue;
        }
        rep.eval();
        match run(l) {
            Ok(o) => rep.violation(
                &format!("c04-limit:accepted-below-total:{entry}"),
                &format!("accepted with max_cost {l} < total cost {total} (reported cost {})", o.cost),
                witness(),
            ),
            Err(e) if is_cost_exceeded(&e) => rep.count("limit:below-total-cost-exceeded"),
            Err(e) => rep.violation(
                &format!("c04-limit:wrong-error-below-total:{entry}:{}", err_name(&e)),
                &format!("max_cost {l} < total {total} failed with {e:?} instead of cost-exceeded"),
                witness(),
            ),
        }
    }
}

/// partial sums `start + c_0 + c_1 + ...` over the per-spend components, in listed and in reverse
/// spend order (each spend contributes its execution cost, then its condition cost)
fn partial_sums(start: u64, exec: &[u64], cond: &[u64]) -> Vec<u64> {
    let mut v = vec![start];
    let n = exec.len().max(cond.len());
    for rev in [false, true] {
        let mut run = start;
        for k in 0..n {
            let i = if rev { n - 1 - k } else { k };
            run = run.saturating_add(exec.get(i).copied().unwrap_or(0));
            v.push(run);
            run = run.saturating_add(cond.get(i).copied().unwrap_or(0));
            v.push(run);
        }
    }
    v
}

fn case(ctx: &Ctx, rng: &mut Rng, rep: &mut Report, params: &vcore::bundlegen::GenParams) {
    let b: ABundle = gen_bundle(rng, params);
    if !b.as_spendbundle_ok() {
        rep.count("skipped:malformed-coin-fields");
        return;
    }
    let mempool = rng.chance(1, 3);
    let mut flags = ConsensusFlags::DONT_VALIDATE_SIGNATURE;
    if mempool {
        flags |= MEMPOOL_MODE;
    }
    if rng.bool() {
        flags |= ConsensusFlags::COST_CONDITIONS;
    }
    let clvm_flags = if mempool { clvmr::chia_dialect::MEMPOOL_MODE } else { ClvmFlags::empty() };
    let cpb = ctx.consts.cost_per_byte;
    let key_ok = |pk: &[u8]| ctx.key_ok(pk);
    let out = output_for_generator(&b);
    let mf = mflags_of(flags);
    let Verdict::Accept(model) = evaluate(&out, mf, MVisitor::Empty, &ctx.mconsts, u64::MAX, &key_ok) else {
        rep.count("skipped:rules-reject");
        return;
    };
    // table rows charged in this case (for the coverage floor)
    for s in &b.spends {
        for c in s.conditions().unlist().0 {
            let row = match c.first().map(vcore::conditions::classify_opcode) {
                Some(vcore::conditions::Op::Known(o)) => format!("{o}"),
                Some(vcore::conditions::Op::Priced(_)) => "2byte".into(),
                _ => "unknown".into(),
            };
            rep.count(&format!("row:{}:{row}", if mf.cost_conditions { "post" } else { "pre" }));
            rep.cell(&format!("row:{}:{row}:mempool={mempool}", if mf.cost_conditions { "post" } else { "pre" }));
        }
    }

    // execution cost, measured by the interpreter itself
    let quoted = quoted_generator(&b);
    let gen_exec = measured_cost(&quoted, &Sx::nil(), clvm_flags).unwrap_or(0);
    let mut puzzle_exec: Vec<u64> = vec![];
    for s in &b.spends {
        match measured_cost(&puzzle(s.puzzle_idx), &s.solution(), clvm_flags) {
            Some(c) => puzzle_exec.push(c),
            None => {
                rep.count("skipped:puzzle-run-failed");
                return;
            }
        }
    }
    let exec_sum: u64 = puzzle_exec.iter().sum();
    let limit = 1u64 << 62;
    let sig = Signature::default();
    let reveals = reveals_of(&b);
    let which = rng.below(6);
    let w0 = |entry: &str, program: &[u8]| {
        json!({"entry": entry, "flags": format!("{flags:?}"), "generator": vcore::hx(program), "tags": b.tags})
    };

    match which {
        // native path, plain / back-referenced, byte cost or interned cost
        0..=2 => {
            let interned = rng.chance(1, 3);
            let f = if interned { flags | ConsensusFlags::INTERNED_GENERATOR } else { flags };
            let program = if which == 1 { serialize_backrefs(&quoted) } else { quoted.serialize() };
            let entry = if interned { "run_block_generator2+interned" } else { "run_block_generator2" };
            let base = if interned { quoted.interned_vbytes() * cpb } else { program.len() as u64 * cpb };
            let witness = || w0(entry, &program);
            rep.eval();
            match rbg2(ctx, &program, &[], limit, f, &sig, None) {
                Err(e) => rep.violation(&format!("c04-verdict:rules-accept-but-rejected:{entry}"), &format!("{e:?}"), witness()),
                Ok(o) => {
                    accept_invariants(rep, "run_block_generator2", &o, Some(limit), Some(&reveals), &witness);
                    rep.count(&format!("accepted:{entry}"));
                    let exec = gen_exec + exec_sum;
                    let want = base + exec + model.condition_cost;
                    if o.execution_cost != exec {
                        rep.violation(&format!("c04-cost:execution-subtotal:{entry}"), &format!("execution_cost {} but the interpreter charges {exec}", o.execution_cost), witness());
                    }
                    if o.condition_cost != model.condition_cost {
                        rep.violation(&format!("c04-cost:condition-subtotal:{entry}"), &format!("condition_cost {} but the table gives {}", o.condition_cost, model.condition_cost), witness());
                    }
                    if o.cost != want {
                        rep.violation(&format!("c04-cost:total:{entry}"), &format!("cost {} != base {base} + execution {exec} + conditions {}", o.cost, model.condition_cost), witness());
                    }
                    for (i, (s, m)) in o.spends.iter().zip(model.spends.iter()).enumerate() {
                        if s.condition_cost != m.condition_cost {
                            rep.violation(&format!("c04-cost:per-spend-condition:{entry}"), &format!("spend {i}: condition_cost {} vs table {}", s.condition_cost, m.condition_cost), witness());
                        }
                        if s.execution_cost != puzzle_exec[i] {
                            rep.violation(&format!("c04-cost:per-spend-execution:{entry}"), &format!("spend {i}: execution_cost {} vs interpreter {}", s.execution_cost, puzzle_exec[i]), witness());
                        }
                    }
                    let cond: Vec<u64> = model.spends.iter().map(|m| m.condition_cost).collect();
                    let cuts = partial_sums(base + gen_exec, &puzzle_exec, &cond);
                    check_limits(rep, rng, entry, o.cost, base + exec, base, &o, &cuts, &|l| rbg2(ctx, &program, &[], l, f, &sig, None), &witness);
                    if rep.want_sample() {
                        rep.sample(json!({"case": witness(), "cost": o.cost, "base": base, "execution": exec, "conditions": model.condition_cost}));
                    }
                }
            }
        }
        // mempool path
        3 | 4 => {
            let interned = rng.chance(1, 3);
            let f = if interned { flags | ConsensusFlags::INTERNED_GENERATOR } else { flags };
            let entry = if interned { "run_spendbundle+interned" } else { "run_spendbundle" };
            let sb = spend_bundle(&b, &sig);
            // a SpendBundle carries no extension fields: its generator is the plain quoted list
            let quoted = quoted_generator(&strip_ext(&b));
            let plain = quoted.serialize();
            let base = if interned { quoted.interned_vbytes() * cpb } else { (plain.len() as u64 - 2) * cpb };
            let witness = || w0(entry, &plain);
            let mm = match evaluate(&out, mf, MVisitor::Mempool, &ctx.mconsts, u64::MAX, &key_ok) {
                Verdict::Accept(m) => m,
                Verdict::Reject(_) => return,
            };
            rep.eval();
            match run_sb(ctx, &sb, limit, f) {
                Err(e) => rep.violation(&format!("c04-verdict:rules-accept-but-rejected:{entry}"), &format!("{e:?}"), witness()),
                Ok((o, _)) => {
                    accept_invariants(rep, "run_spendbundle", &o, Some(limit), Some(&reveals), &witness);
                    rep.count(&format!("accepted:{entry}"));
                    let want = base + exec_sum + mm.condition_cost;
                    if o.execution_cost != exec_sum {
                        rep.violation(&format!("c04-cost:execution-subtotal:{entry}"), &format!("execution_cost {} but the interpreter charges {exec_sum}", o.execution_cost), witness());
                    }
                    if o.condition_cost != mm.condition_cost {
                        rep.violation(&format!("c04-cost:condition-subtotal:{entry}"), &format!("condition_cost {} vs table {}", o.condition_cost, mm.condition_cost), witness());
                    }
                    if o.cost != want {
                        rep.violation(&format!("c04-cost:total:{entry}"), &format!("cost {} != base {base} + execution {exec_sum} + conditions {}", o.cost, mm.condition_cost), witness());
                    }
                    let cond: Vec<u64> = mm.spends.iter().map(|m| m.condition_cost).collect();
                    let cuts = partial_sums(base, &puzzle_exec, &cond);
                    check_limits(rep, rng, entry, o.cost, base + exec_sum, base, &o, &cuts, &|l| run_sb(ctx, &sb, l, f).map(|x| x.0), &witness);
                }
            }
        }
        // legacy path: sub-totals must add up, the table part must be the model's, the limit exact
        _ => {
            let program = quoted.serialize();
            let entry = "run_block_generator";
            let witness = || w0(entry, &program);
            rep.eval();
            match rbg1(ctx, &program, &[], limit, flags, &sig, None) {
                Err(e) => rep.violation(&format!("c04-verdict:rules-accept-but-rejected:{entry}"), &format!("{e:?}"), witness()),
                Ok(o) => {
                    accept_invariants(rep, entry, &o, Some(limit), Some(&reveals), &witness);
                    rep.count(&format!("accepted:{entry}"));
                    let base = program.len() as u64 * cpb;
                    if o.condition_cost != model.condition_cost {
                        rep.violation(&format!("c04-cost:condition-subtotal:{entry}"), &format!("condition_cost {} vs table {}", o.condition_cost, model.condition_cost), witness());
                    }
                    if o.cost != base + o.execution_cost + o.condition_cost {
                        rep.violation(&format!("c04-cost:total:{entry}"), &format!("cost {} != byte cost {base} + execution {} + conditions {}", o.cost, o.execution_cost, o.condition_cost), witness());
                    }
                    let cond: Vec<u64> = model.spends.iter().map(|m| m.condition_cost).collect();
                    let cuts = partial_sums(base + o.execution_cost, &[], &cond);
                    check_limits(rep, rng, entry, o.cost, base + o.execution_cost, base, &o, &cuts, &|l| rbg1(ctx, &program, &[], l, flags, &sig, None), &witness);
                }
            }
        }
    }
    // the raw condition parser: cost is the table sum alone
    {
        let free = crate::c01::run_parse_spends(ctx, &out, Repr::Plain, rng, u64::MAX, mf, MVisitor::Empty, &sig);
        if let Ok(o) = free {
            let mfc = mf;
            let outc = out.clone();
            let witness = || json!({"entry": "parse_spends", "output": outc.show(), "flags": flags_name(mfc)});
            let mut r2 = Rng::new(rng.u64());
            check_limits(
                rep,
                rng,
                "parse_spends",
                o.cost,
                0,
                0,
                &o,
                &partial_sums(0, &[], &o.spends.iter().map(|s| s.condition_cost).collect::<Vec<u64>>()),
                &|l| {
                    let mut rr = r2.clone();
                    crate::c01::run_parse_spends(ctx, &outc, Repr::Plain, &mut rr, l, mfc, MVisitor::Empty, &Signature::default())
                },
                &witness,
            );
            let _ = &mut r2;
        }
    }
}

pub fn run(args: &Args, rep: &mut Report) {
    let ctx = Ctx::new();
    let n = args.cases(60_000, 1_000_000);
    let mut params = crate::c01::gen_params(&ctx, 10);
    params.max_conds = 8;
    run_cases(args, "c04", n, rep, |_i, rng, rep| case(&ctx, rng, rep, &params));
}
