//! C19, fast-forward half — `fast_forward_singleton` rewrites a singleton spend onto a new
//! coin only when the input is a genuine singleton spend of the stated coin with matching
//! lineage, changes nothing but the three lineage/amount atoms, and the rewritten spend is a
//! valid spend of the new coin that creates the same coins.
//!
//! Everything the oracle knows is computed on the model side: the scenario is an `Sx` tree
//! (real top-layer puzzle bytes curried by hand), hashes are `Sx::tree_hash` / `curry_hash`
//! below, coin ids are sha256(parent ‖ puzzle hash ‖ minimal amount), validity of a spend is
//! clvmr (trusted interpreter) + `vcore::conditions::evaluate`. The function under test is
//! never used to compute an expectation.
//!
//! Verdict rules (no false alarms):
//!   * `Ok`  ⇒ `genuine` must hold (else `c19-ff-accepts-non-genuine:<kind>`),
//!   * `genuine` and canonically shaped (exact 3-element solution and proof, minimal
//!     integers) ⇒ `Ok` (else `c19-ff-rejects-genuine:<error>`); genuine inputs of a looser
//!     shape (e.g. trailing solution fields) may be refused — refusing is always safe,
//!   * on every `Ok` for a genuine input whose original spend validates: solution diff,
//!     re-execution against the new coin, created coins.

use crate::common::Ctx;
use chia_consensus::fast_forward::fast_forward_singleton;
use chia_protocol::{Bytes32, Coin, CoinSpend};
use chia_puzzles::{SINGLETON_LAUNCHER_HASH, SINGLETON_TOP_LAYER_V1_1, SINGLETON_TOP_LAYER_V1_1_HASH};
use chia_traits::Streamable;
use clvmr::chia_dialect::{ChiaDialect, ClvmFlags};
use clvmr::reduction::Reduction;
use clvmr::run_program::run_program;
use clvmr::Allocator;
use serde_json::{json, Value};
use vcore::conditions::{evaluate, MCoin, MFlags, MVisitor, Verdict, ELIGIBLE_FOR_FF};
use vcore::ints::{classify_uint, minimal_be_u64, UintClass};
use vcore::report::guarded;
use vcore::sx::{Repr, Sx};
use vcore::{hx, sha256, Report, Rng};

type H = [u8; 32];

/// Judge inputs whose integers carry a redundant leading zero (kinds `*-leading-zero`). The
/// puzzle and the condition rules read the bytes as they are, so such a spend does not validate
/// against `coin`; the predicate calls it non-genuine. On the pinned tree the function decodes
/// the integers by value and returns `Ok` (signatures
/// `c19-ff-accepts-non-genuine:{solution-amount,lineage-parent-amount}-leading-zero`).
const JUDGE_NONCANONICAL_INTS: bool = true;

/// Judge genuine inputs carrying more than the fields the puzzle reads (`loose:*`). Refusing
/// them would be fine; accepting them is judged like every other `Ok`. On the pinned tree they
/// are accepted and re-encoded without the extra fields (signature
/// `c19-ff-solution-diff-outside-permitted-fields:trailing-fields-dropped`).
const JUDGE_LOOSE_SHAPES: bool = true;

// ---------------------------------------------------------------------------------------
// model hashes

fn th_atom(b: &[u8]) -> H {
    sha256(&[&[1u8], b])
}

fn th_pair(l: &H, r: &H) -> H {
    sha256(&[&[2u8], l, r])
}

/// tree hash of `(a (q . MOD) (c (q . A1) (c (q . A2) … 1)))` from the hashes of MOD and the Ai
fn curry_hash(mod_hash: &H, arg_hashes: &[H]) -> H {
    let nil = th_atom(&[]);
    let q = th_atom(&[1]);
    let mut rest = th_atom(&[1]);
    for a in arg_hashes.iter().rev() {
        let quoted = th_pair(&q, a);
        rest = th_pair(&th_atom(&[4]), &th_pair(&quoted, &th_pair(&rest, &nil)));
    }
    th_pair(&th_atom(&[2]), &th_pair(&th_pair(&q, mod_hash), &th_pair(&rest, &nil)))
}

/// `(a (q . mod) (c (q . arg1) (c (q . arg2) … 1)))` as a tree
fn curry(mod_sx: &Sx, args: &[Sx]) -> Sx {
    let mut rest = Sx::atom(&[1]);
    for a in args.iter().rev() {
        rest = Sx::list(&[Sx::atom(&[4]), Sx::pair(Sx::atom(&[1]), a.clone()), rest]);
    }
    Sx::list(&[Sx::atom(&[2]), Sx::pair(Sx::atom(&[1]), mod_sx.clone()), rest])
}

fn is_byte(x: &Sx, b: u8) -> bool {
    x.as_atom().is_some_and(|a| a.len() == 1 && a[0] == b)
}

/// inverse of `curry`, exact shape only
fn uncurry(p: &Sx) -> Option<(&Sx, Vec<&Sx>)> {
    let (items, term) = p.unlist();
    if items.len() != 3 || !term.is_nil() || !is_byte(items[0], 2) {
        return None;
    }
    let (q, m) = items[1].as_pair()?;
    if !is_byte(q, 1) {
        return None;
    }
    let mut args = vec![];
    let mut cur = items[2];
    loop {
        if cur.is_atom() {
            if is_byte(cur, 1) {
                break;
            }
            return None;
        }
        let (it, term) = cur.unlist();
        if it.len() != 3 || !term.is_nil() || !is_byte(it[0], 4) {
            return None;
        }
        let (q, a) = it[1].as_pair()?;
        if !is_byte(q, 1) {
            return None;
        }
        args.push(a);
        cur = it[2];
    }
    Some((m, args))
}

thread_local! {
    /// the real top-layer puzzle as a model tree, with its model tree hash
    static SINGLETON_MOD: (Sx, H) = {
        let mut a = Allocator::new();
        let n = clvmr::serde::node_from_bytes(&mut a, &SINGLETON_TOP_LAYER_V1_1).expect("singleton mod bytes");
        let sx = Sx::from_node(&a, n);
        let h = sx.tree_hash();
        (sx, h)
    };
}

fn singleton_mod() -> (Sx, H) {
    SINGLETON_MOD.with(Clone::clone)
}

/// model tree hash of a program; the (large, constant) singleton mod is recognised by
/// structural equality and its hash taken from the cache
fn hash_of_mod(m: &Sx) -> H {
    SINGLETON_MOD.with(|(sx, h)| if sx == m { *h } else { m.tree_hash() })
}

// ---------------------------------------------------------------------------------------
// model coins and scenarios

#[derive(Clone, Debug, PartialEq, Eq)]
struct MC {
    parent: H,
    ph: H,
    amount: u64,
}

impl MC {
    fn id(&self) -> H {
        sha256(&[&self.parent, &self.ph, &minimal_be_u64(self.amount)])
    }
    fn real(&self) -> Coin {
        Coin::new(Bytes32::new(self.parent), Bytes32::new(self.ph), self.amount)
    }
    fn json(&self) -> Value {
        json!({"parent": hx(&self.parent), "puzzle_hash": hx(&self.ph), "amount": self.amount})
    }
}

#[derive(Clone, Debug)]
struct Scn {
    puzzle: Sx,
    solution: Sx,
    coin: MC,
    new_coin: MC,
    new_parent: MC,
}

impl Scn {
    fn json(&self) -> Value {
        json!({
            "puzzle_hex": hx(&self.puzzle.serialize()),
            "solution_hex": hx(&self.solution.serialize()),
            "solution": self.solution.show(),
            "coin": self.coin.json(),
            "new_coin": self.new_coin.json(),
            "new_parent": self.new_parent.json(),
        })
    }
}

/// what the model reads off a puzzle
struct Facts {
    puzzle_hash: H,
    /// `Some` iff the puzzle has exactly the shape of a curried program
    curried: Option<CurriedFacts>,
}

struct CurriedFacts {
    mod_hash: H,
    nargs: usize,
    /// the three 32-byte fields of `(A . (B . C))`, if the first argument has that shape
    struct_fields: Option<(H, H, H)>,
    struct_hash: H,
    inner_hash: H,
}

fn arr32(x: &Sx) -> Option<H> {
    x.as_atom().and_then(|b| <[u8; 32]>::try_from(b).ok())
}

fn facts(p: &Sx) -> Facts {
    match uncurry(p) {
        None => Facts { puzzle_hash: p.tree_hash(), curried: None },
        Some((m, args)) => {
            let mod_hash = hash_of_mod(m);
            let hashes: Vec<H> = args.iter().map(|a| a.tree_hash()).collect();
            let puzzle_hash = curry_hash(&mod_hash, &hashes);
            let struct_fields = args.first().and_then(|s| {
                let (a, bc) = s.as_pair()?;
                let (b, c) = bc.as_pair()?;
                Some((arr32(a)?, arr32(b)?, arr32(c)?))
            });
            Facts {
                puzzle_hash,
                curried: Some(CurriedFacts {
                    mod_hash,
                    nargs: args.len(),
                    struct_fields,
                    struct_hash: hashes.first().copied().unwrap_or([0; 32]),
                    inner_hash: hashes.get(1).copied().unwrap_or([0; 32]),
                }),
            }
        }
    }
}

/// The independent predicate: `None` iff this is a genuine, fast-forwardable singleton spend
/// of `coin` with matching lineage and a well-formed rebase target; otherwise the first
/// requirement that fails. Integers are judged at the byte level, the way the puzzle itself
/// (sha256 over the atoms of the solution) and the condition rules see them.
fn not_genuine(s: &Scn, f: &Facts) -> Option<&'static str> {
    if s.coin.amount & 1 == 0 {
        return Some("coin-amount-even");
    }
    if s.new_parent.amount & 1 == 0 {
        return Some("new-parent-amount-even");
    }
    if s.new_coin.amount & 1 == 0 {
        return Some("new-coin-amount-even");
    }
    let Some(c) = &f.curried else {
        return Some("puzzle-not-curried");
    };
    if c.nargs != 2 {
        return Some("curried-arg-count");
    }
    if c.mod_hash != SINGLETON_TOP_LAYER_V1_1_HASH {
        return Some("mod-hash");
    }
    let Some((struct_mod_hash, _launcher_id, _launcher_ph)) = c.struct_fields else {
        return Some("struct-shape");
    };
    if struct_mod_hash != SINGLETON_TOP_LAYER_V1_1_HASH {
        return Some("struct-mod-hash");
    }
    if s.coin.ph != f.puzzle_hash {
        return Some("coin-puzzle-hash");
    }
    if s.new_parent.ph != f.puzzle_hash {
        return Some("new-parent-puzzle-hash");
    }
    if s.new_coin.ph != f.puzzle_hash {
        return Some("new-coin-puzzle-hash");
    }
    // solution = (lineage_proof my_amount inner_solution . _)
    let (sol, _) = s.solution.unlist();
    if sol.len() < 3 {
        return Some("solution-shape");
    }
    // a lineage proof has a third element, an eve proof has not
    let (proof, _) = sol[0].unlist();
    if proof.len() < 3 {
        return Some("proof-not-lineage");
    }
    let (Some(ppci), Some(iph), Some(pamount)) = (arr32(proof[0]), arr32(proof[1]), proof[2].as_atom()) else {
        return Some("proof-field-shape");
    };
    if sol[1].as_atom() != Some(&minimal_be_u64(s.coin.amount)[..]) {
        return Some("solution-amount");
    }
    // the parent the proof describes: a singleton of the same struct with inner puzzle hash `iph`
    let parent_ph = curry_hash(&struct_mod_hash, &[c.struct_hash, iph]);
    let parent_id = sha256(&[&ppci, &parent_ph, pamount]);
    if parent_id != s.coin.parent {
        return Some("lineage-parent-id");
    }
    // fast-forward is only defined while the inner puzzle does not change
    if iph != c.inner_hash {
        return Some("inner-puzzle-hash");
    }
    if s.new_coin.parent != s.new_parent.id() {
        return Some("new-coin-parent");
    }
    None
}

/// exact shape a wallet produces: 3-element solution, 3-element proof, minimal integers
fn canonical(s: &Scn) -> bool {
    let (sol, term) = s.solution.unlist();
    if sol.len() != 3 || !term.is_nil() {
        return false;
    }
    let (proof, pterm) = sol[0].unlist();
    if proof.len() != 3 || !pterm.is_nil() {
        return false;
    }
    let min_u64 = |x: &Sx| x.as_atom().is_some_and(|b| matches!(classify_uint(b, 8), UintClass::Ok(_)));
    min_u64(proof[2]) && min_u64(sol[1])
}

// ---------------------------------------------------------------------------------------
// running a spend: clvmr + the reference condition model

enum Spend {
    RunFailed(String),
    Rejected(String),
    /// created coins, additions + reserved fee, ELIGIBLE_FOR_FF as the mempool rules see it
    Accepted { created: Vec<MCoin>, need: u128, ff_flag: bool, conditions: Sx },
}

fn run_spend(ctx: &Ctx, puzzle: &Sx, solution: &Sx, coin: &MC) -> Spend {
    let mut a = Allocator::new();
    let p = puzzle.to_node_plain(&mut a);
    let s = solution.to_node_plain(&mut a);
    let dialect = ChiaDialect::new(ClvmFlags::empty());
    let conds = match run_program(&mut a, &dialect, p, s, 11_000_000_000) {
        Ok(Reduction(_, out)) => Sx::from_node(&a, out),
        Err(e) => return Spend::RunFailed(format!("{e:?}")),
    };
    let spend = Sx::list(&[
        Sx::atom(&coin.parent),
        Sx::atom(&coin.ph),
        Sx::atom(&minimal_be_u64(coin.amount)),
        conds.clone(),
    ]);
    let output = Sx::list(&[Sx::list(&[spend])]);
    let key_ok = |pk: &[u8]| ctx.key_ok(pk);
    match evaluate(&output, MFlags::default(), MVisitor::Mempool, &ctx.mconsts, u64::MAX, &key_ok) {
        Verdict::Reject(r) => Spend::Rejected(r),
        Verdict::Accept(b) => Spend::Accepted {
            created: b.spends[0].create_coin.clone(),
            need: b.addition_amount + u128::from(b.reserve_fee),
            ff_flag: b.spends[0].flags & ELIGIBLE_FOR_FF != 0,
            conditions: conds,
        },
    }
}

// ---------------------------------------------------------------------------------------
// the call under observation

fn error_name(e: &chia_consensus::error::Error) -> String {
    let s = format!("{e:?}");
    s.split(|c: char| !c.is_ascii_alphanumeric()).next().unwrap_or("").to_string()
}

enum Got {
    Ok(Sx),
    Err(String),
    Panic(String),
}

fn call_ff(rng: &mut Rng, s: &Scn) -> (Got, String) {
    let reprs = [Repr::Plain, Repr::Plain, Repr::Substr, Repr::Concat, Repr::Mixed];
    let rp = *rng.pick(&reprs);
    let rs = *rng.pick(&reprs);
    let mut rr = Rng::new(rng.u64());
    let (coin, new_coin, new_parent) = (s.coin.real(), s.new_coin.real(), s.new_parent.real());
    let r = guarded(|| {
        let mut a = Allocator::new();
        let p = s.puzzle.to_node(&mut a, rp, &mut rr);
        let sol = s.solution.to_node(&mut a, rs, &mut rr);
        match fast_forward_singleton(&mut a, p, sol, &coin, &new_coin, &new_parent) {
            Ok(n) => Got::Ok(Sx::from_node(&a, n)),
            Err(e) => Got::Err(error_name(&e)),
        }
    });
    let got = match r {
        Ok(g) => g,
        Err(p) => Got::Panic(format!("{} at {}", p.message, p.location)),
    };
    (got, format!("{rp:?}/{rs:?}"))
}

/// positions (as f/r paths) at which two trees differ; a differing sub-tree is reported once
fn diff_paths(a: &Sx, b: &Sx, path: &mut String, out: &mut Vec<String>) {
    match (a, b) {
        (Sx::Pair(al, ar), Sx::Pair(bl, br)) => {
            path.push('f');
            diff_paths(al, bl, path, out);
            path.pop();
            path.push('r');
            diff_paths(ar, br, path, out);
            path.pop();
        }
        (Sx::Atom(x), Sx::Atom(y)) if x == y => {}
        _ => out.push(path.clone()),
    }
}

/// element `path` of a tree
fn at<'a>(x: &'a Sx, path: &str) -> Option<&'a Sx> {
    let mut cur = x;
    for c in path.chars() {
        let (f, r) = cur.as_pair()?;
        cur = if c == 'f' { f } else { r };
    }
    Some(cur)
}

const P_PARENT_PARENT: &str = "ff"; // (f (f solution))
const P_PARENT_AMOUNT: &str = "frrf"; // (f (r (r (f solution))))
const P_AMOUNT: &str = "rf"; // (f (r solution))

fn byte_len(v: u64) -> usize {
    minimal_be_u64(v).len()
}

/// Judge one call. `kind` names how the input was made (for counters and signatures).
/// Returns the rewritten solution when the call was a judged, fully checked genuine success.
fn judge(ctx: &Ctx, rng: &mut Rng, rep: &mut Report, s: &Scn, kind: &str, base_case: bool) -> Option<Sx> {
    let f = facts(&s.puzzle);
    let reason = not_genuine(s, &f);
    let canon = canonical(s);
    let (got, repr) = call_ff(rng, s);
    rep.eval();
    let witness = |extra: Value| json!({"kind": kind, "repr": repr, "input": s.json(), "extra": extra});
    let new_solution = match (&got, reason) {
        (Got::Panic(m), _) => {
            rep.violation("c19-ff-panic", &format!("fast_forward_singleton panicked: {m}"), witness(json!(null)));
            return None;
        }
        (Got::Ok(ns), Some(r)) => {
            // combinations are keyed on the violated requirement, single corruptions on their name
            let k = if kind.starts_with("combo") { format!("combo/{r}") } else { kind.to_string() };
            rep.violation(
                &format!("c19-ff-accepts-non-genuine:{k}"),
                &format!("fast_forward_singleton returned Ok although the input is not genuine ({r})"),
                witness(json!({"failed_requirement": r, "new_solution": ns.show()})),
            );
            return None;
        }
        (Got::Err(e), Some(r)) => {
            rep.count(&format!("refusal:{kind}"));
            rep.count("refused-non-genuine");
            rep.cell(&format!("refuse:{kind}:{r}:{e}"));
            return None;
        }
        (Got::Err(e), None) => {
            if canon {
                rep.violation(
                    &format!("c19-ff-rejects-genuine:{e}"),
                    &format!("genuine singleton spend with matching lineage refused with {e}"),
                    witness(json!(null)),
                );
            } else {
                rep.count("genuine-noncanonical-shape-refused");
                rep.cell(&format!("loose-refused:{kind}:{e}"));
            }
            return None;
        }
        (Got::Ok(ns), None) => ns,
    };
    rep.count("genuine_ok");
    rep.count(&format!("genuine_ok:{kind}"));
    if !canon {
        rep.count("genuine-noncanonical-shape-accepted");
    }
    rep.cell(&format!("ok:{kind}:{repr}"));
    rep.cell(&format!(
        "amt:{}:{}:{}",
        byte_len(s.coin.amount),
        byte_len(s.new_parent.amount),
        byte_len(s.new_coin.amount)
    ));
    rep.count(&format!("amount-class:coin:{}B", byte_len(s.coin.amount)));
    rep.count(&format!("amount-class:new-parent:{}B", byte_len(s.new_parent.amount)));
    rep.count(&format!("amount-class:new-coin:{}B", byte_len(s.new_coin.amount)));

    let mut clean = true;

    // (a) the rewritten solution differs only at the three permitted atoms, which carry the new values
    let mut paths = vec![];
    diff_paths(&s.solution, new_solution, &mut String::new(), &mut paths);
    let outside: Vec<&String> =
        paths.iter().filter(|p| ![P_PARENT_PARENT, P_PARENT_AMOUNT, P_AMOUNT].contains(&p.as_str())).collect();
    if !outside.is_empty() {
        clean = false;
        // losing what follows the fields the puzzle reads is a different behaviour from altering a field
        let only_tails = outside.iter().all(|p| ["rrr", "frrr"].contains(&p.as_str()));
        let sig = if only_tails {
            "c19-ff-solution-diff-outside-permitted-fields:trailing-fields-dropped"
        } else {
            "c19-ff-solution-diff-outside-permitted-fields"
        };
        rep.violation(
            sig,
            &format!("rewritten solution differs from the original at {outside:?} (f/r paths)"),
            witness(json!({"new_solution": new_solution.show(), "paths": outside})),
        );
    }
    let want = [
        (P_PARENT_PARENT, "parent_parent_coin_info", s.new_parent.parent.to_vec()),
        (P_PARENT_AMOUNT, "parent_amount", minimal_be_u64(s.new_parent.amount)),
        (P_AMOUNT, "amount", minimal_be_u64(s.new_coin.amount)),
    ];
    for (path, name, value) in &want {
        if at(new_solution, path).and_then(Sx::as_atom) != Some(&value[..]) {
            clean = false;
            rep.violation(
                &format!("c19-ff-rewritten-field-wrong:{name}"),
                &format!("rewritten solution: {name} is not the new coin's value {}", hx(value)),
                witness(json!({"new_solution": new_solution.show()})),
            );
        }
    }
    rep.count("solution-diffed");

    // (b) precondition of the remaining checks: the original is a valid spend of `coin`
    let (created, need, conds) = match run_spend(ctx, &s.puzzle, &s.solution, &s.coin) {
        Spend::Accepted { created, need, ff_flag, conditions } => {
            if ff_flag {
                rep.count("original-spend-ff-eligible-by-mempool-rules");
            }
            (created, need, conditions)
        }
        Spend::RunFailed(e) | Spend::Rejected(e) => {
            if base_case {
                rep.count("skipped:scenario-invalid");
                rep.harness_error(&format!("generated singleton scenario is not a valid spend: {e}"));
            } else {
                rep.count("skipped:original-spend-invalid");
            }
            return None;
        }
    };
    rep.count("original-spend-valid");

    // (c) the rewritten spend runs and is a valid spend of the new coin
    match run_spend(ctx, &s.puzzle, new_solution, &s.new_coin) {
        Spend::RunFailed(e) => {
            clean = false;
            rep.violation(
                "c19-ff-new-solution-fails-to-run",
                &format!("the puzzle fails with the rewritten solution: {e}"),
                witness(json!({"new_solution": new_solution.show()})),
            );
        }
        Spend::Rejected(e) => {
            if need > u128::from(s.new_coin.amount) {
                // the unchanged outputs exceed the new coin's value: not a self-assertion, not judged
                rep.count("skipped:new-coin-smaller-than-outputs");
                clean = false;
            } else {
                clean = false;
                rep.violation(
                    "c19-ff-new-spend-invalid-for-new-coin",
                    &format!("rewritten spend is not a valid spend of the new coin: {e}"),
                    witness(json!({"new_solution": new_solution.show()})),
                );
            }
        }
        Spend::Accepted { created: created2, conditions: conds2, .. } => {
            rep.count("new-spend-valid");
            // (d) same coins created
            rep.count("created-coins-compared");
            rep.add("created-coins", created.len() as u64);
            if created != created2 {
                clean = false;
                rep.violation(
                    "c19-ff-created-coins-differ",
                    "rewritten spend creates different coins than the original",
                    witness(json!({"original": format!("{created:?}"), "rewritten": format!("{created2:?}")})),
                );
            }
            // observation only: which emitted conditions change at all
            let mut cp = vec![];
            diff_paths(&conds, &conds2, &mut String::new(), &mut cp);
            // ((73 my_amount) (71 parent_id) . morphed inner conditions)
            if cp.iter().all(|p| p == "frf" || p == "rfrf") {
                rep.count("conditions-differ-only-in-self-assertions");
            } else {
                rep.count("conditions-differ-elsewhere");
            }
            if rep.want_sample() && base_case {
                rep.sample(json!({
                    "scenario": s.json(),
                    "new_solution": new_solution.show(),
                    "created": format!("{created:?}"),
                    "conditions_new": conds2.show(),
                }));
            }
        }
    }
    if clean {
        rep.count("genuine_ok_fully_checked");
        Some(new_solution.clone())
    } else {
        None
    }
}

// ---------------------------------------------------------------------------------------
// scenario generation

const AMOUNTS: [u64; 18] = [
    1,
    3,
    0x7f,
    0x81,
    0xff,
    0x101,
    0x7fff,
    0x8001,
    0xffff,
    0x1_0001,
    0x7f_ffff,
    0x80_0001,
    0xffff_ffff,
    0x1_0000_0001,
    0x7fff_ffff_ffff_ffff,
    0x8000_0000_0000_0001,
    0xffff_ffff_ffff_fffd,
    u64::MAX,
];

fn odd_amount(rng: &mut Rng) -> u64 {
    if rng.chance(3, 5) {
        *rng.pick(&AMOUNTS)
    } else {
        (rng.u64() >> (8 * rng.below(8))) | 1
    }
}

fn other_odd(rng: &mut Rng, not: u64) -> u64 {
    loop {
        let v = match rng.below(3) {
            0 => not.wrapping_add(2) | 1,
            1 => not.wrapping_sub(2) | 1,
            _ => odd_amount(rng),
        };
        if v != not {
            return v;
        }
    }
}

fn flip_bit(rng: &mut Rng, h: &H) -> H {
    let mut r = *h;
    r[rng.usize(32)] ^= 1 << rng.below(8);
    r
}

/// `lo + [0, span)` random bytes
fn rand_bytes(rng: &mut Rng, lo: usize, span: usize) -> Vec<u8> {
    let n = lo + rng.usize(span);
    rng.bytes(n)
}

fn junk(rng: &mut Rng) -> Sx {
    match rng.below(4) {
        0 => Sx::nil(),
        1 => Sx::atom(&rand_bytes(rng, 1, 8)),
        2 => Sx::list(&[Sx::atom(&rng.bytes(3)), Sx::nil(), Sx::int(rng.below(1000))]),
        _ => Sx::pair(Sx::atom(&rng.bytes(32)), Sx::atom(&[7])),
    }
}

fn op(o: u8) -> Sx {
    Sx::atom(&[o])
}

/// conditions the top layer passes through untouched and that hold for any coin of the
/// lineage; `budget` is what even outputs and fees may still consume
fn free_condition(ctx: &Ctx, rng: &mut Rng, budget: &mut u64, full_ph: Option<&H>) -> Sx {
    match rng.below(13) {
        0 | 1 => {
            let amount = match rng.below(4) {
                0 => 0,
                1 => 2.min(*budget & !1),
                2 => *budget & !1,
                _ => rng.below(*budget / 2 + 1) * 2,
            };
            *budget -= amount;
            let mut items = vec![op(51), Sx::atom(&rng.bytes32()), Sx::int(amount)];
            if rng.bool() {
                items.push(Sx::list(&[Sx::atom(&rng.bytes32())]));
            }
            Sx::list(&items)
        }
        2 => Sx::list(&[op(60), Sx::atom(&rand_bytes(rng, 0, 40))]),
        3 => Sx::list(&[op(62), Sx::atom(&rand_bytes(rng, 0, 40))]),
        4 => Sx::list_term(&[op(1), junk(rng)], junk(rng)),
        5 => Sx::list(&[op(81), Sx::int(rng.below(1000))]),
        6 => Sx::list(&[op(83), Sx::int(rng.below(1000))]),
        7 => Sx::list(&[op(if rng.bool() { 85 } else { 87 }), Sx::int(1_000_000 + rng.below(1_000_000))]),
        8 => Sx::list(&[op(if rng.bool() { 80 } else { 82 }), Sx::int(rng.below(1000))]),
        9 => {
            let fee = if rng.bool() { 0 } else { rng.below(*budget + 1) };
            *budget -= fee;
            Sx::list(&[op(52), Sx::int(fee)])
        }
        10 => {
            let pk = rng.pick(&ctx.keys.valid).clone();
            let o = *rng.pick(&[44u8, 45, 46, 49]);
            Sx::list(&[op(o), Sx::atom(&pk), Sx::atom(&rand_bytes(rng, 0, 24))])
        }
        11 => Sx::list(&[op(0x63), Sx::atom(&rand_bytes(rng, 0, 10))]),
        _ => match full_ph {
            Some(ph) => Sx::list(&[op(72), Sx::atom(ph)]),
            None => Sx::list(&[op(1)]),
        },
    }
}

/// ingredients of a self-consistent scenario
#[derive(Clone)]
struct Base {
    struct_mod_hash: H,
    launcher_id: H,
    launcher_ph: H,
    inner: Sx,
    inner_solution: Sx,
    grandparent: H,
    parent_amount: u64,
    amount: u64,
    new_grandparent: H,
    new_parent_amount: u64,
    new_amount: u64,
    inner_kind: &'static str,
}

fn struct_sx(b: &Base) -> Sx {
    Sx::pair(Sx::atom(&b.struct_mod_hash), Sx::pair(Sx::atom(&b.launcher_id), Sx::atom(&b.launcher_ph)))
}

fn lineage_solution(grandparent: &H, inner_hash: &H, parent_amount: u64, amount: u64, inner_solution: &Sx) -> Sx {
    Sx::list(&[
        Sx::list(&[Sx::atom(grandparent), Sx::atom(inner_hash), Sx::int(parent_amount)]),
        Sx::int(amount),
        inner_solution.clone(),
    ])
}

/// Put a scenario together around `puzzle`. The parent coin is the one the puzzle itself
/// would reconstruct from the proof: same struct, inner puzzle hash `lineage_inner_hash`.
fn assemble(b: &Base, puzzle: Sx, lineage_inner_hash: &H) -> Scn {
    let ph = facts(&puzzle).puzzle_hash;
    let parent_ph = curry_hash(&b.struct_mod_hash, &[struct_sx(b).tree_hash(), *lineage_inner_hash]);
    let parent = MC { parent: b.grandparent, ph: parent_ph, amount: b.parent_amount };
    let coin = MC { parent: parent.id(), ph, amount: b.amount };
    let new_parent = MC { parent: b.new_grandparent, ph, amount: b.new_parent_amount };
    let new_coin = MC { parent: new_parent.id(), ph, amount: b.new_amount };
    let solution = lineage_solution(&b.grandparent, lineage_inner_hash, b.parent_amount, b.amount, &b.inner_solution);
    Scn { puzzle, solution, coin, new_coin, new_parent }
}

fn genuine_scenario(b: &Base) -> Scn {
    let (m, _) = singleton_mod();
    let puzzle = curry(&m, &[struct_sx(b), b.inner.clone()]);
    assemble(b, puzzle, &b.inner.tree_hash())
}

/// amounts of the coins the spend is (re)based on, then outputs that every one of them can pay
fn gen_base(ctx: &Ctx, rng: &mut Rng, chain: usize) -> (Base, Vec<u64>) {
    let amount = odd_amount(rng);
    let mut coin_amounts = vec![amount];
    for _ in 0..chain {
        // now and then rebase onto a coin of the same value (what a wallet normally does)
        coin_amounts.push(if rng.chance(1, 4) { amount } else { odd_amount(rng) });
    }
    let min = *coin_amounts.iter().min().unwrap();
    let odd_out = match rng.below(3) {
        0 => 1,
        1 => min,
        _ => rng.below(min / 2 + 1) * 2 + 1,
    };
    let mut budget = min - odd_out;

    let struct_mod_hash = SINGLETON_TOP_LAYER_V1_1_HASH;
    let launcher_id = rng.bytes32();
    // the launcher puzzle hash is not part of the lineage of a non-eve spend: mostly the standard one
    let launcher_ph = if rng.chance(1, 8) { rng.bytes32() } else { SINGLETON_LAUNCHER_HASH };
    let struct_hash = th_pair(&th_atom(&struct_mod_hash), &th_pair(&th_atom(&launcher_id), &th_atom(&launcher_ph)));

    let inner_kind = *rng.pick(&["quoted", "quoted", "solution", "cons-first"]);
    // inner puzzles whose hash does not depend on the conditions can re-create themselves
    let fixed_inner: Option<Sx> = match inner_kind {
        "solution" => Some(Sx::atom(&[1])),
        _ => None,
    };
    let nfree = rng.usize(5);
    let cons_rest: Vec<Sx> = if inner_kind == "cons-first" {
        (0..nfree).map(|_| free_condition(ctx, rng, &mut budget, None)).collect()
    } else {
        vec![]
    };
    let cons_inner = Sx::list(&[op(4), op(2), Sx::pair(op(1), Sx::list(&cons_rest))]);
    let own_inner_hash: Option<H> = match inner_kind {
        "solution" => fixed_inner.as_ref().map(Sx::tree_hash),
        "cons-first" => Some(cons_inner.tree_hash()),
        _ => None,
    };
    let full_ph = own_inner_hash.map(|h| curry_hash(&struct_mod_hash, &[struct_hash, h]));
    let next_inner_hash = match own_inner_hash {
        Some(h) if rng.chance(2, 3) => h,
        _ => rng.bytes32(),
    };
    // the one odd output; -113 is the top layer's "melt" marker (no child singleton)
    let melt = rng.chance(1, 20);
    let mut odd_items =
        vec![op(51), Sx::atom(&next_inner_hash), if melt { Sx::atom(&[0x8f]) } else { Sx::int(odd_out) }];
    if rng.bool() {
        odd_items.push(Sx::list(&[Sx::atom(&rng.bytes32())]));
    }
    let odd_cc = Sx::list(&odd_items);

    let (inner, inner_solution) = match inner_kind {
        "cons-first" => (cons_inner, Sx::pair(odd_cc, junk(rng))),
        _ => {
            let mut conds: Vec<Sx> = (0..nfree)
                .map(|_| free_condition(ctx, rng, &mut budget, if inner_kind == "solution" { full_ph.as_ref() } else { None }))
                .collect();
            conds.push(odd_cc);
            rng.shuffle(&mut conds);
            if inner_kind == "solution" {
                (Sx::atom(&[1]), Sx::list(&conds))
            } else {
                (Sx::pair(op(1), Sx::list(&conds)), junk(rng))
            }
        }
    };
    let base = Base {
        struct_mod_hash,
        launcher_id,
        launcher_ph,
        inner,
        inner_solution,
        grandparent: rng.bytes32(),
        parent_amount: odd_amount(rng),
        amount,
        new_grandparent: match rng.below(8) {
            0 => [0; 32],
            1 => [0xff; 32],
            _ => rng.bytes32(),
        },
        new_parent_amount: odd_amount(rng),
        new_amount: coin_amounts[1],
        inner_kind,
    };
    (base, coin_amounts)
}

// ---------------------------------------------------------------------------------------
// corruptions

fn set_at(x: &Sx, path: &str, v: &Sx) -> Sx {
    match path.chars().next() {
        None => v.clone(),
        Some(c) => match x.as_pair() {
            None => x.clone(),
            Some((f, r)) => {
                if c == 'f' {
                    Sx::pair(set_at(f, &path[1..], v), r.clone())
                } else {
                    Sx::pair(f.clone(), set_at(r, &path[1..], v))
                }
            }
        },
    }
}

const P_INNER_HASH: &str = "frf"; // (f (r (f solution)))

/// a redundant zero byte in front of a minimal non-negative integer atom (`None` for zero,
/// where the padded form is the canonical encoding of nothing else)
fn padded(b: &[u8]) -> Option<Vec<u8>> {
    if b.is_empty() || b[0] & 0x80 != 0 {
        return None;
    }
    let mut v = vec![0u8];
    v.extend_from_slice(b);
    Some(v)
}

/// every single-field corruption of a genuine scenario, by name
fn corruptions(rng: &mut Rng, b: &Base, g: &Scn) -> Vec<(&'static str, Scn)> {
    let (m, _) = singleton_mod();
    let inner_hash = b.inner.tree_hash();
    let mut v: Vec<(&'static str, Scn)> = vec![];
    let mut add = |name: &'static str, s: Scn| v.push((name, s));
    let even = |a: u64| if a == u64::MAX || a & 2 == 0 { a - 1 } else { a + 1 };

    // --- the three coins -------------------------------------------------------------
    let mut s = g.clone();
    s.coin.amount = even(g.coin.amount);
    add("coin-amount-even", s);
    let mut s = g.clone();
    s.coin.amount = even(g.coin.amount);
    s.solution = set_at(&g.solution, P_AMOUNT, &Sx::int(s.coin.amount));
    add("coin-amount-even-solution-agrees", s);
    let mut s = g.clone();
    s.coin.amount = other_odd(rng, g.coin.amount);
    add("coin-amount-other-odd", s);
    let mut s = g.clone();
    s.new_coin.amount = even(g.new_coin.amount);
    add("new-coin-amount-even", s);
    let mut s = g.clone();
    s.new_parent.amount = even(g.new_parent.amount);
    s.new_coin.parent = s.new_parent.id();
    add("new-parent-amount-even", s);
    let mut s = g.clone();
    s.coin.ph = flip_bit(rng, &g.coin.ph);
    add("coin-puzzle-hash", s);
    let mut s = g.clone();
    s.new_parent.ph = flip_bit(rng, &g.new_parent.ph);
    s.new_coin.parent = s.new_parent.id();
    add("new-parent-puzzle-hash", s);
    let mut s = g.clone();
    s.new_coin.ph = flip_bit(rng, &g.new_coin.ph);
    add("new-coin-puzzle-hash", s);
    let mut s = g.clone();
    let other = rng.bytes32();
    s.coin.ph = other;
    s.new_parent.ph = other;
    s.new_coin.ph = other;
    s.new_coin.parent = s.new_parent.id();
    add("all-coins-other-puzzle-hash", s);
    // a coherent rebase target that belongs to ANOTHER puzzle: new_parent and new_coin agree with
    // each other (and new_coin really is new_parent's child) but not with the spend's puzzle hash
    let mut s = g.clone();
    let other = rng.bytes32();
    s.new_parent.ph = other;
    s.new_coin.ph = other;
    s.new_coin.parent = s.new_parent.id();
    add("rebase-target-other-puzzle-hash", s);
    let mut s = g.clone();
    s.new_coin.parent = if rng.bool() { flip_bit(rng, &g.new_coin.parent) } else { g.new_parent.parent };
    add("new-coin-parent", s);
    let mut s = g.clone();
    s.new_parent.parent = flip_bit(rng, &g.new_parent.parent);
    add("new-parent-parent", s);
    let mut s = g.clone();
    s.new_parent.amount = other_odd(rng, g.new_parent.amount);
    add("new-parent-amount-other-odd", s);
    let mut s = g.clone();
    s.coin.parent = flip_bit(rng, &g.coin.parent);
    add("coin-parent", s);

    // --- the solution ----------------------------------------------------------------
    let mut s = g.clone();
    s.solution = set_at(&g.solution, P_AMOUNT, &Sx::int(other_odd(rng, g.coin.amount)));
    add("solution-amount", s);
    let mut s = g.clone();
    s.solution = set_at(&g.solution, P_PARENT_PARENT, &Sx::atom(&flip_bit(rng, &b.grandparent)));
    add("lineage-parent-parent-bit", s);
    let mut s = g.clone();
    s.solution = set_at(&g.solution, P_PARENT_AMOUNT, &Sx::int(other_odd(rng, b.parent_amount)));
    add("lineage-parent-amount", s);
    let mut s = g.clone();
    let h = if rng.bool() { flip_bit(rng, &inner_hash) } else { rng.bytes32() };
    s.solution = set_at(&g.solution, P_INNER_HASH, &Sx::atom(&h));
    add("lineage-inner-hash", s);
    // a perfectly valid spend whose parent had another inner puzzle: not fast-forwardable
    let puzzle = g.puzzle.clone();
    add("parent-had-different-inner-puzzle", assemble(b, puzzle, &rng.bytes32()));
    // integers with a redundant leading zero: the puzzle hashes / asserts the bytes as they are,
    // so the spend as given does not validate against `coin`
    if let Some(p) = padded(&minimal_be_u64(b.parent_amount)).filter(|_| JUDGE_NONCANONICAL_INTS) {
        let mut s = g.clone();
        s.solution = set_at(&g.solution, P_PARENT_AMOUNT, &Sx::atom(&p));
        add("lineage-parent-amount-leading-zero", s);
    }
    if let Some(p) = padded(&minimal_be_u64(g.coin.amount)).filter(|_| JUDGE_NONCANONICAL_INTS) {
        let mut s = g.clone();
        s.solution = set_at(&g.solution, P_AMOUNT, &Sx::atom(&p));
        add("solution-amount-leading-zero", s);
    }
    // eve proof of a coherent eve spend: the launcher coin really is the parent
    {
        let launcher_coin = MC { parent: b.grandparent, ph: b.launcher_ph, amount: b.parent_amount };
        let mut eb = b.clone();
        eb.launcher_id = launcher_coin.id();
        let puzzle = curry(&m, &[struct_sx(&eb), eb.inner.clone()]);
        let mut s = assemble(&eb, puzzle, &inner_hash);
        s.coin.parent = eb.launcher_id;
        s.solution = Sx::list(&[
            Sx::list(&[Sx::atom(&b.grandparent), Sx::int(b.parent_amount)]),
            Sx::int(b.amount),
            b.inner_solution.clone(),
        ]);
        add("eve-proof", s);
    }
    let mut s = g.clone();
    s.solution = set_at(&g.solution, "f", &Sx::list(&[Sx::atom(&b.grandparent), Sx::int(b.parent_amount)]));
    add("proof-two-elements", s);
    let mut s = g.clone();
    s.solution = match rng.below(3) {
        0 => Sx::nil(),
        1 => Sx::atom(&rand_bytes(rng, 1, 40)),
        _ => Sx::atom(&g.solution.serialize()),
    };
    add("solution-atom", s);
    let mut s = g.clone();
    let (items, _) = g.solution.unlist();
    let keep = 1 + rng.usize(2);
    s.solution = Sx::list(&items[..keep].iter().map(|x| (*x).clone()).collect::<Vec<_>>());
    add("solution-too-short", s);
    let mut s = g.clone();
    s.solution = set_at(&g.solution, "f", &Sx::atom(&b.grandparent));
    add("proof-atom", s);

    // --- the puzzle (everything else rebuilt around it, so only the puzzle is wrong) ------
    {
        let mut fb = b.clone();
        fb.struct_mod_hash = if rng.bool() { flip_bit(rng, &b.struct_mod_hash) } else { rng.bytes32() };
        let puzzle = curry(&m, &[struct_sx(&fb), fb.inner.clone()]);
        add("struct-mod-hash", assemble(&fb, puzzle, &inner_hash));
        let mut s = g.clone();
        s.puzzle = curry(&m, &[struct_sx(&fb), fb.inner.clone()]);
        add("struct-mod-hash-only", s);
    }
    {
        // a curried program of the right shape whose mod is something else
        let other_mod = match rng.below(3) {
            0 => Sx::atom(&[1]),
            1 => Sx::pair(op(1), Sx::nil()),
            // the real mod with its leading operator changed
            _ => set_at(&m, "f", &op(3)),
        };
        let puzzle = curry(&other_mod, &[struct_sx(b), b.inner.clone()]);
        add("other-mod", assemble(b, puzzle, &inner_hash));
    }
    add("curry-extra-argument", assemble(b, curry(&m, &[struct_sx(b), b.inner.clone(), junk(rng)]), &inner_hash));
    add("curry-one-argument", assemble(b, curry(&m, &[struct_sx(b)]), &inner_hash));
    let not_curried = match rng.below(4) {
        0 => m.clone(),
        1 => Sx::atom(&rand_bytes(rng, 0, 33)),
        2 => Sx::pair(op(1), Sx::list(&[Sx::list(&[op(51), Sx::atom(&rng.bytes32()), Sx::int(1)])])),
        // the curried puzzle wrapped once more: runs identically, is not a curried singleton
        _ => Sx::list(&[op(2), Sx::pair(op(1), g.puzzle.clone()), op(1)]),
    };
    add("puzzle-not-curried", assemble(b, not_curried, &inner_hash));
    {
        // struct whose launcher id is not 32 bytes
        let st = Sx::pair(
            Sx::atom(&b.struct_mod_hash),
            Sx::pair(Sx::atom(&b.launcher_id[..31]), Sx::atom(&b.launcher_ph)),
        );
        let mut s = g.clone();
        s.puzzle = curry(&m, &[st, b.inner.clone()]);
        let ph = facts(&s.puzzle).puzzle_hash;
        s.coin.ph = ph;
        s.new_parent.ph = ph;
        s.new_coin.ph = ph;
        s.new_coin.parent = s.new_parent.id();
        add("struct-launcher-id-31-bytes", s);
    }
    v
}

/// random combinations of edits, some of them compensating each other (still genuine)
fn combo(rng: &mut Rng, b: &Base, g: &Scn) -> Scn {
    let mut s = g.clone();
    let n = 2 + rng.usize(3);
    for _ in 0..n {
        match rng.below(14) {
            0 => s.coin.amount = if rng.chance(1, 4) { s.coin.amount ^ 1 } else { other_odd(rng, s.coin.amount) },
            1 => s.solution = set_at(&s.solution, P_AMOUNT, &Sx::int(s.coin.amount)),
            2 => s.solution = set_at(&s.solution, P_AMOUNT, &Sx::int(odd_amount(rng))),
            3 => s.solution = set_at(&s.solution, P_PARENT_PARENT, &Sx::atom(&rng.bytes32())),
            4 => s.solution = set_at(&s.solution, P_PARENT_AMOUNT, &Sx::int(odd_amount(rng))),
            5 => s.coin.parent = flip_bit(rng, &s.coin.parent),
            6 => {
                s.new_parent.amount =
                    if rng.chance(1, 4) { s.new_parent.amount ^ 1 } else { other_odd(rng, s.new_parent.amount) }
            }
            7 => s.new_parent.parent = rng.bytes32(),
            8 => s.new_coin.parent = s.new_parent.id(),
            9 => {
                s.new_coin.amount = if rng.chance(1, 4) { s.new_coin.amount ^ 1 } else { other_odd(rng, s.new_coin.amount) }
            }
            10 => match rng.below(3) {
                0 => s.coin.ph = flip_bit(rng, &s.coin.ph),
                1 => s.new_parent.ph = flip_bit(rng, &s.new_parent.ph),
                _ => s.new_coin.ph = flip_bit(rng, &s.new_coin.ph),
            },
            11 => s.solution = set_at(&s.solution, P_INNER_HASH, &Sx::atom(&rng.bytes32())),
            12 => {
                // the coin a different sibling of the same parent, the new coin the old one
                s.new_parent = MC { parent: b.grandparent, ph: g.coin.ph, amount: b.parent_amount };
                s.new_coin.parent = s.new_parent.id();
            }
            _ => {
                // re-derive the coin's parent from whatever the proof now says
                let proof: Vec<Option<Vec<u8>>> =
                    [P_PARENT_PARENT, P_INNER_HASH, P_PARENT_AMOUNT].iter().map(|p| at(&s.solution, p).and_then(Sx::as_atom).map(<[u8]>::to_vec)).collect();
                if let (Some(pp), Some(ih), Some(pa)) = (&proof[0], &proof[1], &proof[2]) {
                    if let Ok(ih) = <[u8; 32]>::try_from(&ih[..]) {
                        let parent_ph = curry_hash(&b.struct_mod_hash, &[struct_sx(b).tree_hash(), ih]);
                        s.coin.parent = sha256(&[pp, &parent_ph, pa]);
                    }
                }
            }
        }
    }
    if rng.bool() {
        // bring the dependent fields back in line: most of these are genuine again
        s.solution = set_at(&s.solution, P_AMOUNT, &Sx::int(s.coin.amount));
        s.new_coin.parent = s.new_parent.id();
        if let (Some(pp), Some(ih), Some(pa)) = (
            at(&s.solution, P_PARENT_PARENT).and_then(Sx::as_atom),
            at(&s.solution, P_INNER_HASH).and_then(arr32),
            at(&s.solution, P_PARENT_AMOUNT).and_then(Sx::as_atom),
        ) {
            let parent_ph = curry_hash(&b.struct_mod_hash, &[struct_sx(b).tree_hash(), ih]);
            s.coin.parent = sha256(&[pp, &parent_ph, pa]);
        }
    }
    s
}

/// genuine inputs of a looser shape than a wallet produces (the puzzle ignores what follows
/// the fields it reads)
fn loose_shapes(rng: &mut Rng, g: &Scn) -> Vec<(&'static str, Scn)> {
    let mut v = vec![];
    let (items, _) = g.solution.unlist();
    let mut more: Vec<Sx> = items.iter().map(|x| (*x).clone()).collect();
    more.push(junk(rng));
    let mut s = g.clone();
    s.solution = Sx::list(&more);
    v.push(("loose:solution-trailing-field", s));
    let mut s = g.clone();
    s.solution = Sx::list_term(&more[..3], Sx::atom(&[0x2a]));
    v.push(("loose:solution-improper-terminator", s));
    if let Some(proof) = g.solution.first() {
        let (pitems, _) = proof.unlist();
        let mut pm: Vec<Sx> = pitems.iter().map(|x| (*x).clone()).collect();
        pm.push(Sx::atom(&rng.bytes(2)));
        let mut s = g.clone();
        s.solution = set_at(&g.solution, "f", &Sx::list(&pm));
        v.push(("loose:proof-trailing-field", s));
    }
    v
}

// ---------------------------------------------------------------------------------------
// entry points

/// One generated singleton scenario: the genuine fast-forward (a chain of 1–3 rebases), every
/// single-field corruption, and random combinations.
pub fn case(ctx: &Ctx, rng: &mut Rng, rep: &mut Report, thorough: bool) {
    let (_, mod_hash) = singleton_mod();
    if mod_hash != SINGLETON_TOP_LAYER_V1_1_HASH {
        rep.harness_error("model tree hash of SINGLETON_TOP_LAYER_V1_1 differs from SINGLETON_TOP_LAYER_V1_1_HASH");
        return;
    }
    let chain = 1 + rng.weighted(&[5, 3, 2]);
    let (base, coin_amounts) = gen_base(ctx, rng, chain);
    let g = genuine_scenario(&base);
    rep.count("cases");
    rep.count(&format!("inner-kind:{}", base.inner_kind));

    // the generator's own promise, checked with the full (uncached, uncomposed) model hash
    let f = facts(&g.puzzle);
    if f.puzzle_hash != g.puzzle.tree_hash() {
        rep.harness_error("curry_hash disagrees with Sx::tree_hash on the curried puzzle");
        return;
    }
    if let Some(r) = not_genuine(&g, &f) {
        rep.harness_error(&format!("generated scenario is not genuine by the harness's own predicate: {r}"));
        return;
    }

    // generation 0 and the chain
    let mut cur = g.clone();
    let mut achieved = 0;
    for step in 0..chain {
        let kind = if step == 0 { "genuine" } else { "genuine-chained" };
        let Some(new_solution) = judge(ctx, rng, rep, &cur, kind, true) else {
            break;
        };
        achieved += 1;
        if step + 1 == chain {
            break;
        }
        let ph = cur.coin.ph;
        let new_parent = MC { parent: rng.bytes32(), ph, amount: odd_amount(rng) };
        let new_coin = MC { parent: new_parent.id(), ph, amount: coin_amounts[step + 2] };
        cur = Scn { puzzle: cur.puzzle.clone(), solution: new_solution, coin: cur.new_coin.clone(), new_coin, new_parent };
    }
    rep.count(&format!("chain_len:{achieved}"));
    rep.cell(&format!("chain:{achieved}:{}", base.inner_kind));

    // refusals
    for (name, s) in corruptions(rng, &base, &g) {
        // calibration of the predicate against the interpreter for the lineage-related kinds:
        // what the predicate calls non-genuine for these must not be a valid spend of `coin`
        let lineage_kind = matches!(
            name,
            "coin-amount-other-odd"
                | "coin-parent"
                | "solution-amount"
                | "lineage-parent-parent-bit"
                | "lineage-parent-amount"
                | "lineage-inner-hash"
                | "lineage-parent-amount-leading-zero"
                | "solution-amount-leading-zero"
        );
        if lineage_kind && rng.chance(1, 4) {
            if let Spend::Accepted { .. } = run_spend(ctx, &s.puzzle, &s.solution, &s.coin) {
                rep.harness_error(&format!("corruption {name} left a spend that validates against the coin"));
                continue;
            }
            rep.count("calibration:lineage-corruption-spend-invalid");
        }
        // (an inner solution asserting the full puzzle hash pins the launcher id the eve variant replaces)
        let pinned = name == "eve-proof" && base.inner_solution.unlist().0.iter().any(|c| c.first().is_some_and(|o| is_byte(o, 72)));
        if matches!(name, "parent-had-different-inner-puzzle" | "eve-proof") && !pinned && rng.chance(1, 4) {
            // these two are valid spends that are merely not fast-forwardable
            match run_spend(ctx, &s.puzzle, &s.solution, &s.coin) {
                Spend::Accepted { .. } => rep.count(&format!("calibration:{name}-spend-valid")),
                _ => {
                    rep.harness_error(&format!("scenario {name} should be a valid spend and is not"));
                    continue;
                }
            }
        }
        judge(ctx, rng, rep, &s, name, false);
    }

    // genuine but loosely shaped
    if JUDGE_LOOSE_SHAPES {
        for (name, s) in loose_shapes(rng, &g) {
            judge(ctx, rng, rep, &s, name, false);
        }
    }

    // random combinations, judged by the predicate in both directions
    let combos = if thorough { 8 } else { 4 };
    for _ in 0..combos {
        let s = combo(rng, &base, &g);
        let genuine = not_genuine(&s, &facts(&s.puzzle)).is_none();
        rep.count(if genuine { "combo:genuine" } else { "combo:non-genuine" });
        judge(ctx, rng, rep, &s, if genuine { "combo-genuine" } else { "combo" }, false);
    }
}

/// The two recorded singleton spends of /repo/ff-tests, rebased the way the repository's own
/// test does, under the genuine-case oracle.
pub fn recorded(ctx: &Ctx, rep: &mut Report) {
    let mut rng = Rng::new(0xc19f);
    for name in ["e3c0", "bb13"] {
        let path = format!("/repo/ff-tests/{name}.spend");
        let bytes = match std::fs::read(&path) {
            Ok(b) => b,
            Err(e) => {
                rep.harness_error(&format!("cannot read {path}: {e}"));
                continue;
            }
        };
        let spend = match CoinSpend::from_bytes(&bytes) {
            Ok(s) => s,
            Err(e) => {
                rep.harness_error(&format!("cannot parse {path}: {e:?}"));
                continue;
            }
        };
        let mut a = Allocator::new();
        let (Ok(p), Ok(s)) = (
            clvmr::serde::node_from_bytes_backrefs(&mut a, spend.puzzle_reveal.as_slice()),
            clvmr::serde::node_from_bytes_backrefs(&mut a, spend.solution.as_slice()),
        ) else {
            rep.harness_error(&format!("cannot deserialize puzzle/solution of {path}"));
            continue;
        };
        let puzzle = Sx::from_node(&a, p);
        let solution = Sx::from_node(&a, s);
        let coin = MC {
            parent: spend.coin.parent_coin_info.to_bytes(),
            ph: spend.coin.puzzle_hash.to_bytes(),
            amount: spend.coin.amount,
        };
        let ph = puzzle.tree_hash();
        if ph != coin.ph {
            rep.harness_error(&format!("{path}: puzzle reveal does not hash to the coin's puzzle hash"));
            continue;
        }
        rep.count("recorded:spends");
        for new_grandparent in [[0xab; 32], [0; 32], [0xff; 32]] {
            for new_amount in [0u64, 1, 3, 5] {
                for prev_amount in [0u64, 1, 3, 5] {
                    let new_parent = MC {
                        parent: new_grandparent,
                        ph,
                        amount: if prev_amount == 0 { coin.amount } else { prev_amount },
                    };
                    let new_coin = MC {
                        parent: new_parent.id(),
                        ph,
                        amount: if new_amount == 0 { coin.amount } else { new_amount },
                    };
                    let s = Scn {
                        puzzle: puzzle.clone(),
                        solution: solution.clone(),
                        coin: coin.clone(),
                        new_coin,
                        new_parent,
                    };
                    if let Some(r) = not_genuine(&s, &facts(&s.puzzle)) {
                        rep.harness_error(&format!("{path}: recorded spend not genuine by the harness's predicate: {r}"));
                        continue;
                    }
                    if judge(ctx, &mut rng, rep, &s, "recorded", true).is_some() {
                        rep.count("recorded:fully-checked");
                    }
                }
            }
        }
    }
}
