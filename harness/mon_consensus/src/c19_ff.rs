//! placeholder until the fast-forward half is delivered
pub fn case(_ctx: &crate::common::Ctx, _rng: &mut vcore::Rng, rep: &mut vcore::Report, _thorough: bool) {
    rep.count("ff:not-built-yet");
}
