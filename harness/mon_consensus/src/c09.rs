//! C09 — trusted fast paths report what full validation reports.

use crate::common::*;
use crate::entry::*;
use chia_bls::Signature;
use chia_consensus::additions_and_removals::additions_and_removals;
use chia_consensus::flags::{ConsensusFlags, MEMPOOL_MODE};
use chia_consensus::get_puzzle_and_solution::get_puzzle_and_solution_for_coin;
use chia_consensus::owned_conditions::OwnedSpendBundleConditions;
use chia_consensus::run_block_generator::{get_coinspends_for_trusted_block, get_coinspends_with_conditions_for_trusted_block};
use chia_consensus::solution_generator::solution_generator;
use chia_protocol::{Bytes, Bytes32, Coin, Program, SpendBundle};
use clvmr::chia_dialect::ChiaDialect;
use clvmr::reduction::Reduction;
use clvmr::run_program::run_program;
use clvmr::serde::{node_from_bytes, node_from_bytes_backrefs, node_to_bytes};
use clvmr::Allocator;
use serde_json::{json, Value};
use vcore::bundlegen::gen_bundle;
use vcore::report::run_cases;
use vcore::{hx, Args, Report, Rng};

type Addition = (Coin, Option<Bytes>);

fn sorted_additions(mut v: Vec<Addition>) -> Vec<(Vec<u8>, Vec<u8>, u64, Option<Vec<u8>>)> {
    let mut r: Vec<_> = v
        .drain(..)
        .map(|(c, h)| (c.parent_coin_info.to_vec(), c.puzzle_hash.to_vec(), c.amount, h.map(|b| b.to_vec())))
        .collect();
    r.sort();
    r
}

fn validated_additions(o: &OwnedSpendBundleConditions) -> Vec<Addition> {
    let mut v = vec![];
    for s in &o.spends {
        for (ph, amount, hint) in &s.create_coin {
            v.push((Coin::new(s.coin_id, *ph, *amount), hint.clone()));
        }
    }
    v
}

#[allow(clippy::too_many_arguments)]
pub fn check_generator(
    ctx: &Ctx,
    rep: &mut Report,
    program: &[u8],
    refs: &[Vec<u8>],
    flags: ConsensusFlags,
    consts: &chia_consensus::consensus_constants::ConsensusConstants,
    witness: &dyn Fn() -> Value,
) {
    let _ = ctx;
    let limit = consts.max_block_cost_clvm;
    let full = chia_consensus::run_block_generator::run_block_generator2(program, refs, limit, flags, &Signature::default(), None, consts)
        .map(|(a, c)| OwnedSpendBundleConditions::from(&a, c));
    let Ok(o) = full else {
        rep.count("skipped:full-validation-rejects");
        return;
    };
    rep.count("accepted-generators");
    accept_invariants(rep, "run_block_generator2", &o, Some(limit), None, witness);

    // ---- additions_and_removals -----------------------------------------------------
    rep.eval();
    match additions_and_removals(program, refs, flags, consts) {
        Err(e) => rep.violation(
            &format!("c09-additions-and-removals:fails-on-accepted-block:{}", err_name(&e)),
            &format!("{e:?}"),
            witness(),
        ),
        Ok((adds, rems)) => {
            let want_rems: Vec<(Bytes32, Coin)> =
                o.spends.iter().map(|s| (s.coin_id, Coin::new(s.parent_id, s.puzzle_hash, s.coin_amount))).collect();
            if rems != want_rems {
                rep.violation(
                    "c09-additions-and-removals:removals-differ",
                    &format!("removals (ids and coins, in order) differ from the validated spends: {} vs {}", rems.len(), want_rems.len()),
                    witness(),
                );
            }
            let got = sorted_additions(adds);
            let want = sorted_additions(validated_additions(&o));
            rep.add("additions-compared", want.len() as u64);
            for a in &want {
                rep.count(match &a.3 {
                    None => "hint:none",
                    Some(h) if h.len() == 32 => "hint:32",
                    Some(_) => "hint:other",
                });
            }
            if got != want {
                // classify: do they agree on coins and differ only in hints, and how?
                let coins = |v: &Vec<(Vec<u8>, Vec<u8>, u64, Option<Vec<u8>>)>| {
                    let mut c: Vec<_> = v.iter().map(|x| (x.0.clone(), x.1.clone(), x.2)).collect();
                    c.sort();
                    c
                };
                let sig = if coins(&got) != coins(&want) {
                    "c09-additions-and-removals:additions-differ".to_string()
                } else {
                    let unify = |v: &Vec<(Vec<u8>, Vec<u8>, u64, Option<Vec<u8>>)>| {
                        let mut c: Vec<_> = v
                            .iter()
                            .map(|x| (x.0.clone(), x.1.clone(), x.2, x.3.clone().filter(|h| !h.is_empty())))
                            .collect();
                        c.sort();
                        c
                    };
                    if unify(&got) == unify(&want) {
                        "c09-additions-and-removals:empty-first-memo-reported-as-hint".to_string()
                    } else {
                        "c09-additions-and-removals:hints-differ".to_string()
                    }
                };
                let first = got.iter().zip(want.iter()).find(|(a, b)| a != b);
                rep.violation(&sig, &format!("additions differ from validated create_coin; first difference {first:?}"), witness());
            }
        }
    }

    // ---- recovered coin spends rebuild an equivalent generator ----------------------------
    rep.eval();
    let prog = Program::new(program.to_vec().into());
    match get_coinspends_for_trusted_block(consts, &prog, refs, flags) {
        Err(e) => rep.violation(&format!("c09-coinspends:fails-on-accepted-block:{}", err_name(&e)), &format!("{e:?}"), witness()),
        Ok(css) => {
            if css.len() != o.spends.len() {
                rep.violation("c09-coinspends:count", &format!("{} coin spends for {} validated spends", css.len(), o.spends.len()), witness());
            }
            for (cs, s) in css.iter().zip(o.spends.iter()) {
                if cs.coin.coin_id() != s.coin_id {
                    rep.violation("c09-coinspends:coin", "recovered coin differs from the validated spend", witness());
                    break;
                }
            }
            let rebuilt = solution_generator(css.iter().map(|cs| (cs.coin, cs.puzzle_reveal.as_slice(), cs.solution.as_slice())));
            if let Ok(g) = rebuilt {
                let again = chia_consensus::run_block_generator::run_block_generator2(&g, &[] as &[Vec<u8>], u64::MAX >> 1, flags, &Signature::default(), None, consts)
                    .map(|(a, c)| OwnedSpendBundleConditions::from(&a, c));
                match again {
                    Err(e) => rep.violation(&format!("c09-coinspends:rebuilt-generator-rejected:{}", err_name(&e)), &format!("{e:?}"), witness()),
                    Ok(o2) => {
                        let norm = |x: &OwnedSpendBundleConditions| {
                            let mut m = masked(x, true, 0, false);
                            m.spends.sort_by_key(|s| s.coin_id);
                            m.agg_sig_unsafe.sort_by_key(|(pk, msg)| (pk.to_bytes(), msg.to_vec()));
                            m
                        };
                        if let Some(d) = diff_owned(&norm(&o), &norm(&o2)) {
                            rep.violation(&format!("c09-coinspends:rebuilt-conditions-differ:{}", diff_class(&d)), &d, witness());
                        }
                        rep.count("rebuilt-generators");
                    }
                }
            }
            // the variant with conditions must list the same coin spends
            if let Ok(with) = get_coinspends_with_conditions_for_trusted_block(consts, &prog, refs, flags) {
                let a: Vec<_> = with.iter().map(|x| &x.0).collect();
                let b: Vec<_> = css.iter().collect();
                if a != b {
                    rep.violation("c09-coinspends:with-conditions-variant-differs", "the two trusted-block helpers list different coin spends", witness());
                }
            } else {
                rep.violation("c09-coinspends:with-conditions-fails-on-accepted-block", "get_coinspends_with_conditions_for_trusted_block failed", witness());
            }

            // ---- puzzle and solution look-up for every removed coin ------------------------------
            let mut a = Allocator::new();
            let node = node_from_bytes_backrefs(&mut a, program).ok();
            let env = (|| {
                let deser = node_from_bytes(&mut a, &chia_puzzles::CHIALISP_DESERIALISATION).ok()?;
                let mut blocks = a.nil();
                for r in refs.iter().rev() {
                    let n = a.new_atom(r).ok()?;
                    blocks = a.new_pair(n, blocks).ok()?;
                }
                let nil = a.nil();
                let args = a.new_pair(blocks, nil).ok()?;
                a.new_pair(deser, args).ok()
            })();
            if let (Some(p), Some(env)) = (node, env) {
                let d = ChiaDialect::new(flags.to_clvm_flags());
                if let Ok(Reduction(_, result)) = run_program(&mut a, &d, p, env, limit) {
                    for (cs, s) in css.iter().zip(o.spends.iter()) {
                        let coin = Coin::new(s.parent_id, s.puzzle_hash, s.coin_amount);
                        rep.eval();
                        rep.count("coin-lookups");
                        match get_puzzle_and_solution_for_coin(&a, result, &coin) {
                            Err(e) => {
                                rep.violation(&format!("c09-lookup:removed-coin-not-found:{}", err_name(&e)), &format!("{e:?}"), witness());
                                break;
                            }
                            Ok((pz, sol)) => {
                                let (pb, sb) = (node_to_bytes(&a, pz).unwrap_or_default(), node_to_bytes(&a, sol).unwrap_or_default());
                                if pb != cs.puzzle_reveal.as_slice() || sb != cs.solution.as_slice() {
                                    rep.violation("c09-lookup:wrong-puzzle-or-solution", "looked-up puzzle/solution differ from the spend's", witness());
                                    break;
                                }
                            }
                        }
                    }
                }
            }
        }
    }
}

fn case_bundle_additions(ctx: &Ctx, rep: &mut Report, sb: &SpendBundle, pair_opcode: bool, witness: &dyn Fn() -> Value) {
    // "valid spend bundle" = passes mempool-mode validation; a bundle that only passes consensus-mode
    // validation (unknown conditions allowed) is judged too unless it holds a condition with a pair in the
    // opcode position, which the helper refuses by design
    let strict = MEMPOOL_MODE | ConsensusFlags::DONT_VALIDATE_SIGNATURE;
    let o = match run_sb(ctx, sb, 11_000_000_000, strict) {
        Ok((o, _)) => {
            rep.count("bundle-additions-checked:mempool-valid");
            o
        }
        Err(_) => match run_sb(ctx, sb, 11_000_000_000, ConsensusFlags::DONT_VALIDATE_SIGNATURE) {
            Ok((o, _)) if !pair_opcode => {
                rep.count("bundle-additions-checked:consensus-valid-only");
                o
            }
            _ => {
                rep.count("skipped:bundle-not-valid");
                return;
            }
        },
    };
    rep.eval();
    rep.count("bundle-additions-checked");
    match sb.additions() {
        Err(e) => rep.violation("c09-bundle-additions:fails-on-valid-bundle", &format!("{e:?}"), witness()),
        Ok(coins) => {
            let mut got: Vec<_> = coins.iter().map(|c| (c.parent_coin_info.to_vec(), c.puzzle_hash.to_vec(), c.amount)).collect();
            let mut want: Vec<_> = validated_additions(&o).iter().map(|(c, _)| (c.parent_coin_info.to_vec(), c.puzzle_hash.to_vec(), c.amount)).collect();
            got.sort();
            want.sort();
            if got != want {
                rep.violation("c09-bundle-additions:differ", &format!("SpendBundle::additions lists {} coins, validation {}", got.len(), want.len()), witness());
            }
        }
    }
}

pub fn run(args: &Args, rep: &mut Report) {
    let ctx = Ctx::new();
    let n = args.cases(30_000, 500_000);
    let mut params = crate::c01::gen_params(&ctx, 8);
    params.max_conds = 8;
    let corpus = crate::corpus::load_corpus(if args.thorough() { 2_000_000 } else { 100_000 });
    let recorded = crate::c08::load_recorded_bundles();
    run_cases(args, "c09", n, rep, |i, rng: &mut Rng, rep| {
        let i = i as usize;
        if i < corpus.len() {
            let f = &corpus[i];
            if !f.name.starts_with("block-") && !f.name.starts_with("create-coin") && !f.name.starts_with("new-agg") {
                return;
            }
            rep.cell(&format!("corpus:{}", f.name));
            let flags = ConsensusFlags::DONT_VALIDATE_SIGNATURE;
            check_generator(&ctx, rep, &f.generator, &f.refs, flags, &chia_consensus::consensus_constants::TEST_CONSTANTS, &|| json!({"corpus_file": f.name}));
            return;
        }
        if i < corpus.len() + recorded.len() {
            let (name, sb) = &recorded[i - corpus.len()];
            rep.cell(&format!("recorded:{name}"));
            let g = solution_generator(sb.coin_spends.iter().map(|cs| (cs.coin, cs.puzzle_reveal.as_slice(), cs.solution.as_slice()))).expect("generator");
            check_generator(&ctx, rep, &g, &[], ConsensusFlags::DONT_VALIDATE_SIGNATURE, &ctx.consts, &|| json!({"recorded_bundle": name}));
            case_bundle_additions(&ctx, rep, sb, false, &|| json!({"recorded_bundle": name}));
            return;
        }
        let mut b = gen_bundle(rng, &params);
        let form = rng.below(6);
        let mut refs: Vec<Vec<u8>> = vec![];
        let program = match form {
            0 | 1 => quoted_generator(&b).serialize(),
            2 => serialize_backrefs(&quoted_generator(&b)),
            3 => computed_program(&generator_value(&b), rng, 0).serialize(),
            4 => procedural_generator(&b).serialize(),
            _ => {
                // a generator that reads its block references (order-sensitively): the trusted helpers set
                // the generator's environment up themselves
                let (p, r) = crate::c07::refs_reader_program(&mut b, rng);
                refs = r;
                rep.count("generators-reading-block-refs");
                p.serialize()
            }
        };
        let b = b;
        let mut flags = ConsensusFlags::DONT_VALIDATE_SIGNATURE;
        if rng.bool() {
            flags |= ConsensusFlags::COST_CONDITIONS;
        }
        if rng.chance(1, 4) {
            flags |= MEMPOOL_MODE;
        }
        for t in &b.tags {
            if t.starts_with("hint:") {
                rep.count(&format!("memo-shape:{}", &t[5..]));
                rep.cell(&format!("memo-shape:{}:{form}", &t[5..]));
            }
        }
        let w = || json!({"generator": hx(&program), "refs": refs.iter().map(|r| hx(r)).collect::<Vec<_>>(), "flags": format!("{flags:?}"), "tags": b.tags});
        check_generator(&ctx, rep, &program, &refs, flags, &ctx.consts, &w);
        if b.as_spendbundle_ok() && rng.chance(1, 3) {
            let sb = spend_bundle(&b, &Signature::default());
            let pair_opcode = b.spends.iter().any(|s| s.conds.iter().any(|c| c.first().is_some_and(|op| op.as_atom().is_none())));
            case_bundle_additions(&ctx, rep, &sb, pair_opcode, &|| bundle_json(&b));
        }
        if rep.want_sample() {
            rep.sample(w());
        }
    });
}
