//! C02 — accepted bundles conserve value and never duplicate coins.
//! The invariants live in `common::accept_invariants` and are applied by every
//! consensus monitor; this runner drives all five entry points with the
//! strata the property singles out (amounts near 2^64, many spends).

use crate::c07::{mflags_of, reveals_of};
use crate::common::*;
use crate::entry::*;
use chia_bls::Signature;
use chia_consensus::flags::{ConsensusFlags, MEMPOOL_MODE};
use chia_consensus::spendbundle_validation::validate_clvm_and_signature;
use serde_json::json;
use vcore::bundlegen::{gen_bundle, many_spends};
use vcore::conditions::{evaluate, MVisitor, Verdict};
use vcore::report::run_cases;
use vcore::sx::Repr;
use vcore::{Args, Report, Rng};

fn case(ctx: &Ctx, rng: &mut Rng, rep: &mut Report, params: &vcore::bundlegen::GenParams, big: bool) {
    let b = if big {
        let n = *rng.pick(&[1000usize, 2500, 5999, 6000]);
        many_spends(rng, n)
    } else {
        gen_bundle(rng, params)
    };
    // coin fields that cannot be expressed as a CoinSpend (non-minimal amount atoms, hashes of
    // another length): the three entry points that take raw output / a generator still get them
    let sb_ok = b.as_spendbundle_ok();
    if !sb_ok {
        rep.count("raw-only:malformed-coin-fields");
    }
    let mut flags = ConsensusFlags::empty();
    if rng.chance(1, 3) {
        flags |= MEMPOOL_MODE;
    }
    if rng.bool() {
        flags |= ConsensusFlags::COST_CONDITIONS;
    }
    let limit = 1u64 << 62;
    let witness = || bundle_json(&b);
    let reveals = reveals_of(&b);
    let out = output_for_generator(&b);
    rep.eval();
    rep.cell(&format!("spends:{}:{}", b.spends.len().min(7), b.spends.iter().map(|s| u128::from(s.amount)).sum::<u128>() >= 1 << 64));

    // a signature that is valid for this bundle, so the signature-checking entry points can accept
    let key_ok = |pk: &[u8]| ctx.key_ok(pk);
    let sig = match evaluate(&out, mflags_of(flags), MVisitor::Empty, &ctx.mconsts, u64::MAX, &key_ok) {
        Verdict::Accept(m) => ctx.sign_pairs(&m.pkm_pairs).unwrap_or_default(),
        Verdict::Reject(_) => Signature::default(),
    };
    let dont = flags | ConsensusFlags::DONT_VALIDATE_SIGNATURE;

    for visitor in [MVisitor::Empty, MVisitor::Mempool] {
        if let Ok(o) = crate::c01::run_parse_spends(ctx, &out, Repr::Plain, rng, limit, mflags_of(dont), visitor, &sig) {
            accept_invariants(rep, "parse_spends", &o, Some(limit), None, &witness);
        }
    }
    let program = quoted_generator(&b).serialize();
    if !big || rng.chance(1, 4) {
        if let Ok(o) = rbg1(ctx, &program, &[], limit, flags, &sig, None) {
            accept_invariants(rep, "run_block_generator", &o, Some(limit), Some(&reveals), &witness);
        }
    }
    if let Ok(o) = rbg2(ctx, &program, &[], limit, flags, &sig, None) {
        accept_invariants(rep, "run_block_generator2", &o, Some(limit), Some(&reveals), &witness);
        // an accepted result must also be accepted when given exactly its own cost as the limit
        match rbg2(ctx, &program, &[], o.cost, flags, &sig, None) {
            Ok(o2) => accept_invariants(rep, "run_block_generator2", &o2, Some(o.cost), Some(&reveals), &witness),
            Err(e) => rep.violation("accepted-invariant:fails-at-own-cost", &format!("{e:?}"), json!({"witness": witness()})),
        }
    }
    if !sb_ok {
        return;
    }
    let sb = spend_bundle(&strip_ext(&b), &sig);
    if let Ok((o, _)) = run_sb(ctx, &sb, limit, dont) {
        accept_invariants(rep, "run_spendbundle", &o, Some(limit), Some(&reveals), &witness);
    }
    if let Ok((o, _)) = validate_clvm_and_signature(&sb, limit, &ctx.consts, flags) {
        accept_invariants(rep, "validate_clvm_and_signature", &o, Some(limit), Some(&reveals), &witness);
    }
    if rep.want_sample() && !big {
        rep.sample(witness());
    }
}

pub fn run(args: &Args, rep: &mut Report) {
    let ctx = Ctx::new();
    let n = args.cases(40_000, 600_000);
    let mut params = crate::c01::gen_params(&ctx, 12);
    params.big_amount_pct = 45;
    let every = if args.thorough() { 500 } else { 4000 };
    run_cases(args, "c02", n, rep, |i, rng, rep| case(&ctx, rng, rep, &params, i % every == 1));
}
