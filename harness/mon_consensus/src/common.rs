//! Shared pieces of the consensus monitors: harness-owned constants and keys,
//! conversions between implementation results and the model's types, and the
//! C02 invariants applied to every accepted result any monitor obtains.

use chia_bls::{sign, PublicKey, SecretKey, Signature};
use chia_consensus::consensus_constants::{ConsensusConstants, TEST_CONSTANTS};
use chia_consensus::flags::ConsensusFlags;
use chia_consensus::owned_conditions::{OwnedSpendBundleConditions, OwnedSpendConditions};
use chia_protocol::Bytes32;
use serde_json::{json, Value};
use std::collections::{HashMap, HashSet};
use vcore::bundlegen::KeyPool;
use vcore::conditions::{MBundle, MConstants, MCoin, MFlags, MSpend, MVisitor, PkMsg};
use vcore::ints::minimal_be_u64;
use vcore::{hx, sha256, Report};

pub struct Ctx {
    pub consts: ConsensusConstants,
    pub mconsts: MConstants,
    pub sks: Vec<SecretKey>,
    pub pk_to_sk: HashMap<Vec<u8>, usize>,
    pub keys: KeyPool,
}

impl Ctx {
    /// Harness-owned network constants: eight *distinct* domain strings that
    /// differ from the repo's test constants, so swapping two constants in
    /// the code under test changes observable behaviour.
    pub fn new() -> Ctx {
        let dom = |i: u8| -> [u8; 32] { sha256(&[b"verif-domain", &[i]]) };
        let mut consts = TEST_CONSTANTS.clone();
        consts.agg_sig_me_additional_data = Bytes32::new(dom(0));
        consts.agg_sig_parent_additional_data = Bytes32::new(dom(1));
        consts.agg_sig_puzzle_additional_data = Bytes32::new(dom(2));
        consts.agg_sig_amount_additional_data = Bytes32::new(dom(3));
        consts.agg_sig_puzzle_amount_additional_data = Bytes32::new(dom(4));
        consts.agg_sig_parent_amount_additional_data = Bytes32::new(dom(5));
        consts.agg_sig_parent_puzzle_additional_data = Bytes32::new(dom(6));
        let mconsts = MConstants {
            me: dom(0).to_vec(),
            parent: dom(1).to_vec(),
            puzzle: dom(2).to_vec(),
            amount: dom(3).to_vec(),
            puzzle_amount: dom(4).to_vec(),
            parent_amount: dom(5).to_vec(),
            parent_puzzle: dom(6).to_vec(),
        };
        let mut sks = vec![];
        let mut pk_to_sk = HashMap::new();
        let mut valid = vec![];
        for i in 0u8..6 {
            let sk = SecretKey::from_seed(&sha256(&[b"verif-key", &[i]]));
            let pk = sk.public_key().to_bytes().to_vec();
            pk_to_sk.insert(pk.clone(), sks.len());
            valid.push(pk);
            sks.push(sk);
        }
        // unacceptable keys: infinity, no compression flag, x not on the curve / off the subgroup
        let mut invalid: Vec<Vec<u8>> = vec![];
        let mut inf = vec![0u8; 48];
        inf[0] = 0xc0;
        invalid.push(inf);
        invalid.push(vec![0u8; 48]);
        let mut ctr = 0u8;
        while invalid.len() < 6 {
            let mut b = sha256(&[b"verif-badkey", &[ctr]]).to_vec();
            b.extend_from_slice(&sha256(&[b"verif-badkey2", &[ctr]])[..16]);
            b[0] = 0x80 | (b[0] & 0x1f);
            ctr += 1;
            let arr: [u8; 48] = b.clone().try_into().unwrap();
            if PublicKey::from_bytes(&arr).is_err() {
                invalid.push(b);
            }
        }
        Ctx { consts, mconsts, sks, pk_to_sk, keys: KeyPool { valid, invalid } }
    }

    /// Is this 48-byte string an acceptable AGG_SIG key? By construction for
    /// pool keys; blst (through the wrapper) as the trusted primitive otherwise.
    pub fn key_ok(&self, pk: &[u8]) -> bool {
        if self.pk_to_sk.contains_key(pk) {
            return true;
        }
        if self.keys.invalid.iter().any(|k| k == pk) {
            return false;
        }
        let Ok(arr) = <[u8; 48]>::try_from(pk) else {
            return false;
        };
        PublicKey::from_bytes(&arr).is_ok_and(|k| !k.is_inf())
    }

    /// aggregate signature over exactly these pairs, if the harness owns all the keys
    pub fn sign_pairs(&self, pairs: &[PkMsg]) -> Option<Signature> {
        let mut agg = Signature::default();
        for (pk, msg) in pairs {
            let sk = &self.sks[*self.pk_to_sk.get(pk)?];
            agg.aggregate(&sign(sk, msg));
        }
        Some(agg)
    }
}

pub fn to_flags(f: MFlags) -> ConsensusFlags {
    let mut r = ConsensusFlags::empty();
    if f.no_unknown_conds {
        r |= ConsensusFlags::NO_UNKNOWN_CONDS;
    }
    if f.strict_args {
        r |= ConsensusFlags::STRICT_ARGS_COUNT;
    }
    if f.cost_conditions {
        r |= ConsensusFlags::COST_CONDITIONS;
    }
    if f.limit_spends {
        r |= ConsensusFlags::LIMIT_SPENDS;
    }
    if f.dont_validate_signature {
        r |= ConsensusFlags::DONT_VALIDATE_SIGNATURE;
    }
    r
}

pub fn flags_from_bits(bits: u64) -> MFlags {
    MFlags {
        no_unknown_conds: bits & 1 != 0,
        strict_args: bits & 2 != 0,
        cost_conditions: bits & 4 != 0,
        limit_spends: bits & 8 != 0,
        dont_validate_signature: bits & 16 != 0,
    }
}

pub fn flags_name(f: MFlags) -> String {
    format!(
        "{}{}{}{}{}",
        if f.no_unknown_conds { "U" } else { "-" },
        if f.strict_args { "S" } else { "-" },
        if f.cost_conditions { "C" } else { "-" },
        if f.limit_spends { "L" } else { "-" },
        if f.dont_validate_signature { "D" } else { "-" }
    )
}

fn pkmsgs(v: &[(PublicKey, chia_protocol::Bytes)]) -> Vec<PkMsg> {
    v.iter().map(|(pk, m)| (pk.to_bytes().to_vec(), m.to_vec())).collect()
}

/// implementation result in the model's vocabulary
pub fn owned_to_model(o: &OwnedSpendBundleConditions) -> MBundle {
    MBundle {
        spends: o.spends.iter().map(owned_spend_to_model).collect(),
        reserve_fee: o.reserve_fee,
        height_absolute: o.height_absolute,
        seconds_absolute: o.seconds_absolute,
        before_height_absolute: o.before_height_absolute,
        before_seconds_absolute: o.before_seconds_absolute,
        agg_sig_unsafe: pkmsgs(&o.agg_sig_unsafe),
        removal_amount: o.removal_amount,
        addition_amount: o.addition_amount,
        condition_cost: o.condition_cost,
        pkm_pairs: vec![],
    }
}

pub fn owned_spend_to_model(s: &OwnedSpendConditions) -> MSpend {
    let mut create_coin: Vec<MCoin> = s
        .create_coin
        .iter()
        .map(|(ph, amount, hint)| MCoin {
            puzzle_hash: ph.to_bytes(),
            amount: *amount,
            hint: hint.as_ref().map(|h| h.to_vec()),
        })
        .collect();
    create_coin.sort();
    MSpend {
        coin_id: s.coin_id.to_bytes(),
        parent_id: s.parent_id.to_bytes(),
        puzzle_hash: s.puzzle_hash.to_bytes(),
        coin_amount: s.coin_amount,
        height_relative: s.height_relative,
        seconds_relative: s.seconds_relative,
        before_height_relative: s.before_height_relative,
        before_seconds_relative: s.before_seconds_relative,
        birth_height: s.birth_height,
        birth_seconds: s.birth_seconds,
        create_coin,
        agg_sig_me: pkmsgs(&s.agg_sig_me),
        agg_sig_parent: pkmsgs(&s.agg_sig_parent),
        agg_sig_puzzle: pkmsgs(&s.agg_sig_puzzle),
        agg_sig_amount: pkmsgs(&s.agg_sig_amount),
        agg_sig_puzzle_amount: pkmsgs(&s.agg_sig_puzzle_amount),
        agg_sig_parent_amount: pkmsgs(&s.agg_sig_parent_amount),
        agg_sig_parent_puzzle: pkmsgs(&s.agg_sig_parent_puzzle),
        flags: s.flags,
        condition_cost: s.condition_cost,
    }
}

/// First field in which the two summaries differ. `mask_flags`: bits of the
/// per-spend flags that are not compared; `costs`: compare condition costs.
pub fn diff_bundles(model: &MBundle, got: &MBundle, mask_flags: u32, costs: bool) -> Option<String> {
    macro_rules! cmp {
        ($f:ident) => {
            if model.$f != got.$f {
                return Some(format!("{}: model {:?} vs implementation {:?}", stringify!($f), model.$f, got.$f));
            }
        };
    }
    cmp!(reserve_fee);
    cmp!(height_absolute);
    cmp!(seconds_absolute);
    cmp!(before_height_absolute);
    cmp!(before_seconds_absolute);
    cmp!(agg_sig_unsafe);
    cmp!(removal_amount);
    cmp!(addition_amount);
    if costs {
        cmp!(condition_cost);
    }
    if model.spends.len() != got.spends.len() {
        return Some(format!("number of spends: model {} vs implementation {}", model.spends.len(), got.spends.len()));
    }
    for (i, (m, g)) in model.spends.iter().zip(got.spends.iter()).enumerate() {
        macro_rules! cmps {
            ($f:ident) => {
                if m.$f != g.$f {
                    return Some(format!("spend[{i}].{}: model {:?} vs implementation {:?}", stringify!($f), m.$f, g.$f));
                }
            };
        }
        cmps!(coin_id);
        cmps!(parent_id);
        cmps!(puzzle_hash);
        cmps!(coin_amount);
        cmps!(height_relative);
        cmps!(seconds_relative);
        cmps!(before_height_relative);
        cmps!(before_seconds_relative);
        cmps!(birth_height);
        cmps!(birth_seconds);
        cmps!(create_coin);
        cmps!(agg_sig_me);
        cmps!(agg_sig_parent);
        cmps!(agg_sig_puzzle);
        cmps!(agg_sig_amount);
        cmps!(agg_sig_puzzle_amount);
        cmps!(agg_sig_parent_amount);
        cmps!(agg_sig_parent_puzzle);
        if costs {
            cmps!(condition_cost);
        }
        if (m.flags & !mask_flags) != (g.flags & !mask_flags) {
            return Some(format!("spend[{i}].flags: model {:#b} vs implementation {:#b} (mask {:#b})", m.flags, g.flags, mask_flags));
        }
    }
    None
}

/// which summary field class a diff string refers to (for violation signatures)
pub fn diff_class(d: &str) -> String {
    let head = d.split(':').next().unwrap_or("");
    let field = head.rsplit('.').next().unwrap_or(head);
    field.trim().to_string()
}

pub fn visitor_name(v: MVisitor) -> &'static str {
    match v {
        MVisitor::Empty => "block",
        MVisitor::Mempool => "mempool",
    }
}

/// key of a spend by (parent, amount) alone (see `reveals_of`)
pub fn reveal_slot(parent: &[u8; 32], amount: u64) -> [u8; 32] {
    sha256(&[b"reveal-slot", parent, &amount.to_be_bytes()])
}

/// C02: invariants every accepted result of every entry point must satisfy.
/// Called by all consensus monitors on every `Ok` they obtain.
pub fn accept_invariants(
    rep: &mut Report,
    entry: &str,
    o: &OwnedSpendBundleConditions,
    max_cost: Option<u64>,
    reveals: Option<&HashMap<[u8; 32], [u8; 32]>>, // coin id -> tree hash of the revealed puzzle (model's)
    witness: &dyn Fn() -> Value,
) {
    rep.count(&format!("c02:accepted:{entry}"));
    if rep.prop == "C02" {
        let outs: usize = o.spends.iter().map(|s| s.create_coin.len()).sum();
        rep.cell(&format!("{entry}:spends{}:outs{}:big{}:fee{}", o.spends.len().min(8), outs.min(6), o.removal_amount >= 1u128 << 64, o.reserve_fee > 0));
    }
    let fail = |rep: &mut Report, what: &str, msg: String| {
        rep.violation(
            &format!("accepted-invariant:{what}"),
            &format!("{entry}: {msg}"),
            json!({"entry": entry, "witness": witness()}),
        );
    };
    let removal: u128 = o.spends.iter().map(|s| u128::from(s.coin_amount)).sum();
    let addition: u128 = o
        .spends
        .iter()
        .flat_map(|s| s.create_coin.iter())
        .map(|c| u128::from(c.1))
        .sum();
    if removal >= 1u128 << 64 {
        rep.count("c02:removal>=2^64");
    }
    if o.removal_amount != removal {
        fail(rep, "removal-total", format!("removal_amount {} != sum of spent amounts {removal}", o.removal_amount));
    }
    if o.addition_amount != addition {
        fail(rep, "addition-total", format!("addition_amount {} != sum of created amounts {addition}", o.addition_amount));
    }
    if addition + u128::from(o.reserve_fee) > removal {
        fail(rep, "conservation", format!("created {addition} + reserved fee {} exceeds spent {removal}", o.reserve_fee));
    }
    let mut ids = HashSet::new();
    for s in &o.spends {
        if !ids.insert(s.coin_id) {
            fail(rep, "double-spend", format!("coin id {} listed twice", hx(&s.coin_id)));
        }
        let want = sha256(&[&s.parent_id, &s.puzzle_hash, &minimal_be_u64(s.coin_amount)]);
        if s.coin_id.to_bytes() != want {
            fail(rep, "coin-id", format!("coin id {} is not sha256(parent|puzzle_hash|minimal amount) = {}", hx(&s.coin_id), hx(&want)));
        }
        let mut outs = HashSet::new();
        for c in &s.create_coin {
            if !outs.insert((c.0, c.1)) {
                fail(rep, "duplicate-output", format!("spend {} creates ({}, {}) twice", hx(&s.coin_id), hx(&c.0), c.1));
            }
        }
        if let Some(r) = reveals {
            if let Some(h) = r.get(&want).or_else(|| r.get(&reveal_slot(&s.parent_id.to_bytes(), s.coin_amount))) {
                rep.count("c02:puzzle-hash-checked");
                if s.puzzle_hash.to_bytes() != *h {
                    fail(rep, "puzzle-hash", format!("reported puzzle hash {} is not the tree hash of the reveal {}", hx(&s.puzzle_hash), hx(h)));
                }
            }
        }
    }
    if let Some(mc) = max_cost {
        if o.cost > mc {
            fail(rep, "cost-above-limit", format!("reported cost {} above the limit {mc} it was given", o.cost));
        }
    }
    let cc: u64 = o.spends.iter().map(|s| s.condition_cost).sum();
    if cc != o.condition_cost {
        fail(rep, "condition-cost-sum", format!("bundle condition_cost {} != sum over spends {cc}", o.condition_cost));
    }
}

pub fn bundle_json(b: &vcore::bundlegen::ABundle) -> Value {
    json!({"output": b.output().show(), "output_hex": hx(&b.output().serialize()), "tags": b.tags})
}
