//! C19 — mempool rewrites preserve spend validity and meaning.
//! Dedup half (this file): equal fingerprints imply identical parsed
//! conditions; the dedup flag is set only when the rules allow it.
//! Fast-forward half: c19_ff.rs.

use crate::common::*;
use crate::entry::*;
use chia_bls::Signature;
use chia_consensus::flags::{ConsensusFlags, MEMPOOL_MODE};
use chia_consensus::owned_conditions::OwnedSpendConditions;
use chia_protocol::{Bytes32, Coin, CoinSpend, Program, SpendBundle};
use serde_json::json;
use vcore::bundlegen::{hint_shape, puzzle};
use vcore::conditions::ELIGIBLE_FOR_DEDUP;
use vcore::ints::minimal_be_u64;
use vcore::report::run_cases;
use vcore::{Args, Report, Rng, Sx};

fn cond(op: u8, args: &[Sx]) -> Sx {
    Sx::pair(Sx::atom(&[op]), Sx::list(args))
}

fn int(v: u64) -> Sx {
    Sx::atom(&minimal_be_u64(v))
}

/// a dedup-eligible condition list for a coin of `amount` (sometimes deliberately not eligible)
fn base_conditions(rng: &mut Rng, amount: u64, ph: &[u8; 32], coin_id: &[u8; 32], parent: &[u8; 32], pk: &[u8]) -> Vec<Sx> {
    let mut v = vec![];
    // outputs: usually cover the amount
    let mut left = amount;
    let outs = 1 + rng.usize(3);
    for k in 0..outs {
        let a = if k + 1 == outs { left } else { rng.below(left.saturating_add(1).max(1)) };
        left -= a;
        let dest = vcore::sha256(&[b"dedup-out", &[k as u8, rng.below(3) as u8]]);
        let (memo, _) = hint_shape(rng);
        let mut args = vec![Sx::atom(&dest), int(a)];
        if let Some(m) = memo {
            args.push(m);
        }
        if !v.iter().any(|c: &Sx| c.unlist().0.get(1).map(|x| (*x).clone()) == Some(Sx::atom(&dest)) && c.unlist().0.get(2).map(|x| (*x).clone()) == Some(int(a))) {
            v.push(cond(51, &args));
        }
    }
    for _ in 0..rng.usize(6) {
        let c = match rng.below(16) {
            0 => cond(1, &[Sx::atom(b"ab"), Sx::atom(b"c")]),
            1 => {
                let n = rng.usize(4) + 1;
                cond(60, &[Sx::atom(&rng.bytes(n))])
            }
            2 => cond(62, &[Sx::atom(b"hello")]),
            3 => cond(70, &[Sx::atom(coin_id)]),
            4 => cond(71, &[Sx::atom(parent)]),
            5 => cond(72, &[Sx::atom(ph)]),
            6 => cond(73, &[int(amount)]),
            7 => cond(81, &[int(rng.below(100))]),
            8 => cond(83, &[int(rng.below(100))]),
            9 => cond(85, &[int(1_000_000 + rng.below(100))]),
            10 => cond(87, &[int(1_000_000 + rng.below(100))]),
            11 => cond(80, &[int(rng.below(5))]),
            12 => cond(52, &[int(0)]),
            13 => cond(64, &[Sx::atom(coin_id)]),
            14 => cond(65, &[Sx::atom(ph)]),
            // not eligible on purpose
            _ => match rng.below(4) {
                0 => cond(66, &[int(0), Sx::atom(b"m")]),
                1 => cond(67, &[int(0), Sx::atom(b"m")]),
                // any of the eight signature conditions (with outputs that cover the amount or not)
                2 => {
                    let n = 1 + rng.usize(12);
                    let msg = rng.bytes(n);
                    cond(43 + rng.below(8) as u8, &[Sx::atom(pk), Sx::atom(&msg)])
                }
                _ => cond(1, &[Sx::atom(b"x")]),
            },
        };
        v.push(c);
    }
    if rng.chance(1, 12) {
        // unbalanced message pair would fail validation; a balanced one makes the spend ineligible
        v.push(cond(66, &[int(0), Sx::atom(b"mm")]));
        v.push(cond(67, &[int(0), Sx::atom(b"mm")]));
    }
    if rng.chance(1, 10) {
        // an output shortfall: excess value, not eligible
        if let Some(c) = v.first_mut() {
            let (items, _) = c.unlist();
            if items.len() >= 3 {
                if let Some(a) = items[2].as_atom() {
                    if let vcore::ints::UintClass::Ok(val) = vcore::ints::classify_uint(a, 8) {
                        if val > 0 {
                            let mut it: Vec<Sx> = items.iter().map(|x| (*x).clone()).collect();
                            it[2] = int(val - 1);
                            *c = Sx::list(&it);
                        }
                    }
                }
            }
        }
    }
    v
}

/// one edit of the kind the property lists
fn edit(rng: &mut Rng, conds: &[Sx]) -> (Vec<Sx>, &'static str) {
    let mut v: Vec<Sx> = conds.to_vec();
    if v.is_empty() {
        return (v, "identical");
    }
    let k = rng.usize(v.len());
    let (items, term) = v[k].unlist();
    let mut items: Vec<Sx> = items.into_iter().cloned().collect();
    let term = term.clone();
    let kind = match rng.below(10) {
        0 | 1 => "identical",
        2 if items.len() > 1 => {
            // one atom byte
            let j = 1 + rng.usize(items.len() - 1);
            if let Some(b) = items[j].as_atom() {
                let mut b = b.to_vec();
                if !b.is_empty() {
                    let at = rng.usize(b.len());
                    b[at] ^= 1 << rng.below(8);
                    items[j] = Sx::atom(&b);
                }
            }
            "atom-byte"
        }
        3 if items.len() > 2 => {
            // move a byte across an atom boundary
            let j = 1 + rng.usize(items.len() - 2);
            if let (Some(x), Some(y)) = (items[j].as_atom(), items[j + 1].as_atom()) {
                if !x.is_empty() {
                    let (x, y) = (x.to_vec(), y.to_vec());
                    let moved = x[x.len() - 1];
                    items[j] = Sx::atom(&x[..x.len() - 1]);
                    items[j + 1] = Sx::atom(&[&[moved][..], &y].concat());
                }
            }
            "length-split"
        }
        4 | 5 if items.first().and_then(Sx::as_atom) == Some(&[51][..]) && items.len() >= 3 => {
            // another memo shape
            let (memo, _) = hint_shape(rng);
            items.truncate(3);
            if let Some(m) = memo {
                items.push(m);
            }
            "hint-shape"
        }
        6 => {
            v.swap(k, 0);
            return (v, "reorder");
        }
        7 => {
            items.push(Sx::atom(b"tail"));
            "extra-arg"
        }
        8 => {
            v.push(cond(1, &[Sx::atom(&rng.bytes(3))]));
            return (v, "added-remark");
        }
        _ => {
            if items.first().and_then(Sx::as_atom) == Some(&[1][..]) {
                items = vec![Sx::atom(&[1]), Sx::atom(&rng.bytes(2))];
                "remark-payload"
            } else {
                "identical"
            }
        }
    };
    v[k] = Sx::list_term(&items, term);
    (v, kind)
}

fn run_one(ctx: &Ctx, coin: &Coin, conds: &[Sx]) -> Option<OwnedSpendConditions> {
    run_one_with(ctx, coin, conds, true)
}

/// `fingerprint == false`: plain mempool mode (the dedup flag is decided there as well)
fn run_one_with(ctx: &Ctx, coin: &Coin, conds: &[Sx], fingerprint: bool) -> Option<OwnedSpendConditions> {
    let sb = SpendBundle::new(
        vec![CoinSpend::new(*coin, Program::new(puzzle(0).serialize().into()), Program::new(Sx::list(conds).serialize().into()))],
        Signature::default(),
    );
    let mut flags = MEMPOOL_MODE | ConsensusFlags::DONT_VALIDATE_SIGNATURE | ConsensusFlags::COST_CONDITIONS;
    if fingerprint {
        flags |= ConsensusFlags::COMPUTE_FINGERPRINT;
    }
    run_sb(ctx, &sb, 1 << 62, flags).ok().and_then(|(o, _)| o.spends.into_iter().next())
}

/// the rule for dedup eligibility, scanned from the condition list itself
fn may_be_dedup_eligible(amount: u64, conds: &[Sx]) -> bool {
    let mut out: u128 = 0;
    for c in conds {
        let (items, _) = c.unlist();
        let Some(op) = items.first().and_then(|o| o.as_atom()) else { continue };
        if op.len() != 1 {
            continue;
        }
        match op[0] {
            43..=50 | 66 | 67 => return false,
            51 => {
                if let Some(vcore::ints::UintClass::Ok(v)) = items.get(2).and_then(|a| a.as_atom()).map(|a| vcore::ints::classify_uint(a, 8)) {
                    out += u128::from(v);
                }
            }
            _ => {}
        }
    }
    out >= u128::from(amount)
}

fn case(ctx: &Ctx, rng: &mut Rng, rep: &mut Report) {
    let ph = puzzle(0).tree_hash();
    let parent = rng.bytes32();
    let amount = if rng.bool() { rng.below(10_000) } else { *rng.pick(vcore::bundlegen::AMOUNT_POOL) };
    let coin = Coin::new(Bytes32::new(parent), Bytes32::new(ph), amount);
    let coin_id = vcore::sha256(&[&parent, &ph, &minimal_be_u64(amount)]);
    let pk = ctx.keys.valid[rng.usize(ctx.keys.valid.len())].clone();
    let a = base_conditions(rng, amount, &ph, &coin_id, &parent, &pk);
    let (b, kind) = edit(rng, &a);
    let (ra, rb) = (run_one(ctx, &coin, &a), run_one(ctx, &coin, &b));
    rep.eval();
    rep.count(&format!("edit:{kind}"));
    let witness = || json!({"coin_amount": amount, "a": Sx::list(&a).show(), "b": Sx::list(&b).show(), "edit": kind});
    for (r, conds) in [(&ra, &a), (&rb, &b)] {
        if let Some(s) = r {
            rep.count("spends-accepted");
            if s.flags & ELIGIBLE_FOR_DEDUP != 0 {
                rep.count("dedup-flagged");
                if !may_be_dedup_eligible(amount, conds) {
                    rep.violation(
                        "c19-dedup-flag-on-ineligible-spend",
                        "ELIGIBLE_FOR_DEDUP set on a spend that emits a signature/message condition or creates less value than it consumes",
                        witness(),
                    );
                }
                if s.fingerprint.len() != 32 {
                    rep.violation("c19-dedup-fingerprint-missing", "dedup-eligible spend without a 32-byte fingerprint", witness());
                }
            } else {
                rep.count("dedup-not-flagged");
                if !s.fingerprint.is_empty() {
                    rep.violation("c19-fingerprint-on-ineligible-spend", "fingerprint reported for a spend that is not dedup-eligible", witness());
                }
            }
        }
    }
    // the flag as decided without fingerprint computation (a run that computes fingerprints can
    // only be looked at when it accepts)
    if let Some(s) = run_one_with(ctx, &coin, &a, false) {
        rep.eval();
        rep.count("plain-mempool-accepted");
        let sig_or_msg = !may_be_dedup_eligible(0, &a);
        if sig_or_msg {
            rep.count("plain-mempool:signature-or-message-spend");
        }
        if s.flags & ELIGIBLE_FOR_DEDUP != 0 && !may_be_dedup_eligible(amount, &a) {
            rep.violation(
                "c19-dedup-flag-on-ineligible-spend",
                "ELIGIBLE_FOR_DEDUP set (plain mempool mode) on a spend that emits a signature/message condition or creates less value than it consumes",
                witness(),
            );
        }
    }
    if let (Some(sa), Some(sb)) = (&ra, &rb) {
        let both = sa.flags & sb.flags & ELIGIBLE_FOR_DEDUP != 0;
        if both {
            rep.count("pairs-both-eligible");
            let mut ma = sa.clone();
            let mut mb = sb.clone();
            ma.execution_cost = 0;
            mb.execution_cost = 0;
            ma.create_coin.sort();
            mb.create_coin.sort();
            if sa.fingerprint == sb.fingerprint {
                rep.count("pairs-equal-fingerprint");
                rep.cell(&format!("equal-fp:{kind}"));
                if ma != mb {
                    rep.violation(
                        &format!("c19-equal-fingerprints-different-conditions:{kind}"),
                        "two spends of the same coin with equal dedup fingerprints have different parsed conditions",
                        witness(),
                    );
                }
            } else {
                rep.count("pairs-different-fingerprint");
                rep.cell(&format!("diff-fp:{kind}"));
            }
        }
    }
    if rep.want_sample() {
        rep.sample(witness());
    }
}

pub fn run(args: &Args, rep: &mut Report) {
    let ctx = Ctx::new();
    let n = args.cases(60_000, 1_000_000);
    if args.shard == 0 && args.only_case.is_none() {
        crate::c19_ff::recorded(&ctx, rep);
    }
    run_cases(args, "c19", n, rep, |_i, rng, rep| {
        // drawn from the case's own rng: `i % k` would tie the case kind to the shard number
        if rng.chance(1, 4) {
            crate::c19_ff::case(&ctx, rng, rep, args.thorough());
        } else {
            case(&ctx, rng, rep);
        }
    });
}
