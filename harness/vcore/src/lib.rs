//! Shared, repository-independent core of the verification harness:
//! deterministic RNG, the model's own CLVM value type, reference models,
//! and the reporting layer every monitor writes its observations into.
//!
//! Nothing in this crate imports a crate from /repo. `clvmr` is used only to
//! materialise model trees in an `Allocator` (trusted, see DESIGN.md §5).

pub mod bundlegen;
pub mod cli;
pub mod conditions;
pub mod ints;
pub mod merkle_set;
pub mod report;
pub mod rng;
pub mod sx;
pub mod timelocks;

pub use cli::Args;
pub use report::Report;
pub use rng::Rng;
pub use sx::Sx;

use sha2::{Digest, Sha256};

/// SHA-256 over the concatenation of `parts`, using the `sha2` crate
/// directly (not the repository's wrapper).
pub fn sha256(parts: &[&[u8]]) -> [u8; 32] {
    let mut h = Sha256::new();
    for p in parts {
        h.update(p);
    }
    h.finalize().into()
}

pub fn hx(b: &[u8]) -> String {
    hex::encode(b)
}
