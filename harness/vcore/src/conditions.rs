//! Reference model of Chia spend-condition validation (DESIGN Appendix A).
//!
//! Input: the value a block generator / spend bundle outputs, as an `Sx`
//! tree, plus flags, visitor kind and the network's domain constants.
//! Output: `Reject(reason)` or `Accept(summary)`.
//!
//! The model is written as *declarative passes over the whole tree* (decode
//! every condition first, then apply rules), not as the implementation's
//! single incremental loop with a cost countdown; it imports nothing from
//! /repo. Error reasons are informational only — monitors compare accept vs
//! reject and, on accept, the summary.

use crate::ints::{classify_uint, UintClass};
use crate::sha256;
use crate::sx::Sx;
use num_bigint::BigUint;
use std::collections::{BTreeMap, BTreeSet, HashMap, HashSet};

pub const ELIGIBLE_FOR_DEDUP: u32 = 1;
pub const HAS_RELATIVE_CONDITION: u32 = 2;
pub const ELIGIBLE_FOR_FF: u32 = 4;

pub const MAX_SPENDS: usize = 6000;

#[derive(Clone, Copy, Debug, PartialEq, Eq, Default)]
pub struct MFlags {
    pub no_unknown_conds: bool,
    pub strict_args: bool,
    pub cost_conditions: bool,
    pub limit_spends: bool,
    pub dont_validate_signature: bool,
}

#[derive(Clone, Copy, Debug, PartialEq, Eq)]
pub enum MVisitor {
    Empty,
    Mempool,
}

/// domain-separation constants, indexed by AGG_SIG opcode
#[derive(Clone, Debug)]
pub struct MConstants {
    pub me: Vec<u8>,
    pub parent: Vec<u8>,
    pub puzzle: Vec<u8>,
    pub amount: Vec<u8>,
    pub puzzle_amount: Vec<u8>,
    pub parent_amount: Vec<u8>,
    pub parent_puzzle: Vec<u8>,
}

impl MConstants {
    pub fn all(&self) -> [&Vec<u8>; 7] {
        [
            &self.me,
            &self.parent,
            &self.puzzle,
            &self.amount,
            &self.puzzle_amount,
            &self.parent_amount,
            &self.parent_puzzle,
        ]
    }
}

#[derive(Clone, Debug, PartialEq, Eq, PartialOrd, Ord)]
pub struct MCoin {
    pub puzzle_hash: [u8; 32],
    pub amount: u64,
    pub hint: Option<Vec<u8>>,
}

pub type PkMsg = (Vec<u8>, Vec<u8>);

#[derive(Clone, Debug, Default, PartialEq, Eq)]
pub struct MSpend {
    pub coin_id: [u8; 32],
    pub parent_id: [u8; 32],
    pub puzzle_hash: [u8; 32],
    pub coin_amount: u64,
    pub height_relative: Option<u32>,
    pub seconds_relative: Option<u64>,
    pub before_height_relative: Option<u32>,
    pub before_seconds_relative: Option<u64>,
    pub birth_height: Option<u32>,
    pub birth_seconds: Option<u64>,
    /// sorted by (puzzle hash, amount)
    pub create_coin: Vec<MCoin>,
    pub agg_sig_me: Vec<PkMsg>,
    pub agg_sig_parent: Vec<PkMsg>,
    pub agg_sig_puzzle: Vec<PkMsg>,
    pub agg_sig_amount: Vec<PkMsg>,
    pub agg_sig_puzzle_amount: Vec<PkMsg>,
    pub agg_sig_parent_amount: Vec<PkMsg>,
    pub agg_sig_parent_puzzle: Vec<PkMsg>,
    pub flags: u32,
    pub condition_cost: u64,
}

#[derive(Clone, Debug, Default, PartialEq, Eq)]
pub struct MBundle {
    pub spends: Vec<MSpend>,
    pub reserve_fee: u64,
    pub height_absolute: u32,
    pub seconds_absolute: u64,
    pub before_height_absolute: Option<u32>,
    pub before_seconds_absolute: Option<u64>,
    pub agg_sig_unsafe: Vec<PkMsg>,
    pub removal_amount: u128,
    pub addition_amount: u128,
    pub condition_cost: u64,
    /// the (public key, full message) pairs the aggregate signature must cover, in order
    pub pkm_pairs: Vec<PkMsg>,
}

#[derive(Clone, Debug, PartialEq, Eq)]
pub enum Verdict {
    Reject(String),
    Accept(Box<MBundle>),
}

impl Verdict {
    pub fn accepted(&self) -> Option<&MBundle> {
        match self {
            Verdict::Accept(b) => Some(b),
            Verdict::Reject(_) => None,
        }
    }
}

// ---------------------------------------------------------------------------
// cost table

pub const AGG_SIG_COST: u64 = 1_200_000;
pub const CREATE_COIN_COST_PRE: u64 = 1_800_000;
pub const CREATE_COIN_COST_POST: u64 = 1_350_000;
pub const SPEND_COST_POST: u64 = 450_000;
pub const MESSAGE_CLASS_COST_POST: u64 = 700;
pub const GENERIC_COST_POST: u64 = 200;

/// price of a two-byte opcode with low byte `b`: 100·17^b/16^b truncated to three
/// significant decimal digits (exact integer arithmetic)
pub fn two_byte_cost(b: u8) -> u64 {
    let num = BigUint::from(100u32) * BigUint::from(17u32).pow(u32::from(b));
    let den = BigUint::from(16u32).pow(u32::from(b));
    let v = num / den;
    let mut p = BigUint::from(1u32);
    while &p * 1000u32 < v {
        p *= 10u32;
    }
    let r = (&v / &p) * &p;
    let d = r.to_u64_digits();
    assert!(d.len() <= 1);
    d.first().copied().unwrap_or(0)
}

// ---------------------------------------------------------------------------
// opcodes

#[derive(Clone, Copy, Debug, PartialEq, Eq)]
pub enum Op {
    Known(u8),
    /// two bytes, first byte non-zero; carries the low byte
    Priced(u8),
    Unknown,
}

pub const KNOWN_OPCODES: [u8; 35] = [
    1, 43, 44, 45, 46, 47, 48, 49, 50, 51, 52, 60, 61, 62, 63, 64, 65, 66, 67, 70, 71, 72, 73, 74, 75, 76,
    80, 81, 82, 83, 84, 85, 86, 87, 90,
];

pub fn classify_opcode(x: &Sx) -> Op {
    let Some(b) = x.as_atom() else {
        return Op::Unknown;
    };
    match b.len() {
        1 if KNOWN_OPCODES.contains(&b[0]) => Op::Known(b[0]),
        2 if b[0] != 0 => Op::Priced(b[1]),
        _ => Op::Unknown,
    }
}

fn is_message_class(op: u8) -> bool {
    (60..=67).contains(&op)
}

fn is_agg_sig(op: u8) -> bool {
    (43..=50).contains(&op)
}

// ---------------------------------------------------------------------------
// argument access helpers over improper lists

struct Args<'a> {
    cur: &'a Sx,
}

impl<'a> Args<'a> {
    /// next argument; Err if the list ended
    fn take(&mut self, what: &str) -> Result<&'a Sx, String> {
        match self.cur.as_pair() {
            Some((a, rest)) => {
                self.cur = rest;
                Ok(a)
            }
            None => Err(format!("missing argument: {what}")),
        }
    }
    /// what remains after the consumed arguments
    fn tail(&self) -> &'a Sx {
        self.cur
    }
}

fn atom_of_len<'a>(x: &'a Sx, n: usize, what: &str) -> Result<&'a [u8], String> {
    match x.as_atom() {
        Some(b) if b.len() == n => Ok(b),
        Some(b) => Err(format!("{what}: atom of {} bytes, need {n}", b.len())),
        None => Err(format!("{what}: pair where atom expected")),
    }
}

fn msg_atom<'a>(x: &'a Sx, what: &str) -> Result<&'a [u8], String> {
    match x.as_atom() {
        Some(b) if b.len() <= 1024 => Ok(b),
        Some(_) => Err(format!("{what}: longer than 1024 bytes")),
        None => Err(format!("{what}: pair where atom expected")),
    }
}

fn uint(x: &Sx, w: usize, what: &str) -> Result<UintClass, String> {
    match x.as_atom() {
        None => Err(format!("{what}: pair where integer expected")),
        Some(b) => match classify_uint(b, w) {
            UintClass::Malformed => Err(format!("{what}: redundant leading zero")),
            c => Ok(c),
        },
    }
}

/// integer that must be in range (amounts, fees, birth assertions)
fn strict_uint(x: &Sx, w: usize, what: &str) -> Result<u64, String> {
    match uint(x, w, what)? {
        UintClass::Ok(v) => Ok(v),
        UintClass::Negative => Err(format!("{what}: negative")),
        UintClass::TooBig => Err(format!("{what}: exceeds {w} bytes")),
        UintClass::Malformed => unreachable!(),
    }
}

fn arr32(b: &[u8]) -> [u8; 32] {
    b.try_into().expect("32 bytes")
}

// ---------------------------------------------------------------------------
// decoded conditions

#[derive(Clone, Debug, PartialEq, Eq, Hash, PartialOrd, Ord)]
pub enum Party {
    None,
    CoinId([u8; 32]),
    Parent([u8; 32]),
    Puzzle([u8; 32]),
    Amount(u64),
    PuzzleAmount([u8; 32], u64),
    ParentAmount([u8; 32], u64),
    ParentPuzzle([u8; 32], [u8; 32]),
}

#[derive(Clone, Debug)]
enum Cond {
    AggSig(u8, Vec<u8>, Vec<u8>),
    CreateCoin([u8; 32], u64, Option<Vec<u8>>),
    ReserveFee(u64),
    CreateCoinAnn(Vec<u8>),
    CreatePuzzleAnn(Vec<u8>),
    AssertCoinAnn([u8; 32]),
    AssertPuzzleAnn([u8; 32]),
    AssertConcurrentSpend([u8; 32]),
    AssertConcurrentPuzzle([u8; 32]),
    AssertMyCoinId([u8; 32]),
    AssertMyParentId([u8; 32]),
    AssertMyPuzzlehash([u8; 32]),
    AssertMyAmount(u64),
    AssertMyBirthSeconds(u64),
    AssertMyBirthHeight(u32),
    AssertEphemeral,
    SecondsRelative(u64),
    SecondsAbsolute(u64),
    HeightRelative(u32),
    HeightAbsolute(u32),
    BeforeSecondsRelative(u64),
    BeforeSecondsAbsolute(u64),
    BeforeHeightRelative(u32),
    BeforeHeightAbsolute(u32),
    /// extra cost on top of the generic charge
    Priced(u64),
    /// mode bits of the *own* side, the other party's committed attributes, message
    Send(u8, Party, Vec<u8>),
    Receive(u8, Party, Vec<u8>),
    /// always true, no effect
    NoOp,
    /// always true, but the spend still counts as carrying a relative condition
    NoOpRelative,
}

fn parse_party(args: &mut Args<'_>, mode: u8) -> Result<Party, String> {
    if mode == 0b111 {
        let id = atom_of_len(args.take("coin id")?, 32, "message coin id")?;
        return Ok(Party::CoinId(arr32(id)));
    }
    let parent = if mode & 0b100 != 0 {
        Some(arr32(atom_of_len(args.take("parent")?, 32, "message parent")?))
    } else {
        None
    };
    let puzzle = if mode & 0b010 != 0 {
        Some(arr32(atom_of_len(args.take("puzzle")?, 32, "message puzzle")?))
    } else {
        None
    };
    let amount = if mode & 0b001 != 0 {
        Some(strict_uint(args.take("amount")?, 8, "message amount")?)
    } else {
        None
    };
    Ok(match (parent, puzzle, amount) {
        (None, None, None) => Party::None,
        (Some(p), None, None) => Party::Parent(p),
        (None, Some(z), None) => Party::Puzzle(z),
        (None, None, Some(a)) => Party::Amount(a),
        (Some(p), Some(z), None) => Party::ParentPuzzle(p, z),
        (Some(p), None, Some(a)) => Party::ParentAmount(p, a),
        (None, Some(z), Some(a)) => Party::PuzzleAmount(z, a),
        (Some(_), Some(_), Some(_)) => unreachable!(),
    })
}

fn own_party(mode: u8, s: &MSpend) -> Party {
    match mode {
        0b111 => Party::CoinId(s.coin_id),
        0b100 => Party::Parent(s.parent_id),
        0b010 => Party::Puzzle(s.puzzle_hash),
        0b001 => Party::Amount(s.coin_amount),
        0b110 => Party::ParentPuzzle(s.parent_id, s.puzzle_hash),
        0b101 => Party::ParentAmount(s.parent_id, s.coin_amount),
        0b011 => Party::PuzzleAmount(s.puzzle_hash, s.coin_amount),
        _ => Party::None,
    }
}

fn require_nil(x: &Sx, what: &str) -> Result<(), String> {
    if x.is_nil() {
        Ok(())
    } else {
        Err(format!("strict argument count: {what} not nil"))
    }
}

/// exactly one argument under STRICT_ARGS_COUNT
fn one_arg<'a>(args: &mut Args<'a>, strict: bool, what: &str) -> Result<&'a Sx, String> {
    let a = args.take(what)?;
    if strict {
        require_nil(args.tail(), "tail after the single argument")?;
    }
    Ok(a)
}

fn decode_condition(
    op: u8,
    args_sx: &Sx,
    flags: MFlags,
    consts: &MConstants,
    key_ok: &dyn Fn(&[u8]) -> bool,
) -> Result<Cond, String> {
    let mut args = Args { cur: args_sx };
    let strict = flags.strict_args;
    match op {
        1 => Ok(Cond::NoOp),
        43..=50 => {
            let pk = atom_of_len(args.take("public key")?, 48, "public key")?;
            let msg = msg_atom(args.take("message")?, "agg sig message")?;
            if strict {
                require_nil(args.tail(), "tail after message")?;
            }
            if op == 49 && msg.len() >= 32 {
                for c in consts.all() {
                    if msg.ends_with(c) {
                        return Err("AGG_SIG_UNSAFE message ends with a domain constant".into());
                    }
                }
            }
            if !key_ok(pk) {
                return Err("public key invalid or infinity".into());
            }
            Ok(Cond::AggSig(op, pk.to_vec(), msg.to_vec()))
        }
        51 => {
            let ph = arr32(atom_of_len(args.take("puzzle hash")?, 32, "create coin puzzle hash")?);
            let amount = strict_uint(args.take("amount")?, 8, "create coin amount")?;
            let tail = args.tail();
            let hint = match tail.as_pair() {
                Some((memos, after)) => {
                    if strict {
                        require_nil(after, "tail after memo list")?;
                    }
                    match memos.first().and_then(Sx::as_atom) {
                        Some(h) if h.len() <= 32 && !h.is_empty() => Some(h.to_vec()),
                        _ => None,
                    }
                }
                None => {
                    if strict {
                        require_nil(tail, "create coin argument terminator")?;
                    }
                    None
                }
            };
            Ok(Cond::CreateCoin(ph, amount, hint))
        }
        52 => Ok(Cond::ReserveFee(strict_uint(one_arg(&mut args, strict, "fee")?, 8, "reserve fee")?)),
        60 => Ok(Cond::CreateCoinAnn(msg_atom(one_arg(&mut args, strict, "msg")?, "announcement")?.to_vec())),
        62 => Ok(Cond::CreatePuzzleAnn(msg_atom(one_arg(&mut args, strict, "msg")?, "announcement")?.to_vec())),
        61 => Ok(Cond::AssertCoinAnn(arr32(atom_of_len(one_arg(&mut args, strict, "id")?, 32, "announcement id")?))),
        63 => Ok(Cond::AssertPuzzleAnn(arr32(atom_of_len(one_arg(&mut args, strict, "id")?, 32, "announcement id")?))),
        64 => Ok(Cond::AssertConcurrentSpend(arr32(atom_of_len(one_arg(&mut args, strict, "id")?, 32, "coin id")?))),
        65 => Ok(Cond::AssertConcurrentPuzzle(arr32(atom_of_len(one_arg(&mut args, strict, "ph")?, 32, "puzzle hash")?))),
        66 | 67 => {
            let mode_atom = args.take("mode")?;
            // the mode must be a canonically encoded integer 0..=63
            let mode = match mode_atom.as_atom().map(|b| classify_uint(b, 4)) {
                Some(UintClass::Ok(v)) if v <= 63 => v as u8,
                _ => return Err("message mode not a canonical integer in 0..=63".into()),
            };
            let msg = msg_atom(args.take("message")?, "message")?.to_vec();
            let (own, other) = if op == 66 { (mode >> 3, mode & 7) } else { (mode & 7, mode >> 3) };
            let party = parse_party(&mut args, other)?;
            if strict {
                require_nil(args.tail(), "tail after message arguments")?;
            }
            Ok(if op == 66 { Cond::Send(own, party, msg) } else { Cond::Receive(own, party, msg) })
        }
        70 => Ok(Cond::AssertMyCoinId(arr32(atom_of_len(one_arg(&mut args, strict, "id")?, 32, "coin id")?))),
        71 => Ok(Cond::AssertMyParentId(arr32(atom_of_len(one_arg(&mut args, strict, "id")?, 32, "parent id")?))),
        72 => Ok(Cond::AssertMyPuzzlehash(arr32(atom_of_len(one_arg(&mut args, strict, "ph")?, 32, "puzzle hash")?))),
        73 => Ok(Cond::AssertMyAmount(strict_uint(one_arg(&mut args, strict, "amount")?, 8, "my amount")?)),
        74 => Ok(Cond::AssertMyBirthSeconds(strict_uint(one_arg(&mut args, strict, "s")?, 8, "birth seconds")?)),
        75 => Ok(Cond::AssertMyBirthHeight(strict_uint(one_arg(&mut args, strict, "h")?, 4, "birth height")? as u32)),
        76 => {
            if strict {
                require_nil(args.tail(), "ASSERT_EPHEMERAL arguments")?;
            }
            Ok(Cond::AssertEphemeral)
        }
        // "after" kinds: a negative bound always holds, an oversized one never does
        80 | 81 | 82 | 83 => {
            let w = if op <= 81 { 8 } else { 4 };
            let relative = op == 80 || op == 82;
            match uint(one_arg(&mut args, strict, "bound")?, w, "time lock")? {
                UintClass::TooBig => Err("after-lock bound exceeds the type: can never hold".into()),
                UintClass::Negative => Ok(if relative { Cond::NoOpRelative } else { Cond::NoOp }),
                UintClass::Ok(v) => Ok(match op {
                    80 => Cond::SecondsRelative(v),
                    81 => Cond::SecondsAbsolute(v),
                    82 => Cond::HeightRelative(v as u32),
                    _ => Cond::HeightAbsolute(v as u32),
                }),
                UintClass::Malformed => unreachable!(),
            }
        }
        // "before" kinds: a negative bound never holds, an oversized one always does
        84 | 85 | 86 | 87 => {
            let w = if op <= 85 { 8 } else { 4 };
            let relative = op == 84 || op == 86;
            match uint(one_arg(&mut args, strict, "bound")?, w, "time lock")? {
                UintClass::Negative => Err("before-lock bound negative: can never hold".into()),
                UintClass::TooBig => Ok(if relative { Cond::NoOpRelative } else { Cond::NoOp }),
                UintClass::Ok(v) => Ok(match op {
                    84 => Cond::BeforeSecondsRelative(v),
                    85 => Cond::BeforeSecondsAbsolute(v),
                    86 => Cond::BeforeHeightRelative(v as u32),
                    _ => Cond::BeforeHeightAbsolute(v as u32),
                }),
                UintClass::Malformed => unreachable!(),
            }
        }
        90 => {
            if flags.no_unknown_conds {
                return Err("SOFTFORK condition in no-unknown-conditions mode".into());
            }
            let c = strict_uint(args.take("cost")?, 4, "softfork cost")?;
            Ok(Cond::Priced(c * 10_000))
        }
        _ => unreachable!("opcode {op} is not in the known set"),
    }
}

// ---------------------------------------------------------------------------
// the evaluation

struct Decoded {
    spend: MSpend,
    conds: Vec<Cond>,
}

/// Evaluate a generator output. `max_cost` bounds the total condition cost
/// (table costs only; CLVM cost is outside this model).
pub fn evaluate(
    output: &Sx,
    flags: MFlags,
    visitor: MVisitor,
    consts: &MConstants,
    max_cost: u64,
    key_ok: &dyn Fn(&[u8]) -> bool,
) -> Verdict {
    match evaluate_inner(output, flags, visitor, consts, max_cost, key_ok) {
        Ok(b) => Verdict::Accept(Box::new(b)),
        Err(e) => Verdict::Reject(e),
    }
}

fn evaluate_inner(
    output: &Sx,
    flags: MFlags,
    visitor: MVisitor,
    consts: &MConstants,
    max_cost: u64,
    key_ok: &dyn Fn(&[u8]) -> bool,
) -> Result<MBundle, String> {
    // ---- pass 1: shape of the output, spends and condition lists -----------
    let spend_list = output.first().ok_or("generator output is an atom")?;
    let (spend_items, spend_term) = spend_list.unlist();
    if !spend_term.is_nil() {
        return Err("spend list not nil-terminated".into());
    }
    if flags.limit_spends && spend_items.len() > MAX_SPENDS {
        return Err("more than 6000 spends".into());
    }

    let mut decoded: Vec<Decoded> = Vec::with_capacity(spend_items.len());
    let mut total_cost: u128 = 0;
    let mut seen_ids: HashSet<[u8; 32]> = HashSet::new();

    for sp in spend_items {
        let mut f = Args { cur: sp };
        let parent = f.take("parent id")?;
        let ph = f.take("puzzle hash")?;
        let amount_sx = f.take("amount")?;
        let conds_sx = f.take("condition list")?;
        let parent = arr32(atom_of_len(parent, 32, "parent id")?);
        let ph = arr32(atom_of_len(ph, 32, "puzzle hash")?);
        let amount = strict_uint(amount_sx, 8, "coin amount")?;
        let coin_id = sha256(&[&parent, &ph, amount_sx.as_atom().unwrap()]);
        if !seen_ids.insert(coin_id) {
            return Err("double spend".into());
        }
        let mut spend = MSpend {
            coin_id,
            parent_id: parent,
            puzzle_hash: ph,
            coin_amount: amount,
            ..Default::default()
        };
        if flags.cost_conditions {
            spend.condition_cost += SPEND_COST_POST;
        }

        let (cond_items, cond_term) = conds_sx.unlist();
        if !cond_term.is_nil() {
            return Err("condition list not nil-terminated".into());
        }
        let mut conds = Vec::with_capacity(cond_items.len());
        for c in cond_items {
            let (opx, argsx) = c.as_pair().ok_or("condition is an atom")?;
            match classify_opcode(opx) {
                Op::Unknown => {
                    if flags.no_unknown_conds {
                        return Err("unknown condition opcode".into());
                    }
                    if flags.cost_conditions {
                        spend.condition_cost += GENERIC_COST_POST;
                    }
                }
                Op::Priced(b) => {
                    if flags.no_unknown_conds {
                        return Err("unknown (priced) condition opcode".into());
                    }
                    if flags.cost_conditions {
                        spend.condition_cost += GENERIC_COST_POST;
                    }
                    conds.push(Cond::Priced(two_byte_cost(b)));
                }
                Op::Known(op) => {
                    spend.condition_cost += if op == 51 {
                        if flags.cost_conditions { CREATE_COIN_COST_POST } else { CREATE_COIN_COST_PRE }
                    } else if is_agg_sig(op) {
                        AGG_SIG_COST
                    } else if !flags.cost_conditions {
                        0
                    } else if is_message_class(op) {
                        MESSAGE_CLASS_COST_POST
                    } else {
                        GENERIC_COST_POST
                    };
                    conds.push(decode_condition(op, argsx, flags, consts, key_ok)?);
                }
            }
        }
        for c in &conds {
            if let Cond::Priced(extra) = c {
                spend.condition_cost = spend
                    .condition_cost
                    .checked_add(*extra)
                    .ok_or("condition cost overflow")?;
            }
        }
        total_cost += u128::from(spend.condition_cost);
        decoded.push(Decoded { spend, conds });
    }
    if total_cost > u128::from(max_cost) {
        return Err("cost exceeded".into());
    }

    // ---- pass 2: per-spend rules ------------------------------------------------
    let mut b = MBundle::default();
    let mut reserve_fee: u128 = 0;
    let mut coin_announcements: HashSet<[u8; 32]> = HashSet::new();
    let mut puzzle_announcements: HashSet<[u8; 32]> = HashSet::new();
    let mut assert_coin_ann: Vec<[u8; 32]> = vec![];
    let mut assert_puzzle_ann: Vec<[u8; 32]> = vec![];
    let mut assert_conc_spend: Vec<[u8; 32]> = vec![];
    let mut assert_conc_puzzle: Vec<[u8; 32]> = vec![];
    let mut must_be_ephemeral: Vec<usize> = vec![];
    let mut must_not_be_ephemeral: BTreeSet<usize> = BTreeSet::new();
    // (sender mode, sender attrs, receiver mode, receiver attrs, message) -> sent - received
    let mut messages: BTreeMap<(Party, Party, Vec<u8>), i64> = BTreeMap::new();
    let mut after_h_abs: Vec<u32> = vec![];
    let mut after_s_abs: Vec<u64> = vec![];
    let mut before_h_abs: Vec<u32> = vec![];
    let mut before_s_abs: Vec<u64> = vec![];

    for (idx, d) in decoded.iter_mut().enumerate() {
        let s = &mut d.spend;
        b.removal_amount += u128::from(s.coin_amount);
        let mut dedup = true;
        let mut ff = s.coin_amount & 1 == 1;
        let mut outputs: BTreeMap<([u8; 32], u64), Option<Vec<u8>>> = BTreeMap::new();
        let mut after_h_rel: Vec<u32> = vec![];
        let mut after_s_rel: Vec<u64> = vec![];
        let mut before_h_rel: Vec<u32> = vec![];
        let mut before_s_rel: Vec<u64> = vec![];
        let mut births_h: BTreeSet<u32> = BTreeSet::new();
        let mut births_s: BTreeSet<u64> = BTreeSet::new();
        let mut relative = false;
        let mut class_60_67 = 0usize;

        for (pos, c) in d.conds.iter().enumerate() {
            match c {
                Cond::AggSig(op, pk, msg) => {
                    dedup = false;
                    let amt = crate::ints::minimal_be_u64(s.coin_amount);
                    let (list, attrs, dom): (Option<&mut Vec<PkMsg>>, Vec<u8>, Option<&Vec<u8>>) = match op {
                        43 => (Some(&mut s.agg_sig_parent), s.parent_id.to_vec(), Some(&consts.parent)),
                        44 => (Some(&mut s.agg_sig_puzzle), s.puzzle_hash.to_vec(), Some(&consts.puzzle)),
                        45 => (Some(&mut s.agg_sig_amount), amt.clone(), Some(&consts.amount)),
                        46 => (
                            Some(&mut s.agg_sig_puzzle_amount),
                            [&s.puzzle_hash[..], &amt].concat(),
                            Some(&consts.puzzle_amount),
                        ),
                        47 => (
                            Some(&mut s.agg_sig_parent_amount),
                            [&s.parent_id[..], &amt].concat(),
                            Some(&consts.parent_amount),
                        ),
                        48 => (
                            Some(&mut s.agg_sig_parent_puzzle),
                            [&s.parent_id[..], &s.puzzle_hash[..]].concat(),
                            Some(&consts.parent_puzzle),
                        ),
                        50 => (Some(&mut s.agg_sig_me), s.coin_id.to_vec(), Some(&consts.me)),
                        _ => (None, vec![], None),
                    };
                    if matches!(op, 43 | 47 | 48 | 50) {
                        ff = false;
                    }
                    let mut full = msg.clone();
                    full.extend_from_slice(&attrs);
                    if let Some(dm) = dom {
                        full.extend_from_slice(dm);
                    }
                    match list {
                        Some(l) => l.push((pk.clone(), msg.clone())),
                        None => b.agg_sig_unsafe.push((pk.clone(), msg.clone())),
                    }
                    b.pkm_pairs.push((pk.clone(), full));
                }
                Cond::CreateCoin(ph, amount, hint) => {
                    if outputs.insert((*ph, *amount), hint.clone()).is_some() {
                        return Err("duplicate output".into());
                    }
                    b.addition_amount += u128::from(*amount);
                }
                Cond::ReserveFee(f) => {
                    reserve_fee += u128::from(*f);
                }
                Cond::CreateCoinAnn(m) => {
                    class_60_67 += 1;
                    ff = false;
                    coin_announcements.insert(sha256(&[&s.coin_id, m]));
                }
                Cond::CreatePuzzleAnn(m) => {
                    class_60_67 += 1;
                    puzzle_announcements.insert(sha256(&[&s.puzzle_hash, m]));
                }
                Cond::AssertCoinAnn(id) => {
                    class_60_67 += 1;
                    assert_coin_ann.push(*id);
                }
                Cond::AssertPuzzleAnn(id) => {
                    class_60_67 += 1;
                    assert_puzzle_ann.push(*id);
                }
                Cond::AssertConcurrentSpend(id) => {
                    class_60_67 += 1;
                    assert_conc_spend.push(*id);
                }
                Cond::AssertConcurrentPuzzle(ph) => {
                    class_60_67 += 1;
                    assert_conc_puzzle.push(*ph);
                }
                Cond::Send(own_mode, other, msg) => {
                    class_60_67 += 1;
                    dedup = false;
                    if own_mode & 0b100 != 0 {
                        ff = false;
                    }
                    *messages.entry((own_party(*own_mode, s), other.clone(), msg.clone())).or_insert(0) += 1;
                }
                Cond::Receive(own_mode, other, msg) => {
                    class_60_67 += 1;
                    dedup = false;
                    if own_mode & 0b100 != 0 {
                        ff = false;
                    }
                    *messages.entry((other.clone(), own_party(*own_mode, s), msg.clone())).or_insert(0) -= 1;
                }
                Cond::AssertMyCoinId(id) => {
                    ff = false;
                    if *id != s.coin_id {
                        return Err("ASSERT_MY_COIN_ID false".into());
                    }
                }
                Cond::AssertMyParentId(id) => {
                    // fast-forward tolerates this only as the second recognised condition
                    if pos != 1 {
                        ff = false;
                    }
                    if *id != s.parent_id {
                        return Err("ASSERT_MY_PARENT_ID false".into());
                    }
                }
                Cond::AssertMyPuzzlehash(h) => {
                    if *h != s.puzzle_hash {
                        return Err("ASSERT_MY_PUZZLEHASH false".into());
                    }
                }
                Cond::AssertMyAmount(a) => {
                    if *a != s.coin_amount {
                        return Err("ASSERT_MY_AMOUNT false".into());
                    }
                }
                Cond::AssertMyBirthSeconds(v) => {
                    ff = false;
                    relative = true;
                    births_s.insert(*v);
                }
                Cond::AssertMyBirthHeight(v) => {
                    ff = false;
                    relative = true;
                    births_h.insert(*v);
                }
                Cond::AssertEphemeral => {
                    ff = false;
                    must_be_ephemeral.push(idx);
                }
                Cond::SecondsRelative(v) => {
                    ff = false;
                    relative = true;
                    after_s_rel.push(*v);
                }
                Cond::HeightRelative(v) => {
                    ff = false;
                    relative = true;
                    after_h_rel.push(*v);
                }
                Cond::BeforeSecondsRelative(v) => {
                    ff = false;
                    relative = true;
                    before_s_rel.push(*v);
                }
                Cond::BeforeHeightRelative(v) => {
                    ff = false;
                    relative = true;
                    before_h_rel.push(*v);
                }
                Cond::SecondsAbsolute(v) => after_s_abs.push(*v),
                Cond::HeightAbsolute(v) => after_h_abs.push(*v),
                Cond::BeforeSecondsAbsolute(v) => before_s_abs.push(*v),
                Cond::BeforeHeightAbsolute(v) => before_h_abs.push(*v),
                Cond::NoOpRelative => relative = true,
                Cond::Priced(_) | Cond::NoOp => {}
            }
        }

        if !flags.cost_conditions && class_60_67 > 1024 {
            return Err("more than 1024 announcement-class conditions in one spend (pre-fork cap)".into());
        }
        if births_h.len() > 1 || births_s.len() > 1 {
            return Err("contradicting birth assertions".into());
        }
        s.birth_height = births_h.iter().next().copied();
        s.birth_seconds = births_s.iter().next().copied();
        s.height_relative = after_h_rel.iter().max().copied();
        s.seconds_relative = after_s_rel.iter().max().copied();
        s.before_height_relative = before_h_rel.iter().min().copied();
        s.before_seconds_relative = before_s_rel.iter().min().copied();
        // no chain state can satisfy  birth+a <= now < birth+b  when b <= a
        if let (Some(a), Some(bf)) = (s.height_relative, s.before_height_relative) {
            if bf <= a {
                return Err("impossible relative height constraints".into());
            }
        }
        if let (Some(a), Some(bf)) = (s.seconds_relative, s.before_seconds_relative) {
            if bf <= a {
                return Err("impossible relative seconds constraints".into());
            }
        }
        if relative {
            s.flags |= HAS_RELATIVE_CONDITION;
            must_not_be_ephemeral.insert(idx);
        }
        s.create_coin = outputs
            .into_iter()
            .map(|((ph, amount), hint)| MCoin { puzzle_hash: ph, amount, hint })
            .collect();
        if visitor == MVisitor::Mempool {
            let out_sum: u128 = s.create_coin.iter().map(|c| u128::from(c.amount)).sum();
            if u128::from(s.coin_amount) > out_sum {
                dedup = false;
            }
            if !s.create_coin.iter().any(|c| c.puzzle_hash == s.puzzle_hash && c.amount == s.coin_amount) {
                ff = false;
            }
            if dedup {
                s.flags |= ELIGIBLE_FOR_DEDUP;
            }
            if ff {
                s.flags |= ELIGIBLE_FOR_FF;
            }
        }
    }

    // ---- pass 3: bundle-level rules -------------------------------------------------
    if reserve_fee > u128::from(u64::MAX) {
        return Err("reserve fee sum exceeds 64 bits".into());
    }
    b.reserve_fee = reserve_fee as u64;
    b.height_absolute = after_h_abs.iter().max().copied().unwrap_or(0);
    b.seconds_absolute = after_s_abs.iter().max().copied().unwrap_or(0);
    b.before_height_absolute = before_h_abs.iter().min().copied();
    b.before_seconds_absolute = before_s_abs.iter().min().copied();
    b.spends = decoded.into_iter().map(|d| d.spend).collect();
    b.condition_cost = total_cost as u64;

    if b.addition_amount > b.removal_amount {
        return Err("minting: outputs exceed inputs".into());
    }
    if b.removal_amount - b.addition_amount < u128::from(b.reserve_fee) {
        return Err("reserve fee not covered".into());
    }
    // now >= a and now < bf has no solution when bf <= a
    if let Some(bf) = b.before_height_absolute {
        if bf <= b.height_absolute {
            return Err("impossible absolute height constraints".into());
        }
    }
    if let Some(bf) = b.before_seconds_absolute {
        if bf <= b.seconds_absolute {
            return Err("impossible absolute seconds constraints".into());
        }
    }
    let ids: HashMap<[u8; 32], usize> = b.spends.iter().enumerate().map(|(i, s)| (s.coin_id, i)).collect();
    let phs: HashSet<[u8; 32]> = b.spends.iter().map(|s| s.puzzle_hash).collect();
    for id in &assert_conc_spend {
        if !ids.contains_key(id) {
            return Err("ASSERT_CONCURRENT_SPEND without that spend".into());
        }
    }
    for ph in &assert_conc_puzzle {
        if !phs.contains(ph) {
            return Err("ASSERT_CONCURRENT_PUZZLE without that puzzle".into());
        }
    }
    for id in &assert_coin_ann {
        if !coin_announcements.contains(id) {
            return Err("coin announcement assertion without announcement".into());
        }
    }
    for id in &assert_puzzle_ann {
        if !puzzle_announcements.contains(id) {
            return Err("puzzle announcement assertion without announcement".into());
        }
    }
    let is_ephemeral = |i: usize| -> bool {
        let s = &b.spends[i];
        match ids.get(&s.parent_id) {
            None => false,
            Some(p) => b.spends[*p]
                .create_coin
                .iter()
                .any(|c| c.puzzle_hash == s.puzzle_hash && c.amount == s.coin_amount),
        }
    };
    for i in &must_be_ephemeral {
        if !is_ephemeral(*i) {
            return Err("ASSERT_EPHEMERAL on a coin not created in this bundle".into());
        }
    }
    for i in &must_not_be_ephemeral {
        if is_ephemeral(*i) {
            return Err("relative/birth condition on an ephemeral coin".into());
        }
    }
    if messages.values().any(|v| *v != 0) {
        return Err("message sent and received counts differ".into());
    }

    // ---- mempool post-processing ------------------------------------------------------
    if visitor == MVisitor::Mempool {
        let mut clear: Vec<usize> = vec![];
        for id in &assert_conc_spend {
            clear.push(ids[id]);
        }
        for (i, s) in b.spends.iter().enumerate() {
            for c in &s.create_coin {
                let child = sha256(&[&s.coin_id, &c.puzzle_hash, &crate::ints::minimal_be_u64(c.amount)]);
                if ids.contains_key(&child) {
                    clear.push(i);
                }
            }
        }
        for i in clear {
            b.spends[i].flags &= !ELIGIBLE_FOR_FF;
        }
    }
    Ok(b)
}

#[cfg(test)]
mod tests {
    use super::*;

    #[test]
    fn cost_table_spot_values() {
        assert_eq!(two_byte_cost(0), 100);
        assert_eq!(two_byte_cost(1), 106);
        assert_eq!(two_byte_cost(2), 112);
        assert!(two_byte_cost(255) > 100_000_000);
    }
}
