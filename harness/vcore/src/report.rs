//! Observation record of one monitor process (one shard). The driver
//! (`/verif/bin/vcheck`) merges the shard files, applies the observation
//! floors, matches violations against known_findings.json and writes the
//! evidence file.

use crate::cli::Args;
use crate::rng::Rng;
use serde_json::{json, Map, Value};
use std::cell::RefCell;
use std::collections::{BTreeMap, BTreeSet};
use std::panic::{catch_unwind, AssertUnwindSafe};

const MAX_SAMPLES: usize = 6;
/// violation records kept per shard: a few per signature (a signature that fires thousands of
/// times, e.g. a known finding, must not crowd out the record of another one) and a global cap
const MAX_VIOLATIONS_KEPT: usize = 600;
const MAX_VIOLATIONS_KEPT_PER_SIG: u64 = 3;
const MAX_CELL_NAMES: usize = 60;

#[derive(Debug)]
pub struct Report {
    pub prop: String,
    pub lane: String,
    pub evaluations: u64,
    pub case: u64,
    cells: BTreeSet<u64>,
    cell_names: Vec<String>,
    counters: BTreeMap<String, u64>,
    samples: Vec<Value>,
    violations: Vec<Value>,
    violation_sigs: BTreeMap<String, u64>,
    harness_errors: Vec<String>,
    extra: Map<String, Value>,
}

fn fnv(s: &str) -> u64 {
    let mut h: u64 = 0xcbf2_9ce4_8422_2325;
    for b in s.bytes() {
        h ^= u64::from(b);
        h = h.wrapping_mul(0x100_0000_01b3);
    }
    h
}

impl Report {
    pub fn new(prop: &str, lane: &str) -> Report {
        Report {
            prop: prop.to_string(),
            lane: lane.to_string(),
            evaluations: 0,
            case: 0,
            cells: BTreeSet::new(),
            cell_names: vec![],
            counters: BTreeMap::new(),
            samples: vec![],
            violations: vec![],
            violation_sigs: BTreeMap::new(),
            harness_errors: vec![],
            extra: Map::new(),
        }
    }

    /// one execution of the code under observation judged by an oracle
    pub fn eval(&mut self) {
        self.evaluations += 1;
    }

    pub fn evals(&mut self, n: u64) {
        self.evaluations += n;
    }

    /// a distinct, non-trivial cell of the property's input space was observed
    pub fn cell(&mut self, key: &str) {
        if self.cells.insert(fnv(key)) && self.cell_names.len() < MAX_CELL_NAMES {
            self.cell_names.push(key.to_string());
        }
    }

    /// distinct case counted by content digest (no name kept)
    pub fn cell_digest(&mut self, digest: u64) {
        self.cells.insert(digest);
    }

    pub fn count(&mut self, key: &str) {
        *self.counters.entry(key.to_string()).or_insert(0) += 1;
    }

    pub fn add(&mut self, key: &str, n: u64) {
        *self.counters.entry(key.to_string()).or_insert(0) += n;
    }

    pub fn counter(&self, key: &str) -> u64 {
        self.counters.get(key).copied().unwrap_or(0)
    }

    pub fn max(&mut self, key: &str, n: u64) {
        let e = self.counters.entry(format!("max:{key}")).or_insert(0);
        if n > *e {
            *e = n;
        }
    }

    pub fn sample(&mut self, v: Value) {
        if self.samples.len() < MAX_SAMPLES {
            self.samples.push(v);
        }
    }

    pub fn want_sample(&self) -> bool {
        self.samples.len() < MAX_SAMPLES
    }

    pub fn set_extra(&mut self, key: &str, v: Value) {
        self.extra.insert(key.to_string(), v);
    }

    /// The property was refuted by an observation. `sig` is the behavioural
    /// signature (what kind of thing failed, no line numbers / addresses);
    /// `detail` carries the concrete witness.
    pub fn violation(&mut self, sig: &str, msg: &str, detail: Value) {
        let n = self.violation_sigs.entry(sig.to_string()).or_insert(0);
        *n += 1;
        if *n <= MAX_VIOLATIONS_KEPT_PER_SIG && self.violations.len() < MAX_VIOLATIONS_KEPT {
            self.violations.push(json!({
                "sig": sig,
                "msg": msg,
                "case": self.case,
                "lane": self.lane,
                "detail": detail,
            }));
        }
    }

    pub fn violation_count(&self) -> u64 {
        self.violation_sigs.values().sum()
    }

    pub fn harness_error(&mut self, msg: &str) {
        if self.harness_errors.len() < 20 {
            self.harness_errors.push(format!("case {}: {msg}", self.case));
        }
    }

    pub fn to_json(&self) -> Value {
        json!({
            "prop": self.prop,
            "lane": self.lane,
            "evaluations": self.evaluations,
            "cells": self.cells.iter().map(|c| format!("{c:016x}")).collect::<Vec<_>>(),
            "cell_names": self.cell_names,
            "counters": self.counters,
            "samples": self.samples,
            "violations": self.violations,
            "violation_sigs": self.violation_sigs,
            "harness_errors": self.harness_errors,
            "extra": self.extra,
        })
    }

    pub fn finish(&self, args: &Args) {
        let s = serde_json::to_string(&self.to_json()).expect("json");
        match &args.out {
            Some(p) => std::fs::write(p, s).expect("write shard report"),
            None => println!("{s}"),
        }
    }
}

thread_local! {
    static LAST_PANIC: RefCell<Option<(String, String)>> = const { RefCell::new(None) };
}

pub fn install_panic_hook() {
    std::panic::set_hook(Box::new(|info| {
        let loc = info
            .location()
            .map(|l| format!("{}:{}", l.file(), l.line()))
            .unwrap_or_else(|| "?".into());
        let msg = if let Some(s) = info.payload().downcast_ref::<&str>() {
            (*s).to_string()
        } else if let Some(s) = info.payload().downcast_ref::<String>() {
            s.clone()
        } else {
            "<non-string panic payload>".into()
        };
        LAST_PANIC.with(|p| *p.borrow_mut() = Some((loc, msg)));
    }));
}

pub fn take_last_panic() -> Option<(String, String)> {
    LAST_PANIC.with(|p| p.borrow_mut().take())
}

/// A panic observed while running code under test.
#[derive(Debug, Clone)]
pub struct PanicInfo {
    pub location: String,
    pub message: String,
    /// the panic originated in a file under /repo (or a registry crate), not in the harness
    pub in_subject: bool,
}

/// Run `f`, converting a panic into `Err(PanicInfo)`.
pub fn guarded<T>(f: impl FnOnce() -> T) -> Result<T, PanicInfo> {
    match catch_unwind(AssertUnwindSafe(f)) {
        Ok(v) => Ok(v),
        Err(_) => {
            let (location, message) =
                take_last_panic().unwrap_or_else(|| ("?".into(), "?".into()));
            let in_subject = !location.contains("/verif/") && !location.starts_with("vcore/")
                && !location.starts_with("mon_");
            Err(PanicInfo { location, message, in_subject })
        }
    }
}

fn strip_line(loc: &str) -> String {
    let file = loc.rsplit_once(':').map_or(loc, |(f, _)| f);
    // keep the path from "crates/" on so absolute prefixes do not matter
    match file.find("crates/") {
        Some(i) => file[i..].to_string(),
        None => file.to_string(),
    }
}

/// Drive the cases of this shard. Case `i` gets an RNG derived from
/// (seed, label, i) so a case can be replayed on its own with --only-case.
/// A panic escaping from the code under test is a violation of every
/// property here (an entry point neither accepted nor rejected); a panic in
/// the harness itself is a harness error (inconclusive), never a violation.
pub fn run_cases<F>(args: &Args, label: &str, n: u64, rep: &mut Report, mut f: F)
where
    F: FnMut(u64, &mut Rng, &mut Report),
{
    install_panic_hook();
    let range: Box<dyn Iterator<Item = u64>> = match args.only_case {
        Some(c) => Box::new(std::iter::once(c)),
        None => Box::new((0..n).filter(|i| i % args.nshards == args.shard)),
    };
    // VERIF_TRACE_CASES=1: print each case index before it runs (to attribute an abort or a runaway)
    let trace = std::env::var_os("VERIF_TRACE_CASES").is_some();
    for i in range {
        rep.case = i;
        if trace {
            eprintln!("[case] {label} {i}");
        }
        let mut rng = Rng::for_case(args.seed, label, i);
        let r = catch_unwind(AssertUnwindSafe(|| f(i, &mut rng, rep)));
        if r.is_err() {
            let (loc, msg) = take_last_panic().unwrap_or_else(|| ("?".into(), "?".into()));
            let in_harness = loc.contains("/verif/") || loc.starts_with("vcore/") || loc.starts_with("mon_");
            if in_harness {
                rep.harness_error(&format!("harness panic at {loc}: {msg}"));
            } else {
                let short: String = msg.chars().take(80).collect();
                rep.violation(
                    &format!("panic:{}:{}", strip_line(&loc), short),
                    &format!("code under test panicked at {loc}: {msg}"),
                    json!({"label": label}),
                );
            }
        }
    }
}

/// Run the monitor body on a thread with a large stack (deep CLVM trees).
pub fn with_big_stack<F: FnOnce() + Send + 'static>(f: F) {
    std::thread::Builder::new()
        .stack_size(1 << 30)
        .spawn(f)
        .expect("spawn")
        .join()
        .expect("monitor thread panicked");
}
