//! Reference model of the Chia Merkle set (property C12), written from the
//! definition in DESIGN.md Appendix A.7 and the proof grammar documented at
//! the top of the upstream Python reference. Nothing here imports repository
//! code; hashing uses the `sha2` crate through `crate::sha256`.
//!
//! Three parts:
//!  * `root(leaves)` — the collapsed binary-trie hash of a *set* of 32-byte leaves;
//!  * `full_tree` / `honest_proof` — the fully expanded proof-format tree of a
//!    set and the proof a prover is expected to emit for one item;
//!  * `parse` / `PNode::eval` / `audit` / `decide` — an interpreter of proof
//!    byte strings: which root a proof commits to, which terminal leaves it
//!    shows and whether each one sits where its own bits say it must, and what
//!    a sound verifier may answer for an item.
//!
//! Definition (A.7). `root(∅) = 0^32`; `root({x}) = H(01 ‖ x)`; otherwise the
//! set is split on bit `depth` (most significant bit first):
//!  * both sides non-empty ⇒ inner node `H(0^30 ‖ t_l t_r ‖ h_l ‖ h_r)` where a
//!    single leaf contributes t = 1 and h = the leaf itself, an inner node
//!    t = 2 and its hash; the node is a *double* iff both children are leaves;
//!  * one side empty ⇒ the child's result is forwarded unchanged if it is a
//!    leaf or a double, otherwise the node is `H(0^30 ‖ 00 02 ‖ 0^32 ‖ h)` or
//!    `H(0^30 ‖ 02 00 ‖ h ‖ 0^32)` (and is not a double).

use crate::sha256;
use std::collections::BTreeSet;

pub type Leaf = [u8; 32];
pub type Hash = [u8; 32];

pub const ZERO: Hash = [0u8; 32];

pub const TAG_EMPTY: u8 = 0;
pub const TAG_TERMINAL: u8 = 1;
pub const TAG_MIDDLE: u8 = 2;
pub const TAG_TRUNCATED: u8 = 3;

/// bit `i` of `x`, bit 0 being the most significant bit of byte 0
pub fn bit(x: &Leaf, i: usize) -> bool {
    (x[i >> 3] >> (7 - (i & 7))) & 1 == 1
}

pub fn with_bit(x: &Leaf, i: usize, v: bool) -> Leaf {
    let mut r = *x;
    let m = 1u8 << (7 - (i & 7));
    if v {
        r[i >> 3] |= m;
    } else {
        r[i >> 3] &= !m;
    }
    r
}

pub fn flip_bit(x: &Leaf, i: usize) -> Leaf {
    with_bit(x, i, !bit(x, i))
}

/// number of leading bits `a` and `b` have in common (256 if equal)
pub fn common_prefix(a: &Leaf, b: &Leaf) -> usize {
    for i in 0..32 {
        let d = a[i] ^ b[i];
        if d != 0 {
            return i * 8 + d.leading_zeros() as usize;
        }
    }
    256
}

/// What a (sub-)trie evaluates to.
#[derive(Clone, Copy, Debug, PartialEq, Eq)]
pub enum Val {
    Empty,
    Leaf(Leaf),
    Inner { hash: Hash, double: bool },
}

impl Val {
    fn type_byte(&self) -> u8 {
        match self {
            Val::Empty => 0,
            Val::Leaf(_) => 1,
            Val::Inner { .. } => 2,
        }
    }
    fn payload(&self) -> Hash {
        match self {
            Val::Empty => ZERO,
            Val::Leaf(x) => *x,
            Val::Inner { hash, .. } => *hash,
        }
    }
    pub fn is_double(&self) -> bool {
        matches!(self, Val::Inner { double: true, .. })
    }
    /// the 32-byte root a whole tree with this value commits to
    pub fn as_root(&self) -> Hash {
        match self {
            Val::Empty => ZERO,
            Val::Leaf(x) => sha256(&[&[1u8], x]),
            Val::Inner { hash, .. } => *hash,
        }
    }
}

/// `H(0^30 ‖ t_l t_r ‖ h_l ‖ h_r)`
pub fn pair_hash(l: &Val, r: &Val) -> Hash {
    let mut head = [0u8; 32];
    head[30] = l.type_byte();
    head[31] = r.type_byte();
    sha256(&[&head, &l.payload(), &r.payload()])
}

/// Combine the values of the 0-side and the 1-side of a node.
pub fn combine(l: &Val, r: &Val) -> Val {
    match (l, r) {
        (Val::Empty, Val::Empty) => Val::Empty,
        (Val::Empty, c) | (c, Val::Empty) if matches!(c, Val::Leaf(_)) || c.is_double() => *c,
        _ => Val::Inner {
            hash: pair_hash(l, r),
            double: matches!((l, r), (Val::Leaf(_), Val::Leaf(_))),
        },
    }
}

/// Value of a middle node *of a proof tree* given its children's values. Unlike
/// `combine` a middle node is never "nothing" and never a bare leaf: over
/// (empty, empty), (empty, leaf) or (leaf, empty) — which occur in no set's
/// tree — it is simply the pair hash.
pub fn mid_val(lv: &Val, rv: &Val) -> Val {
    match (lv, rv) {
        (Val::Empty, c) | (c, Val::Empty) if c.is_double() => *c,
        _ => Val::Inner {
            hash: pair_hash(lv, rv),
            double: matches!((lv, rv), (Val::Leaf(_), Val::Leaf(_))),
        },
    }
}

fn sorted_set(leaves: &[Leaf]) -> Vec<Leaf> {
    leaves.iter().copied().collect::<BTreeSet<_>>().into_iter().collect()
}

/// value of the sub-trie holding `s` (sorted, distinct, all sharing their first `depth` bits)
fn node(s: &[Leaf], depth: usize) -> Val {
    match s.len() {
        0 => Val::Empty,
        1 => Val::Leaf(s[0]),
        _ => {
            let k = s.partition_point(|x| !bit(x, depth));
            let l = node(&s[..k], depth + 1);
            let r = node(&s[k..], depth + 1);
            combine(&l, &r)
        }
    }
}

/// The Merkle set root of the set of `leaves` (order and duplicates are irrelevant).
pub fn root(leaves: &[Leaf]) -> Hash {
    node(&sorted_set(leaves), 0).as_root()
}

// ---------------------------------------------------------------------------
// proof trees

#[derive(Clone, Debug, PartialEq, Eq)]
pub enum PNode {
    Empty,
    Term(Leaf),
    Trunc(Hash),
    Mid(Box<PNode>, Box<PNode>),
}

pub fn mid(l: PNode, r: PNode) -> PNode {
    PNode::Mid(Box::new(l), Box::new(r))
}

#[derive(Clone, Copy, Debug, PartialEq, Eq)]
pub enum ParseError {
    /// input ended inside a node
    Short,
    BadTag(u8),
    /// bytes left after the tree
    Trailing,
    /// nesting beyond the interpreter's own limit (far above the format's 256)
    TooDeep,
}

/// nesting the interpreter is willing to follow (the format itself never needs more than 256)
pub const MODEL_MAX_DEPTH: usize = 2048;

fn parse_at(b: &[u8], pos: &mut usize, depth: usize) -> Result<PNode, ParseError> {
    let tag = *b.get(*pos).ok_or(ParseError::Short)?;
    *pos += 1;
    let take32 = |pos: &mut usize| -> Result<[u8; 32], ParseError> {
        let s = b.get(*pos..*pos + 32).ok_or(ParseError::Short)?;
        *pos += 32;
        Ok(s.try_into().unwrap())
    };
    match tag {
        TAG_EMPTY => Ok(PNode::Empty),
        TAG_TERMINAL => Ok(PNode::Term(take32(pos)?)),
        TAG_TRUNCATED => Ok(PNode::Trunc(take32(pos)?)),
        TAG_MIDDLE => {
            if depth >= MODEL_MAX_DEPTH {
                return Err(ParseError::TooDeep);
            }
            let l = parse_at(b, pos, depth + 1)?;
            let r = parse_at(b, pos, depth + 1)?;
            Ok(mid(l, r))
        }
        t => Err(ParseError::BadTag(t)),
    }
}

/// Parse a proof byte string: `subtree := 00 | 01 leaf32 | 03 hash32 | 02 subtree subtree`,
/// nothing may follow the tree.
pub fn parse(b: &[u8]) -> Result<PNode, ParseError> {
    let mut pos = 0;
    let t = parse_at(b, &mut pos, 0)?;
    if pos != b.len() {
        return Err(ParseError::Trailing);
    }
    Ok(t)
}

/// One terminal leaf shown by a proof.
#[derive(Clone, Debug, PartialEq, Eq)]
pub struct ShownLeaf {
    pub leaf: Leaf,
    /// route from the root (false = 0-side)
    pub path: Vec<bool>,
    /// the leaf's own leading bits equal the route
    pub consistent: bool,
}

#[derive(Clone, Debug, Default)]
pub struct Audit {
    pub leaves: Vec<ShownLeaf>,
    pub max_depth: usize,
    pub nodes: usize,
    /// a middle node whose children cannot occur in any set's tree:
    /// (empty, empty), (empty, leaf), (leaf, empty)
    pub degenerate_links: usize,
}

impl Audit {
    pub fn all_consistent(&self) -> bool {
        self.leaves.iter().all(|l| l.consistent)
    }
}

/// What following an item's bits through a proof tree arrives at.
#[derive(Clone, Copy, Debug, PartialEq, Eq)]
pub enum Decision {
    /// the route ends in this leaf, which is the item
    Included,
    /// the route ends in an empty slot or in a different leaf
    Excluded,
    /// the route runs into a truncated sub-tree (or out of bits): nothing can be said
    Undecidable,
}

impl PNode {
    pub fn serialize_into(&self, out: &mut Vec<u8>) {
        match self {
            PNode::Empty => out.push(TAG_EMPTY),
            PNode::Term(x) => {
                out.push(TAG_TERMINAL);
                out.extend_from_slice(x);
            }
            PNode::Trunc(h) => {
                out.push(TAG_TRUNCATED);
                out.extend_from_slice(h);
            }
            PNode::Mid(l, r) => {
                out.push(TAG_MIDDLE);
                l.serialize_into(out);
                r.serialize_into(out);
            }
        }
    }

    pub fn serialize(&self) -> Vec<u8> {
        let mut v = vec![];
        self.serialize_into(&mut v);
        v
    }

    /// Value of this proof (sub-)tree. A truncated node stands for an inner
    /// node that is not a double (the format has no way to say otherwise).
    pub fn eval(&self) -> Val {
        match self {
            PNode::Empty => Val::Empty,
            PNode::Term(x) => Val::Leaf(*x),
            PNode::Trunc(h) => Val::Inner { hash: *h, double: false },
            PNode::Mid(l, r) => mid_val(&l.eval(), &r.eval()),
        }
    }

    /// the 32-byte root this proof commits to
    pub fn committed_root(&self) -> Hash {
        self.eval().as_root()
    }

    pub fn audit(&self) -> Audit {
        fn go(n: &PNode, path: &mut Vec<bool>, a: &mut Audit) {
            a.nodes += 1;
            a.max_depth = a.max_depth.max(path.len());
            match n {
                PNode::Empty | PNode::Trunc(_) => {}
                PNode::Term(x) => {
                    let consistent =
                        path.len() <= 256 && path.iter().enumerate().all(|(i, b)| bit(x, i) == *b);
                    a.leaves.push(ShownLeaf { leaf: *x, path: path.clone(), consistent });
                }
                PNode::Mid(l, r) => {
                    if matches!(
                        (&**l, &**r),
                        (PNode::Empty, PNode::Empty) | (PNode::Empty, PNode::Term(_)) | (PNode::Term(_), PNode::Empty)
                    ) {
                        a.degenerate_links += 1;
                    }
                    path.push(false);
                    go(l, path, a);
                    path.pop();
                    path.push(true);
                    go(r, path, a);
                    path.pop();
                }
            }
        }
        let mut a = Audit::default();
        go(self, &mut vec![], &mut a);
        a
    }

    /// Follow the bits of `item` from the root.
    pub fn decide(&self, item: &Leaf) -> Decision {
        let mut n = self;
        let mut depth = 0usize;
        loop {
            match n {
                PNode::Empty => return Decision::Excluded,
                PNode::Term(x) => {
                    return if x == item { Decision::Included } else { Decision::Excluded };
                }
                PNode::Trunc(_) => return Decision::Undecidable,
                PNode::Mid(l, r) => {
                    if depth >= 256 {
                        return Decision::Undecidable;
                    }
                    n = if bit(item, depth) { r } else { l };
                    depth += 1;
                }
            }
        }
    }

    /// every shown leaf sits on the route its own bits spell (same judgement as `audit`, no allocation)
    pub fn positions_ok(&self) -> bool {
        fn go(n: &PNode, path: &mut Vec<bool>) -> bool {
            match n {
                PNode::Empty | PNode::Trunc(_) => true,
                PNode::Term(x) => path.len() <= 256 && path.iter().enumerate().all(|(i, b)| bit(x, i) == *b),
                PNode::Mid(l, r) => {
                    path.push(false);
                    let lo = go(l, path);
                    path.pop();
                    if !lo {
                        return false;
                    }
                    path.push(true);
                    let ro = go(r, path);
                    path.pop();
                    ro
                }
            }
        }
        go(self, &mut vec![])
    }

    /// sub-tree reached by `path` (false = 0-side)
    pub fn at(&self, path: &[bool]) -> Option<&PNode> {
        let mut n = self;
        for b in path {
            match n {
                PNode::Mid(l, r) => n = if *b { r } else { l },
                _ => return None,
            }
        }
        Some(n)
    }

    /// copy of this tree with the sub-tree at `path` replaced (unchanged copy if the path does not exist)
    pub fn replaced(&self, path: &[bool], new: &PNode) -> PNode {
        match (path.split_first(), self) {
            (None, _) => new.clone(),
            (Some((b, rest)), PNode::Mid(l, r)) => {
                if *b {
                    mid((**l).clone(), r.replaced(rest, new))
                } else {
                    mid(l.replaced(rest, new), (**r).clone())
                }
            }
            (Some(_), other) => other.clone(),
        }
    }

    /// routes of all nodes in pre-order
    pub fn routes(&self) -> Vec<Vec<bool>> {
        fn go(n: &PNode, path: &mut Vec<bool>, out: &mut Vec<Vec<bool>>) {
            out.push(path.clone());
            if let PNode::Mid(l, r) = n {
                path.push(false);
                go(l, path, out);
                path.pop();
                path.push(true);
                go(r, path, out);
                path.pop();
            }
        }
        let mut out = vec![];
        go(self, &mut vec![], &mut out);
        out
    }

    pub fn count_nodes(&self) -> usize {
        match self {
            PNode::Mid(l, r) => 1 + l.count_nodes() + r.count_nodes(),
            _ => 1,
        }
    }
}

/// What a verifier that (1) recomputes the committed root, (2) audits every
/// shown leaf's position and (3) follows the item's bits would answer:
/// `Some(b)` = accept with "included = b", `None` = reject.
pub fn reference_verdict(p: &PNode, item: &Leaf, root: &Hash) -> Option<bool> {
    if p.committed_root() != *root || !p.positions_ok() {
        return None;
    }
    match p.decide(item) {
        Decision::Included => Some(true),
        Decision::Excluded => Some(false),
        Decision::Undecidable => None,
    }
}

// ---------------------------------------------------------------------------
// the fully expanded tree of a set and honest proofs derived from it

fn expand(s: &[Leaf], depth: usize) -> PNode {
    match s.len() {
        0 => PNode::Empty,
        1 => PNode::Term(s[0]),
        _ => {
            let k = s.partition_point(|x| !bit(x, depth));
            mid(expand(&s[..k], depth + 1), expand(&s[k..], depth + 1))
        }
    }
}

/// The proof-format tree showing every leaf of the set at its full route
/// (one middle node per bit down to where leaves separate; nothing truncated).
/// A one-element set is a bare terminal, the empty set a bare empty node.
pub fn full_tree(leaves: &[Leaf]) -> PNode {
    expand(&sorted_set(leaves), 0)
}

/// Replace a sub-tree by what a prover would send for a branch that is off
/// the route of the queried item.
pub fn off_route(n: &PNode) -> PNode {
    off_route_val(n, &n.eval())
}

fn off_route_val(n: &PNode, v: &Val) -> PNode {
    match (n, v) {
        (PNode::Mid(_, _), Val::Inner { hash, .. }) => PNode::Trunc(*hash),
        _ => n.clone(),
    }
}

fn prune_val(n: &PNode, item: &Leaf, depth: usize) -> (PNode, Val) {
    match n {
        PNode::Mid(l, r) => {
            let right = depth < 256 && bit(item, depth);
            let (on, off) = if right { (r, l) } else { (l, r) };
            let (on_p, on_v) = prune_val(on, item, depth + 1);
            let off_v = off.eval();
            let v = if right { mid_val(&off_v, &on_v) } else { mid_val(&on_v, &off_v) };
            if v.is_double() {
                // two leaves (possibly below a chain of one-sided links): always shown in full
                return (n.clone(), v);
            }
            let off_p = off_route_val(off, &off_v);
            (if right { mid(off_p, on_p) } else { mid(on_p, off_p) }, v)
        }
        other => (other.clone(), other.eval()),
    }
}

/// Honest-prover view of the sub-tree `n` rooted at `depth` for a query of `item`:
/// the route of the item expanded, everything off the route replaced by its
/// hash, two-leaf sub-tries shown in full.
pub fn prune(n: &PNode, item: &Leaf, depth: usize) -> PNode {
    prune_val(n, item, depth).0
}

/// The proof an honest prover sends for `item` (member or not): the route of
/// the item expanded, everything off the route replaced by its hash, two-leaf
/// sub-tries shown in full. Returns (item ∈ set, proof tree).
pub fn honest_proof(leaves: &[Leaf], item: &Leaf) -> (bool, PNode) {
    let s = sorted_set(leaves);
    let t = expand(&s, 0);
    (s.binary_search(item).is_ok(), prune(&t, item, 0))
}

#[cfg(test)]
mod tests {
    use super::*;

    fn leaf(first: u8) -> Leaf {
        let mut l = [0u8; 32];
        l[0] = first;
        l
    }

    #[test]
    fn tiny_roots() {
        assert_eq!(root(&[]), ZERO);
        let a = leaf(0x80);
        assert_eq!(root(&[a]), sha256(&[&[1u8], &a]));
        assert_eq!(root(&[a, a, a]), root(&[a]));
        let b = leaf(0x00);
        // two leaves differing in bit 0: H(0^30 01 01 b a)
        let mut head = [0u8; 32];
        head[30] = 1;
        head[31] = 1;
        assert_eq!(root(&[a, b]), sha256(&[&head, &b, &a]));
        // two leaves sharing a prefix: the chain above them is forwarded
        let c = leaf(0xc0);
        assert_eq!(root(&[a, c]), sha256(&[&head, &a, &c]));
    }

    /// Calibration against the upstream Python reference (/repo/tests/merkle_set.py).
    /// Run once with MERKLE_CALIB=<file> where the file holds lines
    /// `S <leaves hex>` / `R <root hex>` / `P <item> <0|1> <proof hex>` printed by the
    /// Python implementation; without the variable the test does nothing.
    #[test]
    fn calibrate_against_python_reference() {
        let Ok(path) = std::env::var("MERKLE_CALIB") else { return };
        let text = std::fs::read_to_string(path).unwrap();
        let (mut sets, mut proofs) = (0, 0);
        let mut cur: Vec<Leaf> = vec![];
        let mut cur_root = ZERO;
        for line in text.lines() {
            let f: Vec<&str> = line.split(' ').collect();
            match f[0] {
                "S" => {
                    let b = hex::decode(f.get(1).unwrap_or(&"")).unwrap();
                    cur = b.chunks(32).map(|c| c.try_into().unwrap()).collect();
                }
                "R" => {
                    cur_root = hex::decode(f[1]).unwrap().try_into().unwrap();
                    assert_eq!(root(&cur), cur_root, "root of set #{sets}");
                    assert_eq!(full_tree(&cur).committed_root(), cur_root);
                    sets += 1;
                }
                "P" => {
                    let item: Leaf = hex::decode(f[1]).unwrap().try_into().unwrap();
                    let inc = f[2] == "1";
                    let pb = hex::decode(f[3]).unwrap();
                    let p = parse(&pb).unwrap();
                    assert_eq!(p.serialize(), pb);
                    assert_eq!(p.committed_root(), cur_root);
                    assert_eq!(reference_verdict(&p, &item, &cur_root), Some(inc));
                    let (minc, mp) = honest_proof(&cur, &item);
                    assert_eq!(minc, inc);
                    assert_eq!(reference_verdict(&mp, &item, &cur_root), Some(inc));
                    proofs += 1;
                }
                _ => {}
            }
        }
        eprintln!("calibrated on {sets} sets, {proofs} proofs");
        assert!(sets > 0);
    }

    #[test]
    fn full_tree_commits_to_root() {
        let ls = [leaf(0), leaf(0x10), leaf(0x18), leaf(0x80), leaf(0xc0), leaf(0xc1)];
        for n in 0..=ls.len() {
            let s = &ls[..n];
            let t = full_tree(s);
            assert_eq!(t.committed_root(), root(s));
            assert!(t.audit().all_consistent());
            assert_eq!(parse(&t.serialize()).unwrap(), t);
            for x in &ls {
                let (inc, p) = honest_proof(s, x);
                assert_eq!(inc, s.contains(x));
                assert_eq!(reference_verdict(&p, x, &root(s)), Some(inc));
            }
        }
    }
}
