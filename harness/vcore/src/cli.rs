//! Command-line convention shared by all monitor binaries.
//!
//! mon_x --prop C17 --tier quick --seed 0 --shard 3 --nshards 16 --out /path/shard3.json
//!       [--only-case N] [--lane native|checked|asan|valgrind|miri] [--scale F]

#[derive(Clone, Debug)]
pub struct Args {
    pub prop: String,
    pub tier: String,
    pub seed: u64,
    pub shard: u64,
    pub nshards: u64,
    pub out: Option<String>,
    pub only_case: Option<u64>,
    pub lane: String,
    /// multiplier on case counts (supporting lanes run a fraction of the workload)
    pub scale: f64,
    pub extra: Vec<(String, String)>,
}

impl Args {
    pub fn parse() -> Args {
        let mut a = Args {
            prop: String::new(),
            tier: "quick".into(),
            seed: 0,
            shard: 0,
            nshards: 1,
            out: None,
            only_case: None,
            lane: "native".into(),
            scale: 1.0,
            extra: vec![],
        };
        let v: Vec<String> = std::env::args().skip(1).collect();
        // `cargo miri run` has no build-only form: the driver warms the Miri lane up with this
        if v.iter().any(|x| x == "--build-only") {
            std::process::exit(0);
        }
        let mut i = 0;
        while i < v.len() {
            let k = v[i].as_str();
            let val = v.get(i + 1).cloned().unwrap_or_default();
            match k {
                "--prop" => a.prop = val,
                "--tier" => a.tier = val,
                "--seed" => a.seed = val.parse().expect("seed"),
                "--shard" => a.shard = val.parse().expect("shard"),
                "--nshards" => a.nshards = val.parse().expect("nshards"),
                "--out" => a.out = Some(val),
                "--only-case" => a.only_case = Some(val.parse().expect("only-case")),
                "--lane" => a.lane = val,
                "--scale" => a.scale = val.parse().expect("scale"),
                _ => {
                    if let Some(name) = k.strip_prefix("--") {
                        a.extra.push((name.to_string(), val));
                    } else {
                        panic!("unexpected argument {k}");
                    }
                }
            }
            i += 2;
        }
        assert!(a.nshards > 0 && a.shard < a.nshards);
        a
    }

    pub fn thorough(&self) -> bool {
        self.tier == "thorough"
    }

    pub fn get(&self, name: &str) -> Option<&str> {
        self.extra
            .iter()
            .find(|(k, _)| k == name)
            .map(|(_, v)| v.as_str())
    }

    /// number of cases for this run: `quick`/`thorough` base counts scaled by --scale
    pub fn cases(&self, quick: u64, thorough: u64) -> u64 {
        let base = if self.thorough() { thorough } else { quick };
        ((base as f64) * self.scale).ceil().max(1.0) as u64
    }
}
