//! The model's own CLVM value type, with its own serializer, tree hash and
//! several ways of materialising a value inside a clvmr `Allocator`.

use crate::ints::minimal_be;
use crate::rng::Rng;
use crate::sha256;
use clvmr::allocator::{Allocator, NodePtr, SExp};
use num_bigint::BigInt;
use std::rc::Rc;

#[derive(Clone, PartialEq, Eq, Hash, Debug)]
pub enum Sx {
    Atom(Rc<[u8]>),
    Pair(Rc<Sx>, Rc<Sx>),
}

/// How atoms are materialised in the allocator. The meaning of a tree must
/// never depend on this.
#[derive(Clone, Copy, Debug, PartialEq, Eq)]
pub enum Repr {
    /// `new_atom` for everything (clvmr itself canonicalises small values)
    Plain,
    /// atoms are carved out of a larger buffer with `new_substr`, so even
    /// empty and small atoms become heap views (not node-identical to nil / small ints)
    Substr,
    /// atoms of >= 2 bytes are built with `new_concat` of two halves
    Concat,
    /// every occurrence allocates afresh, no sharing of equal sub-trees
    /// (same as Plain for atoms; pairs are never shared in any mode)
    Mixed,
}

impl Sx {
    pub fn nil() -> Sx {
        Sx::Atom(Rc::from(&[][..]))
    }
    pub fn atom(b: &[u8]) -> Sx {
        Sx::Atom(Rc::from(b))
    }
    pub fn int(v: impl Into<BigInt>) -> Sx {
        Sx::atom(&minimal_be(&v.into()))
    }
    pub fn pair(a: Sx, b: Sx) -> Sx {
        Sx::Pair(Rc::new(a), Rc::new(b))
    }
    pub fn list(items: &[Sx]) -> Sx {
        Sx::list_term(items, Sx::nil())
    }
    pub fn list_term(items: &[Sx], term: Sx) -> Sx {
        let mut r = term;
        for it in items.iter().rev() {
            r = Sx::pair(it.clone(), r);
        }
        r
    }
    pub fn is_atom(&self) -> bool {
        matches!(self, Sx::Atom(_))
    }
    pub fn as_atom(&self) -> Option<&[u8]> {
        match self {
            Sx::Atom(b) => Some(b),
            Sx::Pair(..) => None,
        }
    }
    pub fn as_pair(&self) -> Option<(&Sx, &Sx)> {
        match self {
            Sx::Pair(a, b) => Some((a, b)),
            Sx::Atom(_) => None,
        }
    }
    pub fn is_nil(&self) -> bool {
        matches!(self, Sx::Atom(b) if b.is_empty())
    }
    pub fn first(&self) -> Option<&Sx> {
        self.as_pair().map(|p| p.0)
    }
    pub fn rest(&self) -> Option<&Sx> {
        self.as_pair().map(|p| p.1)
    }

    /// Elements of a (possibly improper) list and its terminator.
    pub fn unlist(&self) -> (Vec<&Sx>, &Sx) {
        let mut v = vec![];
        let mut cur = self;
        while let Sx::Pair(a, b) = cur {
            v.push(&**a);
            cur = b;
        }
        (v, cur)
    }

    /// Plain (no back-references) CLVM serialization, written from the format
    /// definition: 0xff for a pair; atoms: single byte < 0x80 as is, 0x80 for
    /// empty, otherwise a length prefix followed by the bytes.
    pub fn serialize(&self) -> Vec<u8> {
        let mut out = vec![];
        let mut stack: Vec<&Sx> = vec![self];
        while let Some(n) = stack.pop() {
            match n {
                Sx::Pair(a, b) => {
                    out.push(0xff);
                    stack.push(b);
                    stack.push(a);
                }
                Sx::Atom(b) => write_atom(&mut out, b),
            }
        }
        out
    }

    /// Parse a plain serialization (no back-references). Used for decoding
    /// builder output and for replay files.
    pub fn deserialize(bytes: &[u8]) -> Option<(Sx, usize)> {
        enum Op {
            Parse,
            Cons,
        }
        let mut pos = 0usize;
        let mut ops = vec![Op::Parse];
        let mut vals: Vec<Sx> = vec![];
        while let Some(op) = ops.pop() {
            match op {
                Op::Parse => {
                    let b = *bytes.get(pos)?;
                    pos += 1;
                    if b == 0xff {
                        ops.push(Op::Cons);
                        ops.push(Op::Parse);
                        ops.push(Op::Parse);
                    } else if b == 0xfe {
                        return None;
                    } else if b == 0x80 {
                        vals.push(Sx::nil());
                    } else if b < 0x80 {
                        vals.push(Sx::atom(&[b]));
                    } else {
                        let (extra, first_bits) = if b & 0xc0 == 0x80 {
                            (0, b & 0x3f)
                        } else if b & 0xe0 == 0xc0 {
                            (1, b & 0x1f)
                        } else if b & 0xf0 == 0xe0 {
                            (2, b & 0x0f)
                        } else if b & 0xf8 == 0xf0 {
                            (3, b & 0x07)
                        } else if b & 0xfc == 0xf8 {
                            (4, b & 0x03)
                        } else {
                            return None;
                        };
                        let mut len = first_bits as usize;
                        for _ in 0..extra {
                            len = (len << 8) | (*bytes.get(pos)? as usize);
                            pos += 1;
                        }
                        let end = pos.checked_add(len)?;
                        let data = bytes.get(pos..end)?;
                        pos = end;
                        vals.push(Sx::atom(data));
                    }
                }
                Op::Cons => {
                    let r = vals.pop()?;
                    let l = vals.pop()?;
                    vals.push(Sx::pair(l, r));
                }
            }
        }
        let v = vals.pop()?;
        Some((v, pos))
    }

    /// Reference tree hash: sha256(01 ‖ atom) / sha256(02 ‖ th(l) ‖ th(r)).
    pub fn tree_hash(&self) -> [u8; 32] {
        // iterative post-order so list spines of any length are fine
        enum Op<'a> {
            Visit(&'a Sx),
            Combine,
        }
        let mut ops = vec![Op::Visit(self)];
        let mut vals: Vec<[u8; 32]> = vec![];
        while let Some(op) = ops.pop() {
            match op {
                Op::Visit(Sx::Atom(b)) => vals.push(sha256(&[&[1u8], b])),
                Op::Visit(Sx::Pair(l, r)) => {
                    ops.push(Op::Combine);
                    ops.push(Op::Visit(r));
                    ops.push(Op::Visit(l));
                }
                Op::Combine => {
                    let r = vals.pop().unwrap();
                    let l = vals.pop().unwrap();
                    vals.push(sha256(&[&[2u8], &l, &r]));
                }
            }
        }
        vals.pop().unwrap()
    }

    /// Model of the "interned" size of a tree: every distinct atom (by content)
    /// and every distinct pair (by content) counted once;
    /// weight = atom bytes + 2 per atom + 3 per pair.
    pub fn interned_vbytes(&self) -> u64 {
        use std::collections::HashSet;
        enum Op<'a> {
            Visit(&'a Sx),
            Combine,
        }
        let mut atoms: HashSet<&[u8]> = HashSet::new();
        let mut pairs: HashSet<[u8; 32]> = HashSet::new();
        let mut ops = vec![Op::Visit(self)];
        let mut vals: Vec<[u8; 32]> = vec![];
        while let Some(op) = ops.pop() {
            match op {
                Op::Visit(Sx::Atom(b)) => {
                    atoms.insert(b);
                    vals.push(sha256(&[&[1u8], b]));
                }
                Op::Visit(Sx::Pair(l, r)) => {
                    ops.push(Op::Combine);
                    ops.push(Op::Visit(r));
                    ops.push(Op::Visit(l));
                }
                Op::Combine => {
                    let r = vals.pop().unwrap();
                    let l = vals.pop().unwrap();
                    let h = sha256(&[&[2u8], &l, &r]);
                    pairs.insert(h);
                    vals.push(h);
                }
            }
        }
        let bytes: u64 = atoms.iter().map(|a| a.len() as u64).sum();
        bytes + 2 * atoms.len() as u64 + 3 * pairs.len() as u64
    }

    pub fn count_nodes(&self) -> (usize, usize) {
        let mut atoms = 0;
        let mut pairs = 0;
        let mut stack = vec![self];
        while let Some(n) = stack.pop() {
            match n {
                Sx::Atom(_) => atoms += 1,
                Sx::Pair(a, b) => {
                    pairs += 1;
                    stack.push(a);
                    stack.push(b);
                }
            }
        }
        (atoms, pairs)
    }

    /// Materialise in an allocator.
    pub fn to_node(&self, a: &mut Allocator, repr: Repr, rng: &mut Rng) -> NodePtr {
        enum Op<'a> {
            Visit(&'a Sx),
            Cons,
        }
        let mut ops = vec![Op::Visit(self)];
        let mut vals: Vec<NodePtr> = vec![];
        while let Some(op) = ops.pop() {
            match op {
                Op::Visit(Sx::Atom(b)) => vals.push(make_atom(a, b, repr, rng)),
                Op::Visit(Sx::Pair(l, r)) => {
                    ops.push(Op::Cons);
                    ops.push(Op::Visit(r));
                    ops.push(Op::Visit(l));
                }
                Op::Cons => {
                    let r = vals.pop().unwrap();
                    let l = vals.pop().unwrap();
                    vals.push(a.new_pair(l, r).expect("new_pair"));
                }
            }
        }
        vals.pop().unwrap()
    }

    pub fn to_node_plain(&self, a: &mut Allocator) -> NodePtr {
        let mut rng = Rng::new(0);
        self.to_node(a, Repr::Plain, &mut rng)
    }

    /// Read a value back out of an allocator (trusted accessor).
    pub fn from_node(a: &Allocator, n: NodePtr) -> Sx {
        Sx::from_node_capped(a, n, usize::MAX).expect("uncapped")
    }

    /// Like `from_node`, but gives up (None) once more than `max_nodes` nodes
    /// were produced: allocator DAGs can unfold exponentially. With a finite node cap the copied
    /// atom bytes are capped as well (128 MiB): one shared 256 MB atom unfolds into gigabytes.
    pub fn from_node_capped(a: &Allocator, n: NodePtr, max_nodes: usize) -> Option<Sx> {
        let mut produced = 0usize;
        let mut bytes = 0usize;
        let max_bytes = if max_nodes == usize::MAX { usize::MAX } else { 128 << 20 };
        enum Op {
            Visit(NodePtr),
            Cons,
        }
        let mut ops = vec![Op::Visit(n)];
        let mut vals: Vec<Sx> = vec![];
        while let Some(op) = ops.pop() {
            produced += 1;
            if produced > max_nodes {
                return None;
            }
            match op {
                Op::Visit(n) => match a.sexp(n) {
                    SExp::Atom => {
                        let at = a.atom(n);
                        bytes = bytes.saturating_add(at.as_ref().len());
                        if bytes > max_bytes {
                            return None;
                        }
                        vals.push(Sx::atom(at.as_ref()));
                    }
                    SExp::Pair(l, r) => {
                        ops.push(Op::Cons);
                        ops.push(Op::Visit(r));
                        ops.push(Op::Visit(l));
                    }
                },
                Op::Cons => {
                    let r = vals.pop().unwrap();
                    let l = vals.pop().unwrap();
                    vals.push(Sx::pair(l, r));
                }
            }
        }
        vals.pop()
    }

    /// compact text form for samples and witnesses
    pub fn show(&self) -> String {
        let mut s = String::new();
        self.show_into(&mut s, 0);
        s
    }

    fn show_into(&self, s: &mut String, depth: usize) {
        if s.len() > 4000 {
            s.push('…');
            return;
        }
        match self {
            Sx::Atom(b) => {
                if b.is_empty() {
                    s.push_str("()");
                } else {
                    s.push_str("0x");
                    if b.len() > 40 {
                        s.push_str(&hex::encode(&b[..16]));
                        s.push_str(&format!("…[{}B]", b.len()));
                    } else {
                        s.push_str(&hex::encode(b));
                    }
                }
            }
            Sx::Pair(..) => {
                if depth > 200 {
                    s.push_str("(…)");
                    return;
                }
                s.push('(');
                let (items, term) = self.unlist();
                for (i, it) in items.iter().enumerate() {
                    if i > 0 {
                        s.push(' ');
                    }
                    if i >= 40 {
                        s.push_str(&format!("…[{} items]", items.len()));
                        break;
                    }
                    it.show_into(s, depth + 1);
                }
                if !term.is_nil() {
                    s.push_str(" . ");
                    term.show_into(s, depth + 1);
                }
                s.push(')');
            }
        }
    }
}

fn write_atom(out: &mut Vec<u8>, b: &[u8]) {
    let len = b.len();
    if len == 0 {
        out.push(0x80);
    } else if len == 1 && b[0] < 0x80 {
        out.push(b[0]);
    } else {
        if len < 0x40 {
            out.push(0x80 | len as u8);
        } else if len < 0x2000 {
            out.push(0xc0 | (len >> 8) as u8);
            out.push(len as u8);
        } else if len < 0x10_0000 {
            out.push(0xe0 | (len >> 16) as u8);
            out.push((len >> 8) as u8);
            out.push(len as u8);
        } else if len < 0x800_0000 {
            out.push(0xf0 | (len >> 24) as u8);
            out.push((len >> 16) as u8);
            out.push((len >> 8) as u8);
            out.push(len as u8);
        } else {
            out.push(0xf8 | (len >> 32) as u8);
            out.push((len >> 24) as u8);
            out.push((len >> 16) as u8);
            out.push((len >> 8) as u8);
            out.push(len as u8);
        }
        out.extend_from_slice(b);
    }
}

/// Length of the plain serialization of an atom (model of the format).
pub fn atom_ser_len(b: &[u8]) -> usize {
    let mut v = vec![];
    write_atom(&mut v, b);
    v.len()
}

fn make_atom(a: &mut Allocator, b: &[u8], repr: Repr, rng: &mut Rng) -> NodePtr {
    match repr {
        Repr::Plain => a.new_atom(b).expect("new_atom"),
        Repr::Substr => {
            // embed in a larger buffer, then take a view
            let pre = 1 + rng.usize(3);
            let post = rng.usize(3);
            let mut buf = vec![0xa5u8; pre];
            buf.extend_from_slice(b);
            buf.extend(std::iter::repeat(0x5a).take(post + 1));
            let big = a.new_atom(&buf).expect("new_atom");
            a.new_substr(big, pre as u32, (pre + b.len()) as u32)
                .expect("new_substr")
        }
        Repr::Concat => {
            if b.len() < 2 {
                return a.new_atom(b).expect("new_atom");
            }
            let cut = 1 + rng.usize(b.len() - 1);
            let l = a.new_atom(&b[..cut]).expect("new_atom");
            let r = a.new_atom(&b[cut..]).expect("new_atom");
            a.new_concat(b.len(), &[l, r]).expect("new_concat")
        }
        Repr::Mixed => match rng.below(3) {
            0 => make_atom(a, b, Repr::Plain, rng),
            1 => make_atom(a, b, Repr::Substr, rng),
            _ => make_atom(a, b, Repr::Concat, rng),
        },
    }
}

#[cfg(test)]
mod tests {
    use super::*;
    #[test]
    fn roundtrip() {
        let t = Sx::list(&[Sx::atom(&[1, 2, 3]), Sx::nil(), Sx::pair(Sx::atom(&[0x7f]), Sx::atom(&[0x80]))]);
        let ser = t.serialize();
        let (back, n) = Sx::deserialize(&ser).unwrap();
        assert_eq!(n, ser.len());
        assert_eq!(back, t);
        let mut a = Allocator::new();
        let mut rng = Rng::new(1);
        for repr in [Repr::Plain, Repr::Substr, Repr::Concat, Repr::Mixed] {
            let n = t.to_node(&mut a, repr, &mut rng);
            assert_eq!(Sx::from_node(&a, n), t);
            assert_eq!(clvmr::serde::node_to_bytes(&a, n).unwrap(), ser);
        }
    }
}
