//! Reference model of CLVM integer encoding: minimal big-endian two's complement.

use num_bigint::{BigInt, Sign};
use num_traits::{Signed, Zero};

/// Minimal big-endian two's-complement form of `v` (zero is the empty atom).
pub fn minimal_be(v: &BigInt) -> Vec<u8> {
    if v.is_zero() {
        return vec![];
    }
    // Build from first principles: find the smallest n such that
    // -2^(8n-1) <= v < 2^(8n-1), then emit v mod 2^(8n) big-endian.
    let mut n: u32 = 1;
    loop {
        let half = BigInt::from(1) << (8 * n - 1);
        if *v >= -half.clone() && *v < half {
            break;
        }
        n += 1;
    }
    let modulus = BigInt::from(1) << (8 * n);
    let mut u = if v.is_negative() { v + &modulus } else { v.clone() };
    let mut out = vec![0u8; n as usize];
    let byte = BigInt::from(256);
    for i in (0..n as usize).rev() {
        let r = &u % &byte;
        let (_, digits) = r.to_u32_digits();
        out[i] = digits.first().copied().unwrap_or(0) as u8;
        u /= &byte;
    }
    out
}

pub fn minimal_be_u64(v: u64) -> Vec<u8> {
    minimal_be(&BigInt::from(v))
}

pub fn minimal_be_i128(v: i128) -> Vec<u8> {
    minimal_be(&BigInt::from(v))
}

/// Interpret any atom as a signed big-endian two's-complement integer.
pub fn decode_signed(b: &[u8]) -> BigInt {
    if b.is_empty() {
        return BigInt::zero();
    }
    let mag = BigInt::from_bytes_be(Sign::Plus, b);
    if b[0] & 0x80 != 0 {
        mag - (BigInt::from(1) << (8 * b.len()))
    } else {
        mag
    }
}

/// Classes of a condition integer argument (DESIGN Appendix A.2).
#[derive(Debug, Clone, PartialEq, Eq)]
pub enum UintClass {
    Ok(u64),
    Negative,
    TooBig,
    /// redundant leading zero (non-canonical) => condition rejected
    Malformed,
}

/// Model of the condition-integer rule for width `w` bytes (4 or 8).
pub fn classify_uint(atom: &[u8], w: usize) -> UintClass {
    if atom.is_empty() {
        return UintClass::Ok(0);
    }
    if atom[0] & 0x80 != 0 {
        return UintClass::Negative;
    }
    // canonical: no leading zero unless needed to keep the sign bit clear
    if atom[0] == 0 && (atom.len() == 1 || atom[1] & 0x80 == 0) {
        return UintClass::Malformed;
    }
    let v = decode_signed(atom);
    let limit = BigInt::from(1) << (8 * w);
    if v >= limit {
        return UintClass::TooBig;
    }
    let (_, digits) = v.to_u64_digits();
    UintClass::Ok(digits.first().copied().unwrap_or(0))
}

/// Number of bytes of the minimal form of a non-negative 64-bit value,
/// derived from its bit length (a value with `n` significant bits needs
/// `n + 1` bits once the sign bit is included, i.e. `n / 8 + 1` bytes).
/// Deliberately not a threshold ladder. Added for C11's large sweeps, where
/// the big-integer model is too slow; monitors cross-check it against
/// `minimal_be` on samples and on every boundary window.
pub fn minimal_len_u64(v: u64) -> usize {
    if v == 0 {
        0
    } else {
        (64 - v.leading_zeros() as usize) / 8 + 1
    }
}

/// Fast minimal form of a u64: the form is `buf[start..]` of the returned pair.
pub fn minimal_be_u64_fast(v: u64) -> ([u8; 9], usize) {
    let mut buf = [0u8; 9];
    let mut x = v;
    for i in (1..9).rev() {
        buf[i] = (x & 0xff) as u8;
        x >>= 8;
    }
    (buf, 9 - minimal_len_u64(v))
}

/// Is `atom` the minimal form of the integer it denotes?
pub fn is_minimal(atom: &[u8]) -> bool {
    minimal_be(&decode_signed(atom)) == atom
}

#[cfg(test)]
mod tests {
    use super::*;
    #[test]
    fn basics() {
        assert_eq!(minimal_be_u64(0), Vec::<u8>::new());
        assert_eq!(minimal_be_u64(0x7f), vec![0x7f]);
        assert_eq!(minimal_be_u64(0x80), vec![0, 0x80]);
        assert_eq!(minimal_be_u64(0xffff), vec![0, 0xff, 0xff]);
        assert_eq!(minimal_be_i128(-1), vec![0xff]);
        assert_eq!(minimal_be_i128(-128), vec![0x80]);
        assert_eq!(minimal_be_i128(-129), vec![0xff, 0x7f]);
        assert_eq!(minimal_be_u64(u64::MAX).len(), 9);
        assert_eq!(decode_signed(&[0xff, 0x7f]), BigInt::from(-129));
        assert_eq!(classify_uint(&[0, 0x80], 4), UintClass::Ok(128));
        assert_eq!(classify_uint(&[0, 0x7f], 4), UintClass::Malformed);
        assert_eq!(classify_uint(&[0], 4), UintClass::Malformed);
        assert_eq!(classify_uint(&[1, 0, 0, 0, 0], 4), UintClass::TooBig);
        assert_eq!(classify_uint(&[0, 0xff, 0xff, 0xff, 0xff], 4), UintClass::Ok(0xffff_ffff));
    }
    #[test]
    fn fast_u64_matches_bigint_model() {
        let mut vals: Vec<u64> = vec![0, 1, u64::MAX];
        for k in 0..64 {
            let b = 1u64 << k;
            for d in 0..4u64 {
                vals.push(b.wrapping_add(d));
                vals.push(b.wrapping_sub(d));
            }
        }
        for v in vals {
            let (buf, start) = minimal_be_u64_fast(v);
            assert_eq!(&buf[start..], minimal_be_u64(v).as_slice(), "{v:#x}");
            assert!(is_minimal(&buf[start..]));
        }
        assert!(!is_minimal(&[0]));
        assert!(!is_minimal(&[0xff, 0x80]));
        assert!(is_minimal(&[0xff, 0x7f]));
    }
}
