//! Generator of abstract spend bundles ("mostly valid, with defects").
//!
//! A bundle is a list of spends; each spend has a coin (parent, puzzle,
//! amount) and a list of condition trees. From one abstract bundle the
//! monitors derive: the raw generator-output tree for `parse_spends`, a
//! `SpendBundle` (puzzle reveal + solution per coin), and block generators.
//!
//! Puzzles come from a tiny family whose output is a pure function of the
//! solution, so the conditions a spend emits are known without running it:
//!   puzzle 0:  `1`                      -> conditions = solution
//!   puzzle k:  `(c (q . (1 . k)) 1)`    -> conditions = ((REMARK . k) . solution)
//! The puzzle hash is therefore independent of the conditions, which lets
//! conditions mention their own puzzle hash / coin id.

use crate::conditions::{MConstants, KNOWN_OPCODES};
use crate::ints::minimal_be_u64;
use crate::rng::Rng;
use crate::sha256;
use crate::sx::Sx;

/// constants quoted inside the members 7.. of the puzzle family: canonical CLVM integers on both
/// sides of every byte-length boundary an allocator may store inline (what tree hashing, interning
/// and serialization special-case)
pub const PUZZLE_CONSTS: &[&[u8]] = &[
    &[0x7f],
    &[0x00, 0x80],
    &[0x00, 0xff],
    &[0x7f, 0xff],
    &[0x00, 0x80, 0x00],
    &[0x00, 0x80, 0x01],
    &[0x7f, 0xff, 0xff],
    &[0x00, 0x80, 0x00, 0x00],
    &[0x00, 0x80, 0x00, 0x01],
    &[0x03, 0xff, 0xff, 0xff],
    &[0x04, 0x00, 0x00, 0x00],
    &[0x7f, 0xff, 0xff, 0xff],
    &[0x00, 0x80, 0x00, 0x00, 0x00],
    &[0x00, 0xff, 0xff, 0xff, 0xff],
    &[0x01, 0x00, 0x00, 0x00, 0x00],
    &[0x80],
    &[0xff],
];
pub const NUM_PUZZLES: usize = 7 + PUZZLE_CONSTS.len();

/// puzzle index for a new coin: identity, the small quote family, the path puzzles and the
/// boundary-constant quote family each get a fixed share
pub fn pick_puzzle(rng: &mut Rng) -> usize {
    match rng.below(100) {
        0..=24 => 0,
        25..=54 => 1 + rng.usize(4),
        55..=69 => PATH_FIRST + rng.usize(2),
        _ => 7 + rng.usize(PUZZLE_CONSTS.len()),
    }
}

fn puzzle_const(k: usize) -> Vec<u8> {
    if k >= 7 {
        PUZZLE_CONSTS[k - 7].to_vec()
    } else {
        vec![k as u8]
    }
}
/// puzzles 5 and 6 are bare environment paths: they hold no quote, so a bundle that uses only
/// them can be free of the atom 1 altogether (what a tree-interning cost de-duplicates against)
pub const PATH_FIRST: usize = 5;
pub const PATH_SECOND: usize = 6;

pub fn puzzle(k: usize) -> Sx {
    if k == 0 {
        Sx::atom(&[1])
    } else if k == PATH_FIRST {
        // 2: the first item of the solution
        Sx::atom(&[2])
    } else if k == PATH_SECOND {
        // 5: the second item of the solution
        Sx::atom(&[5])
    } else {
        // (c (q . (1 . k)) 1)
        Sx::list(&[
            Sx::atom(&[4]),
            Sx::pair(Sx::atom(&[1]), Sx::pair(Sx::atom(&[1]), Sx::atom(&puzzle_const(k)))),
            Sx::atom(&[1]),
        ])
    }
}

/// the conditions puzzle `k` emits for `solution`
pub fn puzzle_output(k: usize, solution: &Sx) -> Sx {
    if k == 0 {
        solution.clone()
    } else if k == PATH_FIRST {
        solution.first().cloned().unwrap_or_else(Sx::nil)
    } else if k == PATH_SECOND {
        solution.rest().and_then(Sx::first).cloned().unwrap_or_else(Sx::nil)
    } else {
        Sx::pair(Sx::pair(Sx::atom(&[1]), Sx::atom(&puzzle_const(k))), solution.clone())
    }
}

#[derive(Clone, Debug)]
pub struct KeyPool {
    /// valid, non-infinity G1 points (compressed)
    pub valid: Vec<Vec<u8>>,
    /// 48-byte strings that are not acceptable keys (infinity, off-curve, off-subgroup, bad flags)
    pub invalid: Vec<Vec<u8>>,
}

#[derive(Clone, Debug)]
pub struct GenParams {
    pub consts: MConstants,
    pub keys: KeyPool,
    /// percentage of bundles that receive deliberate defects
    pub defect_pct: u64,
    pub max_spends: usize,
    pub max_conds: usize,
    /// allow AGG_SIG conditions
    pub agg_sigs: bool,
    /// only lock/birth conditions and what is needed around them (C03)
    pub locks_only: bool,
    /// draw parent ids from a pool of four (forces collisions) instead of always at random
    pub parent_pool: bool,
    /// percentage of bundles whose coin amounts are all within 8 of 2^64 (sums need 128 bits)
    pub big_amount_pct: u64,
}

#[derive(Clone, Debug)]
pub struct ASpend {
    pub parent: [u8; 32],
    pub puzzle_idx: usize,
    pub puzzle_hash: [u8; 32],
    pub amount: u64,
    /// the atom actually used for the amount in the raw output (may be corrupted)
    pub amount_atom: Sx,
    /// corrupted parent / puzzle-hash atoms for the raw output form, if any
    pub parent_atom: Sx,
    pub puzzle_hash_atom: Sx,
    /// conditions supplied through the solution (the puzzle may prepend its own)
    pub conds: Vec<Sx>,
    pub cond_term: Sx,
    pub spend_ext: Sx,
    /// number of fields the raw spend carries (4 normally; fewer is a defect)
    pub fields: usize,
}

impl ASpend {
    pub fn coin_id(&self) -> [u8; 32] {
        sha256(&[&self.parent, &self.puzzle_hash, &minimal_be_u64(self.amount)])
    }
    pub fn solution(&self) -> Sx {
        let conds = Sx::list_term(&self.conds, self.cond_term.clone());
        match self.puzzle_idx {
            PATH_FIRST => Sx::list(&[conds]),
            // the unused first item: nil or a byte of the parent id (never a fresh small atom)
            PATH_SECOND => Sx::list(&[if self.parent[0] & 1 == 0 { Sx::nil() } else { Sx::atom(&self.parent[..4]) }, conds]),
            _ => conds,
        }
    }
    pub fn conditions(&self) -> Sx {
        puzzle_output(self.puzzle_idx, &self.solution())
    }
    /// true when the coin fields are well-formed, so the spend can be expressed as a CoinSpend
    pub fn coin_wellformed(&self) -> bool {
        self.fields == 4
            && self.amount_atom == Sx::atom(&minimal_be_u64(self.amount))
            && self.parent_atom == Sx::atom(&self.parent)
            && self.puzzle_hash_atom == Sx::atom(&self.puzzle_hash)
    }
}

#[derive(Clone, Debug)]
pub struct ABundle {
    pub spends: Vec<ASpend>,
    pub spend_term: Sx,
    pub outer_ext: Sx,
    pub tags: Vec<String>,
}

impl ABundle {
    /// raw generator output: ((spend ...) . ext), spend = (parent ph amount conds . ext)
    pub fn output(&self) -> Sx {
        let spends: Vec<Sx> = self
            .spends
            .iter()
            .map(|s| {
                let fields = [
                    s.parent_atom.clone(),
                    s.puzzle_hash_atom.clone(),
                    s.amount_atom.clone(),
                    s.conditions(),
                ];
                Sx::list_term(&fields[..s.fields], s.spend_ext.clone())
            })
            .collect();
        Sx::pair(Sx::list_term(&spends, self.spend_term.clone()), self.outer_ext.clone())
    }

    /// all coin fields well-formed and list terminators nil: expressible as a SpendBundle
    pub fn as_spendbundle_ok(&self) -> bool {
        self.spend_term.is_nil() && self.spends.iter().all(ASpend::coin_wellformed)
    }
}

/// a bundle of `n` small spends (for the per-block spend limit and summation strata)
pub fn many_spends(rng: &mut Rng, n: usize) -> ABundle {
    let mut spends = vec![];
    for i in 0..n {
        let k = pick_puzzle(rng);
        let ph = puzzle(k).tree_hash();
        let parent = sha256(&[b"many", &(i as u64).to_be_bytes(), &rng.bytes(4)]);
        let amount = if rng.chance(1, 4) { u64::MAX - rng.below(4) } else { rng.below(1000) };
        let mut conds = vec![];
        if rng.chance(1, 3) {
            let out = rng.below(amount.max(1));
            conds.push(cond(&[51], &[Sx::atom(&rng.bytes32()), int_atom(out)]));
        }
        spends.push(ASpend {
            parent,
            puzzle_idx: k,
            puzzle_hash: ph,
            amount,
            amount_atom: int_atom(amount),
            parent_atom: Sx::atom(&parent),
            puzzle_hash_atom: Sx::atom(&ph),
            conds,
            cond_term: Sx::nil(),
            spend_ext: Sx::nil(),
            fields: 4,
        });
    }
    ABundle { spends, spend_term: Sx::nil(), outer_ext: Sx::nil(), tags: vec![format!("many-spends:{n}")] }
}

pub const AMOUNT_POOL: &[u64] = &[
    0, 1, 2, 3, 0x7f, 0x80, 0xff, 0x100, 1000, 1001, 0x7fff, 0x8000, 0xffff, 0x7f_ffff, 0x80_0000,
    0x7fff_ffff, 0x8000_0000, 0xffff_ffff, 0x1_0000_0000, 1_000_000_000_001, 0x7f_ffff_ffff,
    0x80_0000_0000, 0x7fff_ffff_ffff, 0x8000_0000_0000, 0x7f_ffff_ffff_ffff, 0x80_0000_0000_0000,
    0x7fff_ffff_ffff_ffff, 0x8000_0000_0000_0000, 0xffff_ffff_ffff_fffe, 0xffff_ffff_ffff_ffff,
];

fn pool_hash(rng: &mut Rng, tag: u8) -> [u8; 32] {
    // four fixed values per tag
    let k = rng.below(4) as u8;
    sha256(&[&[tag, k]])
}

fn gen_msg(rng: &mut Rng) -> Vec<u8> {
    match rng.below(12) {
        0 => vec![],
        1 => vec![rng.u8()],
        2 => rng.bytes(32),
        3 => rng.bytes(1024),
        4 => b"hello".to_vec(),
        5 => b"hellp".to_vec(),
        _ => {
            let k = rng.below(6) as u8;
            vec![b'm', k]
        }
    }
}

/// integer atom with an interesting shape around `v`
fn int_atom(v: u64) -> Sx {
    Sx::atom(&minimal_be_u64(v))
}

pub fn hint_shape(rng: &mut Rng) -> (Option<Sx>, &'static str) {
    // the memo cell that follows the amount, if any
    let h32 = Sx::atom(&pool_hash(rng, 0x68));
    match rng.below(14) {
        0 | 1 | 2 => (None, "absent"),
        3 => (Some(Sx::nil()), "nil-memos"),
        4 | 5 => (Some(Sx::list(&[h32])), "h32"),
        6 => (Some(Sx::list(&[Sx::atom(&rng.bytes(31))])), "h31"),
        7 => (Some(Sx::list(&[Sx::atom(&rng.bytes(33))])), "h33"),
        8 => (Some(Sx::list(&[Sx::list(&[h32])])), "nested"),
        9 => (Some(Sx::list(&[h32, Sx::atom(b"extra")])), "h32-extra"),
        10 => (Some(Sx::list(&[Sx::nil(), h32])), "empty-first"),
        11 => (Some(Sx::list(&[Sx::nil()])), "empty-only"),
        12 => (Some(Sx::atom(b"memo-atom")), "atom-memos"),
        _ => (Some(Sx::list(&[Sx::atom(&[rng.u8() | 1])])), "h1"),
    }
}

fn cond(op: &[u8], args: &[Sx]) -> Sx {
    Sx::pair(Sx::atom(op), Sx::list(args))
}

struct Draft {
    spends: Vec<ASpend>,
    /// value not yet assigned to outputs or fees
    budget: u128,
}

pub fn gen_bundle(rng: &mut Rng, p: &GenParams) -> ABundle {
    let mut tags: Vec<String> = vec![];
    let n = match rng.below(100) {
        0..=1 => 0,
        2..=31 => 1,
        32..=61 => 2,
        62..=81 => 3,
        82..=91 => 4,
        92..=96 => 5,
        _ => 6,
    }
    .min(p.max_spends);

    // ---- coins -------------------------------------------------------------------
    let mut d = Draft { spends: vec![], budget: 0 };
    let mut ff_candidates: Vec<usize> = vec![];
    let big_amounts = rng.below(100) < p.big_amount_pct;
    // some bundles use the quote-free path puzzles only
    let paths_only = rng.chance(1, 10);
    if paths_only {
        tags.push("paths-only".into());
    }
    for _ in 0..n {
        let puzzle_idx = if paths_only { PATH_FIRST + rng.usize(2) } else { pick_puzzle(rng) };
        let puzzle_hash = puzzle(puzzle_idx).tree_hash();
        let amount = if big_amounts {
            u64::MAX - rng.below(8)
        } else if rng.chance(1, 3) {
            *rng.pick(AMOUNT_POOL)
        } else {
            rng.below(2_000_000)
        };
        // siblings: same parent and amount as an earlier coin, different puzzle (coins that differ
        // in the puzzle hash only)
        let sibling = !d.spends.is_empty() && rng.chance(1, 10);
        let (puzzle_idx, puzzle_hash, amount) = if sibling {
            let o = &d.spends[rng.usize(d.spends.len())];
            let k = if paths_only {
                PATH_FIRST + PATH_SECOND - o.puzzle_idx
            } else {
                (o.puzzle_idx + 1 + rng.usize(NUM_PUZZLES - 1)) % NUM_PUZZLES
            };
            (k, puzzle(k).tree_hash(), o.amount)
        } else {
            (puzzle_idx, puzzle_hash, amount)
        };
        let sibling_parent = if sibling { d.spends.iter().find(|o| o.amount == amount).map(|o| o.parent) } else { None };
        let ephemeral_child = !sibling && !d.spends.is_empty() && rng.chance(1, 6);
        let parent = if ephemeral_child {
            let pi = rng.usize(d.spends.len());
            let pid = d.spends[pi].coin_id();
            // the parent creates this coin (usually)
            if !rng.chance(1, 10) {
                d.spends[pi].conds.push(cond(&[51], &[Sx::atom(&puzzle_hash), int_atom(amount)]));
                d.budget = d.budget.saturating_sub(u128::from(amount));
            }
            tags.push("ephemeral".into());
            pid
        } else if let Some(sp) = sibling_parent {
            tags.push("siblings".into());
            sp
        } else if p.parent_pool && rng.chance(3, 4) {
            pool_hash(rng, 0x70)
        } else {
            rng.bytes32()
        };
        let s = ASpend {
            parent,
            puzzle_idx,
            puzzle_hash,
            amount,
            amount_atom: int_atom(amount),
            parent_atom: Sx::atom(&parent),
            puzzle_hash_atom: Sx::atom(&puzzle_hash),
            conds: vec![],
            cond_term: Sx::nil(),
            spend_ext: Sx::nil(),
            fields: 4,
        };
        // avoid accidental double spends (deliberate ones are a defect below)
        if d.spends.iter().any(|o| o.coin_id() == s.coin_id()) {
            continue;
        }
        d.budget += u128::from(amount);
        d.spends.push(s);
        if ephemeral_child && rng.chance(1, 2) {
            d.spends.last_mut().unwrap().conds.push(cond(&[76], &[]));
        }
        // fast-forward candidates: an odd amount and an output that re-creates the coin's own puzzle
        // hash and amount (what a singleton does); whether the spend stays eligible then depends on
        // the other conditions it happens to get and on which of its outputs are spent in the bundle
        if !ephemeral_child && amount & 1 == 1 && rng.chance(1, 3) {
            let sp = d.spends.last_mut().unwrap();
            sp.conds.push(cond(&[51], &[Sx::atom(&puzzle_hash), int_atom(amount)]));
            d.budget -= u128::from(amount);
            ff_candidates.push(d.spends.len() - 1);
        }
    }
    // children of fast-forward candidates: spend one of the candidate's OTHER outputs (an amount that
    // differs from the candidate's), or the re-created coin itself
    for &ci in &ff_candidates {
        if !rng.chance(1, 3) || d.spends.len() >= p.max_spends + 2 {
            continue;
        }
        let k = pick_puzzle(rng);
        let ph = puzzle(k).tree_hash();
        let parent = d.spends[ci].coin_id();
        let own_amount = d.spends[ci].amount;
        let amount = if rng.chance(1, 4) { own_amount } else { 2 + rng.below(1000) };
        if u128::from(amount) > d.budget {
            continue;
        }
        // usually the candidate really creates that coin; sometimes not (then the child is not ephemeral)
        if !rng.chance(1, 6) {
            d.spends[ci].conds.push(cond(&[51], &[Sx::atom(&ph), int_atom(amount)]));
            d.budget -= u128::from(amount);
        }
        d.budget += u128::from(amount);
        d.spends.push(ASpend {
            parent,
            puzzle_idx: k,
            puzzle_hash: ph,
            amount,
            amount_atom: int_atom(amount),
            parent_atom: Sx::atom(&parent),
            puzzle_hash_atom: Sx::atom(&ph),
            conds: vec![],
            cond_term: Sx::nil(),
            spend_ext: Sx::nil(),
            fields: 4,
        });
        tags.push("ff-candidate-child".into());
    }
    let n = d.spends.len();

    // ---- conditions ---------------------------------------------------------------
    if n > 0 {
        let total_conds = rng.usize(p.max_conds * n.min(3) + 1);
        for _ in 0..total_conds {
            let i = rng.usize(n);
            add_valid_condition(rng, p, &mut d, i, &mut tags);
        }
        if !p.locks_only && rng.chance(1, 30) {
            // many cheap announcement-class conditions in one spend (pre-fork cap at 1024)
            let i = rng.usize(n);
            let count = *rng.pick(&[1023usize, 1024, 1025, 1030]);
            let existing = d.spends[i]
                .conds
                .iter()
                .filter(|c| c.first().and_then(Sx::as_atom).is_some_and(|o| o.len() == 1 && (60..=67).contains(&o[0])))
                .count();
            for k in existing..count {
                d.spends[i].conds.push(cond(&[62], &[Sx::atom(&(k as u32).to_be_bytes())]));
            }
            tags.push(format!("announce-cap:{count}"));
        }
        // shuffle each spend's conditions so order-dependent bookkeeping is exercised
        for s in &mut d.spends {
            if rng.chance(1, 2) {
                rng.shuffle(&mut s.conds);
            }
        }
    }

    let mut b = ABundle { spends: d.spends, spend_term: Sx::nil(), outer_ext: Sx::nil(), tags };

    // spends are built parents-first; the listed order is free (a child may precede its parent)
    if b.spends.len() > 1 && rng.chance(1, 4) {
        rng.shuffle(&mut b.spends);
        b.tags.push("listed-order-shuffled".into());
    }

    // harmless variations the rules allow
    if rng.chance(1, 10) {
        b.outer_ext = Sx::atom(b"ext");
    }
    if rng.chance(1, 10) && !b.spends.is_empty() {
        let i = rng.usize(b.spends.len());
        b.spends[i].spend_ext = Sx::list(&[Sx::atom(b"future")]);
    }

    // ---- defects --------------------------------------------------------------------
    if rng.below(100) < p.defect_pct {
        let k = 1 + rng.usize(2);
        for _ in 0..k {
            apply_defect(rng, p, &mut b);
        }
    }
    b
}

fn add_valid_condition(rng: &mut Rng, p: &GenParams, d: &mut Draft, i: usize, tags: &mut Vec<String>) {
    let n = d.spends.len();
    let me_id = d.spends[i].coin_id();
    let me_parent = d.spends[i].parent;
    let me_ph = d.spends[i].puzzle_hash;
    let me_amount = d.spends[i].amount;
    let kind = if p.locks_only {
        100 + rng.below(40)
    } else {
        rng.below(140)
    };
    match kind {
        0..=17 => {
            // CREATE_COIN within budget
            let max = d.budget.min(u128::from(u64::MAX)) as u64;
            let amount = match rng.below(6) {
                0 => 0,
                1 => max,
                2 => max / 2,
                3 if max > 0 => max - 1,
                4 => me_amount.min(max),
                _ => rng.below(max.saturating_add(1).max(1)),
            };
            let ph = if rng.chance(1, 3) { me_ph } else { pool_hash(rng, 0x63) };
            let (memo, shape) = hint_shape(rng);
            let mut args = vec![Sx::atom(&ph), int_atom(amount)];
            if let Some(m) = memo {
                args.push(m);
            }
            // unique (ph, amount) per spend, otherwise it's a duplicate output
            let dup = d.spends[i].conds.iter().any(|c| {
                let (items, _) = c.unlist();
                items.len() >= 3
                    && items[0].as_atom() == Some(&[51][..])
                    && items[1].as_atom() == Some(&ph[..])
                    && items[2] == &int_atom(amount)
            });
            if !dup {
                d.budget -= u128::from(amount);
                d.spends[i].conds.push(cond(&[51], &args));
                tags.push(format!("hint:{shape}"));
            }
        }
        18..=21 => {
            let max = d.budget.min(1_000_000) as u64;
            let fee = rng.below(max + 1);
            d.budget -= u128::from(fee);
            d.spends[i].conds.push(cond(&[52], &[int_atom(fee)]));
        }
        22..=29 => {
            // coin announcement + assertion somewhere
            let msg = gen_msg(rng);
            d.spends[i].conds.push(cond(&[60], &[Sx::atom(&msg)]));
            if !rng.chance(1, 5) {
                let j = rng.usize(n);
                let id = sha256(&[&me_id, &msg]);
                d.spends[j].conds.push(cond(&[61], &[Sx::atom(&id)]));
            }
        }
        30..=37 => {
            let msg = gen_msg(rng);
            d.spends[i].conds.push(cond(&[62], &[Sx::atom(&msg)]));
            if !rng.chance(1, 5) {
                let j = rng.usize(n);
                let id = sha256(&[&me_ph, &msg]);
                d.spends[j].conds.push(cond(&[63], &[Sx::atom(&id)]));
            }
        }
        38..=41 => {
            let j = rng.usize(n);
            let id = d.spends[j].coin_id();
            d.spends[i].conds.push(cond(&[64], &[Sx::atom(&id)]));
        }
        42..=45 => {
            let j = rng.usize(n);
            let ph = d.spends[j].puzzle_hash;
            d.spends[i].conds.push(cond(&[65], &[Sx::atom(&ph)]));
        }
        46..=61 => {
            // message from i to j
            let j = rng.usize(n);
            let mode = rng.below(64) as u8;
            let msg = gen_msg(rng);
            let attrs = |s: &ASpend, m: u8| -> Vec<Sx> {
                if m == 7 {
                    return vec![Sx::atom(&s.coin_id())];
                }
                let mut v = vec![];
                if m & 4 != 0 {
                    v.push(Sx::atom(&s.parent));
                }
                if m & 2 != 0 {
                    v.push(Sx::atom(&s.puzzle_hash));
                }
                if m & 1 != 0 {
                    v.push(int_atom(s.amount));
                }
                v
            };
            let mode_atom = int_atom(u64::from(mode));
            let mut send = vec![mode_atom.clone(), Sx::atom(&msg)];
            send.extend(attrs(&d.spends[j], mode & 7));
            let mut recv = vec![mode_atom, Sx::atom(&msg)];
            recv.extend(attrs(&d.spends[i], mode >> 3));
            d.spends[i].conds.push(cond(&[66], &send));
            // mode confusion: the receiver names the sender under a DIFFERENT mode whose committed
            // bytes have the same layout (parent / puzzle / coin id are all one 32-byte atom;
            // parent+amount / puzzle+amount likewise) and supplies exactly the bytes the sender's own
            // mode commits to. Only the mode tag distinguishes the two keys, so the rules see an
            // unmatched pair; an implementation whose message key forgets the mode would match them.
            let src = mode >> 3;
            let confusable: &[u8] = match src {
                4 | 2 | 7 => &[4, 2, 7],
                5 | 3 => &[5, 3],
                _ => &[],
            };
            if !confusable.is_empty() && rng.chance(1, 6) {
                let other = *rng.pick(&confusable.iter().copied().filter(|m| *m != src).collect::<Vec<u8>>());
                let mode2 = (other << 3) | (mode & 7);
                let mut recv2 = vec![int_atom(u64::from(mode2)), Sx::atom(&msg)];
                recv2.extend(attrs(&d.spends[i], src)); // bytes of the sender's real mode
                d.spends[j].conds.push(cond(&[67], &recv2));
                tags.push("defect:msg-mode-confusion".into());
                return;
            }
            match rng.below(12) {
                0 => {} // unmatched
                1 => {
                    // duplicated receive
                    d.spends[j].conds.push(cond(&[67], &recv));
                    d.spends[j].conds.push(cond(&[67], &recv));
                }
                _ => d.spends[j].conds.push(cond(&[67], &recv)),
            }
            tags.push(format!("msgmode:{mode}"));
        }
        62..=64 => d.spends[i].conds.push(cond(&[70], &[Sx::atom(&me_id)])),
        65..=67 => {
            let c = cond(&[71], &[Sx::atom(&me_parent)]);
            // the fast-forward rule is positional: sometimes put it second on purpose
            if rng.chance(1, 2) && !d.spends[i].conds.is_empty() {
                let at = if matches!(d.spends[i].puzzle_idx, 0 | PATH_FIRST | PATH_SECOND) { 1 } else { 0 };
                let at = at.min(d.spends[i].conds.len());
                d.spends[i].conds.insert(at, c);
            } else {
                d.spends[i].conds.push(c);
            }
        }
        68..=70 => d.spends[i].conds.push(cond(&[72], &[Sx::atom(&me_ph)])),
        71..=73 => d.spends[i].conds.push(cond(&[73], &[int_atom(me_amount)])),
        74..=85 if p.agg_sigs => {
            let op = *rng.pick(&[43u8, 44, 45, 46, 47, 48, 49, 50]);
            let pk = rng.pick(&p.keys.valid).clone();
            let msg = gen_msg(rng);
            d.spends[i].conds.push(cond(&[op], &[Sx::atom(&pk), Sx::atom(&msg)]));
        }
        74..=85 => d.spends[i].conds.push(cond(&[1], &[Sx::atom(b"no sigs")])),
        86..=89 => {
            let args: Vec<Sx> = (0..rng.usize(3)).map(|_| Sx::atom(&gen_msg(rng))).collect();
            d.spends[i].conds.push(cond(&[1], &args));
        }
        90..=92 => {
            let v = *rng.pick(&[0u64, 1, 2, 100, 0xffff, 0xffff_ffff]);
            d.spends[i].conds.push(cond(&[90], &[int_atom(v)]));
        }
        93..=96 => {
            // two-byte priced opcode
            let hi = 1 + rng.below(255) as u8;
            let lo = rng.u8();
            d.spends[i].conds.push(cond(&[hi, lo], &[Sx::atom(b"x")]));
        }
        97..=99 => {
            // unknown opcode, ignored outside strict mode
            let op: Vec<u8> = match rng.below(5) {
                0 => vec![2],
                1 => vec![0, 51],
                2 => vec![51, 0, 0],
                3 => vec![],
                _ => vec![rng.u8() | 0x80],
            };
            d.spends[i].conds.push(cond(&op, &[Sx::atom(b"y")]));
        }
        // ---- locks (also the whole menu of `locks_only`) ----------------------------
        100..=103 => d.spends[i].conds.push(cond(&[81], &[int_atom(lock_small(rng, 8))])),
        104..=107 => d.spends[i].conds.push(cond(&[83], &[int_atom(lock_small(rng, 4))])),
        108..=111 => d.spends[i].conds.push(cond(&[85], &[int_atom(lock_large(rng, 8))])),
        112..=115 => d.spends[i].conds.push(cond(&[87], &[int_atom(lock_large(rng, 4))])),
        116..=119 => d.spends[i].conds.push(cond(&[80], &[int_atom(lock_small(rng, 8))])),
        120..=123 => d.spends[i].conds.push(cond(&[82], &[int_atom(lock_small(rng, 4))])),
        124..=126 => d.spends[i].conds.push(cond(&[84], &[int_atom(lock_large(rng, 8))])),
        127..=129 => d.spends[i].conds.push(cond(&[86], &[int_atom(lock_large(rng, 4))])),
        130..=132 => {
            // one birth-seconds value per spend (a second, different one is a contradiction)
            let v = 1000 + u64::from(me_amount as u8);
            d.spends[i].conds.push(cond(&[74], &[int_atom(v)]));
        }
        133..=135 => {
            let v = 10 + u64::from(me_amount as u8);
            d.spends[i].conds.push(cond(&[75], &[int_atom(v)]));
        }
        _ => {
            // raw boundary integers on a random lock opcode, including negative / oversized encodings
            let op = *rng.pick(&[80u8, 81, 82, 83, 84, 85, 86, 87, 74, 75]);
            let atom = boundary_int_atom(rng);
            d.spends[i].conds.push(cond(&[op], &[atom]));
            tags.push("lock-boundary".into());
        }
    }
}

fn lock_small(rng: &mut Rng, w: u32) -> u64 {
    let max = if w == 4 { u64::from(u32::MAX) } else { u64::MAX };
    match rng.below(8) {
        0 => 0,
        1 => 1,
        2 => max,
        3 => max - 1,
        _ => rng.below(1000),
    }
}

fn lock_large(rng: &mut Rng, w: u32) -> u64 {
    let max = if w == 4 { u64::from(u32::MAX) } else { u64::MAX };
    match rng.below(8) {
        0 => max,
        1 => max - 1,
        2 => 0,
        3 => 1,
        _ => 1000 + rng.below(1_000_000),
    }
}

/// integer atoms at the encoding boundaries, in all the forms the rules distinguish
pub fn boundary_int_atom(rng: &mut Rng) -> Sx {
    let base: u64 = match rng.below(12) {
        0 => 0,
        1 => 1,
        2 => 0x7f,
        3 => 0x80,
        4 => 0xff,
        5 => 0x100,
        6 => 0x7fff_ffff,
        7 => 0xffff_ffff,
        8 => 0x1_0000_0000,
        9 => 0x7fff_ffff_ffff_ffff,
        10 => u64::MAX,
        _ => rng.u64() >> rng.below(64),
    };
    let canon = minimal_be_u64(base);
    match rng.below(10) {
        0..=4 => Sx::atom(&canon),
        5 => Sx::atom(&[&[0u8][..], &canon].concat()), // redundant (or lone) leading zero
        6 => {
            // negative: set the sign bit / sign-extend
            let mut v = canon.clone();
            if v.is_empty() {
                v = vec![0xff];
            } else if v[0] == 0 {
                v.remove(0);
                if v.is_empty() {
                    v = vec![0x80];
                } else {
                    v[0] |= 0x80;
                }
            } else {
                v[0] |= 0x80;
            }
            Sx::atom(&v)
        }
        7 => Sx::atom(&[&[1u8][..], &[0u8; 8][..]].concat()), // 2^64
        8 => Sx::atom(&[&[0u8, 0x80][..], &rng.bytes(1022)[..]].concat()), // huge
        _ => Sx::pair(Sx::atom(&canon), Sx::nil()),
    }
}

// ---------------------------------------------------------------------------------------
// defects

fn apply_defect(rng: &mut Rng, p: &GenParams, b: &mut ABundle) {
    let ns = b.spends.len();
    let kind = rng.below(38);
    let tag: String;
    match kind {
        0 => {
            b.spend_term = Sx::atom(&[rng.u8() | 1]);
            tag = "spend-list-terminator".into();
        }
        1 if ns > 0 => {
            let i = rng.usize(ns);
            b.spends[i].cond_term = Sx::atom(&[rng.u8() | 1]);
            tag = "cond-list-terminator".into();
        }
        2 if ns > 0 => {
            let i = rng.usize(ns);
            b.spends[i].fields = rng.usize(4);
            tag = "short-spend".into();
        }
        3 if ns > 0 => {
            let i = rng.usize(ns);
            b.spends[i].amount_atom = boundary_int_atom(rng);
            tag = "coin-amount-encoding".into();
        }
        4 if ns > 0 => {
            let i = rng.usize(ns);
            let n = *rng.pick(&[0usize, 31, 33]);
            if rng.bool() {
                b.spends[i].parent_atom = Sx::atom(&rng.bytes(n));
            } else {
                b.spends[i].puzzle_hash_atom = Sx::atom(&rng.bytes(n));
            }
            tag = "coin-hash-length".into();
        }
        5 if ns > 0 => {
            let i = rng.usize(ns);
            let s = b.spends[i].clone();
            b.spends.push(s);
            tag = "double-spend".into();
        }
        6 if ns > 0 => {
            // mint: one more output than there is value
            let i = rng.usize(ns);
            let total: u128 = b.spends.iter().map(|s| u128::from(s.amount)).sum();
            let amt = (total + 1).min(u128::from(u64::MAX)) as u64;
            b.spends[i].conds.push(cond(&[51], &[Sx::atom(&rng.bytes32()), int_atom(amt)]));
            tag = "mint".into();
        }
        7 if ns > 0 => {
            let i = rng.usize(ns);
            let v = *rng.pick(&[u64::MAX, u64::MAX / 2 + 1, 1 << 40]);
            b.spends[i].conds.push(cond(&[52], &[int_atom(v)]));
            if rng.bool() {
                b.spends[i].conds.push(cond(&[52], &[int_atom(v)]));
            }
            tag = "fee-too-large".into();
        }
        8 if ns > 0 => {
            // duplicate an existing condition
            let i = rng.usize(ns);
            if b.spends[i].conds.is_empty() {
                return;
            }
            let k = rng.usize(b.spends[i].conds.len());
            let c = b.spends[i].conds[k].clone();
            b.spends[i].conds.push(c);
            tag = "dup-condition".into();
        }
        9 if ns > 0 => {
            let i = rng.usize(ns);
            if b.spends[i].conds.is_empty() {
                return;
            }
            let k = rng.usize(b.spends[i].conds.len());
            b.spends[i].conds.remove(k);
            tag = "drop-condition".into();
        }
        10 if ns > 0 && p.agg_sigs => {
            let i = rng.usize(ns);
            let op = *rng.pick(&[43u8, 44, 45, 46, 47, 48, 49, 50]);
            let pk = rng.pick(&p.keys.invalid).clone();
            b.spends[i].conds.push(cond(&[op], &[Sx::atom(&pk), Sx::atom(b"bad key")]));
            tag = "bad-public-key".into();
        }
        11 if ns > 0 && p.agg_sigs => {
            // AGG_SIG_UNSAFE whose message ends in a domain constant
            let i = rng.usize(ns);
            let k = rng.usize(7);
            let mut msg = gen_msg(rng);
            msg.truncate(900);
            msg.extend_from_slice(p.consts.all()[k]);
            let op = if rng.chance(4, 5) { 49u8 } else { 50 };
            let pk = rng.pick(&p.keys.valid).clone();
            b.spends[i].conds.push(cond(&[op], &[Sx::atom(&pk), Sx::atom(&msg)]));
            tag = "unsafe-suffix".into();
        }
        12 if ns > 0 => {
            // conflicting time locks
            let i = rng.usize(ns);
            let (a, bf, w) = *rng.pick(&[(80u8, 84u8, 8u32), (82, 86, 4), (81, 85, 8), (83, 87, 4)]);
            let v = lock_small(rng, w);
            let delta = rng.below(3);
            b.spends[i].conds.push(cond(&[a], &[int_atom(v)]));
            b.spends[i].conds.push(cond(&[bf], &[int_atom(v.saturating_add(delta).saturating_sub(1))]));
            tag = "lock-conflict".into();
        }
        13 if ns > 0 => {
            let i = rng.usize(ns);
            let op = *rng.pick(&[74u8, 75]);
            b.spends[i].conds.push(cond(&[op], &[int_atom(rng.below(3))]));
            b.spends[i].conds.push(cond(&[op], &[int_atom(rng.below(3))]));
            tag = "birth-conflict".into();
        }
        14 if ns > 0 => {
            // false self-assertion
            let i = rng.usize(ns);
            let op = *rng.pick(&[70u8, 71, 72]);
            b.spends[i].conds.push(cond(&[op], &[Sx::atom(&rng.bytes32())]));
            tag = "false-self-assert".into();
        }
        15 if ns > 0 => {
            let i = rng.usize(ns);
            let wrong = b.spends[i].amount ^ 1;
            b.spends[i].conds.push(cond(&[73], &[int_atom(wrong)]));
            tag = "false-amount-assert".into();
        }
        16 if ns > 0 => {
            let i = rng.usize(ns);
            b.spends[i].conds.push(cond(&[76], &[]));
            tag = "assert-ephemeral".into();
        }
        17 if ns > 0 => {
            // unknown assertion ids
            let i = rng.usize(ns);
            let op = *rng.pick(&[61u8, 63, 64, 65]);
            b.spends[i].conds.push(cond(&[op], &[Sx::atom(&rng.bytes32())]));
            tag = "dangling-assert".into();
        }
        18 if ns > 0 => {
            // announcement of one kind asserted as the other kind (same id bytes)
            let i = rng.usize(ns);
            let j = rng.usize(ns);
            let msg = gen_msg(rng);
            let (coin_id, ph) = (b.spends[i].coin_id(), b.spends[i].puzzle_hash);
            if rng.bool() {
                b.spends[i].conds.push(cond(&[60], &[Sx::atom(&msg)]));
                b.spends[j].conds.push(cond(&[63], &[Sx::atom(&sha256(&[&coin_id, &msg]))]));
            } else {
                b.spends[i].conds.push(cond(&[62], &[Sx::atom(&msg)]));
                b.spends[j].conds.push(cond(&[61], &[Sx::atom(&sha256(&[&ph, &msg]))]));
            }
            tag = "announcement-kind-confusion".into();
        }
        19 if ns > 0 => {
            // concurrent-spend assertion naming a puzzle hash, or the reverse
            let i = rng.usize(ns);
            let j = rng.usize(ns);
            if rng.bool() {
                let ph = b.spends[j].puzzle_hash;
                b.spends[i].conds.push(cond(&[64], &[Sx::atom(&ph)]));
            } else {
                let id = b.spends[j].coin_id();
                b.spends[i].conds.push(cond(&[65], &[Sx::atom(&id)]));
            }
            tag = "concurrent-kind-confusion".into();
        }
        20 if ns > 0 => {
            // self-assertion naming another attribute of the same coin
            let i = rng.usize(ns);
            let (id, parent, ph) = (b.spends[i].coin_id(), b.spends[i].parent, b.spends[i].puzzle_hash);
            let (op, v) = *rng.pick(&[(70u8, parent), (70, ph), (71, id), (71, ph), (72, id), (72, parent)]);
            b.spends[i].conds.push(cond(&[op], &[Sx::atom(&v)]));
            tag = "self-assert-attribute-confusion".into();
        }
        21 if ns > 0 => {
            // a coin whose parent is spent in this bundle but which that parent does NOT create
            // (amount off by one / other puzzle hash): not ephemeral
            let i = rng.usize(ns);
            let k = pick_puzzle(rng);
            let ph = puzzle(k).tree_hash();
            let amount = 1 + rng.below(1000);
            let parent = b.spends[i].coin_id();
            let near = if rng.bool() { (ph, amount + 1) } else { (pool_hash(rng, 0x63), amount) };
            b.spends[i].conds.push(cond(&[51], &[Sx::atom(&near.0), int_atom(near.1)]));
            let mut conds = vec![];
            if rng.bool() {
                conds.push(cond(&[76], &[]));
            } else {
                conds.push(cond(&[82], &[int_atom(0)]));
            }
            b.spends.push(ASpend {
                parent,
                puzzle_idx: k,
                puzzle_hash: ph,
                amount,
                amount_atom: int_atom(amount),
                parent_atom: Sx::atom(&parent),
                puzzle_hash_atom: Sx::atom(&ph),
                conds,
                cond_term: Sx::nil(),
                spend_ext: Sx::nil(),
                fields: 4,
            });
            tag = "near-ephemeral".into();
        }
        22 if ns > 0 => {
            // message pair whose texts differ in one byte
            let i = rng.usize(ns);
            let j = rng.usize(ns);
            let mut msg = gen_msg(rng);
            if msg.is_empty() {
                msg.push(7);
            }
            let mut msg2 = msg.clone();
            let at = rng.usize(msg2.len());
            msg2[at] ^= 1;
            b.spends[i].conds.push(cond(&[66], &[int_atom(0), Sx::atom(&msg)]));
            b.spends[j].conds.push(cond(&[67], &[int_atom(0), Sx::atom(&msg2)]));
            tag = "message-text-near-miss".into();
        }
        _ if ns > 0 => {
            // structural mutation of one condition
            let i = rng.usize(ns);
            if b.spends[i].conds.is_empty() {
                return;
            }
            let k = rng.usize(b.spends[i].conds.len());
            let (m, t) = mutate_condition(rng, &b.spends[i].conds[k]);
            b.spends[i].conds[k] = m;
            tag = format!("mutate:{t}");
        }
        _ => return,
    }
    b.tags.push(format!("defect:{tag}"));
}

/// one structural mutation of a condition tree
pub fn mutate_condition(rng: &mut Rng, c: &Sx) -> (Sx, &'static str) {
    let (items, term) = c.unlist();
    let mut items: Vec<Sx> = items.into_iter().cloned().collect();
    let mut term = term.clone();
    if items.is_empty() {
        return (Sx::pair(c.clone(), Sx::nil()), "atom-to-pair");
    }
    let nargs = items.len() - 1;
    let what = rng.below(16);
    let t = match what {
        0 => {
            term = Sx::atom(&[rng.u8() | 1]);
            "args-terminator"
        }
        1 => {
            items.push(Sx::atom(&gen_msg(rng)));
            "extra-arg"
        }
        2 if nargs > 0 => {
            items.pop();
            "drop-last-arg"
        }
        3 if nargs > 0 => {
            let k = 1 + rng.usize(nargs);
            items[k] = Sx::pair(items[k].clone(), Sx::nil());
            "arg-to-pair"
        }
        4 if nargs > 0 => {
            let k = 1 + rng.usize(nargs);
            if let Some(b) = items[k].as_atom() {
                let mut v = b.to_vec();
                if rng.bool() || v.is_empty() {
                    v.push(rng.u8());
                } else {
                    v.pop();
                }
                items[k] = Sx::atom(&v);
            }
            "arg-length"
        }
        5 if nargs > 0 => {
            let k = 1 + rng.usize(nargs);
            if let Some(b) = items[k].as_atom() {
                let mut v = b.to_vec();
                if !v.is_empty() {
                    let at = rng.usize(v.len());
                    v[at] ^= 1 << rng.below(8);
                }
                items[k] = Sx::atom(&v);
            }
            "arg-bitflip"
        }
        6 if nargs > 0 => {
            let k = 1 + rng.usize(nargs);
            items[k] = boundary_int_atom(rng);
            "arg-boundary-int"
        }
        7 => {
            items[0] = Sx::atom(&[*rng.pick(&KNOWN_OPCODES)]);
            "opcode-swap"
        }
        8 => {
            let op: Vec<u8> = match rng.below(6) {
                0 => vec![],
                1 => vec![0],
                2 => vec![0, items[0].as_atom().and_then(|b| b.first().copied()).unwrap_or(51)],
                3 => vec![items[0].as_atom().and_then(|b| b.first().copied()).unwrap_or(51), 0],
                4 => vec![rng.u8(), rng.u8(), rng.u8()],
                _ => vec![rng.u8()],
            };
            items[0] = Sx::atom(&op);
            "opcode-odd"
        }
        9 => {
            items[0] = Sx::pair(items[0].clone(), Sx::nil());
            "opcode-pair"
        }
        10 => return (items[0].clone(), "condition-atom"),
        11 if nargs > 1 => {
            items.swap(1, 2);
            "swap-args"
        }
        12 if nargs > 0 => {
            let k = 1 + rng.usize(nargs);
            items[k] = Sx::nil();
            "arg-nil"
        }
        13 if nargs > 0 => {
            let k = 1 + rng.usize(nargs);
            items[k] = Sx::atom(&rng.bytes(1025));
            "arg-1025"
        }
        _ => {
            items.insert(1, Sx::atom(&gen_msg(rng)));
            "insert-arg"
        }
    };
    (Sx::list_term(&items, term), t)
}
