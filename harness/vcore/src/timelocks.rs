//! Per-condition semantics of the ten lock / birth condition kinds
//! (DESIGN Appendix A.6): each assertion is judged on its own, by its
//! arithmetic definition with sums saturating at the type maximum.

use crate::ints::{classify_uint, UintClass};

#[derive(Clone, Debug)]
pub struct LockCond {
    pub spend: usize,
    pub op: u8,
    pub arg: Vec<u8>,
}

#[derive(Clone, Copy, Debug)]
pub struct Chain {
    /// height of the previous transaction block
    pub height: u32,
    pub timestamp: u64,
}

#[derive(Clone, Copy, Debug)]
pub struct Birth {
    pub height: u32,
    pub timestamp: u64,
}

pub fn is_lock_opcode(op: u8) -> bool {
    matches!(op, 74 | 75 | 80..=87)
}

pub fn is_height_kind(op: u8) -> bool {
    matches!(op, 75 | 82 | 83 | 86 | 87)
}

pub fn is_relative_kind(op: u8) -> bool {
    matches!(op, 80 | 82 | 84 | 86)
}

/// (holds?, threshold actually compared against, sum saturated?) — None when the
/// argument is not a canonically encoded integer (such a bundle never parses).
pub fn holds(c: &LockCond, chain: Chain, birth: Birth) -> Option<(bool, u128, bool)> {
    let height = is_height_kind(c.op);
    let w = if height { 4 } else { 8 };
    let max: u128 = if height { u128::from(u32::MAX) } else { u128::from(u64::MAX) };
    let now: u128 = if height { u128::from(chain.height) } else { u128::from(chain.timestamp) };
    let born: u128 = if height { u128::from(birth.height) } else { u128::from(birth.timestamp) };
    let class = classify_uint(&c.arg, w);
    if class == UintClass::Malformed {
        return None;
    }
    let after = matches!(c.op, 80..=83);
    let before = matches!(c.op, 84..=87);
    Some(match class {
        // below every representable time / above every representable time
        UintClass::Negative => (after, 0, false),
        UintClass::TooBig => (before, max + 1, false),
        UintClass::Ok(v) => {
            let v = u128::from(v);
            if c.op == 74 || c.op == 75 {
                (born == v, v, false)
            } else {
                let (t, sat) = if is_relative_kind(c.op) {
                    let sum = born + v;
                    (sum.min(max), sum >= max)
                } else {
                    (v, false)
                };
                (if after { now >= t } else { now < t }, t, sat)
            }
        }
        UintClass::Malformed => unreachable!(),
    })
}
