//! Small deterministic PRNG (xoshiro256**, seeded through splitmix64).

#[derive(Clone, Debug)]
pub struct Rng {
    s: [u64; 4],
}

pub fn splitmix(x: &mut u64) -> u64 {
    *x = x.wrapping_add(0x9e37_79b9_7f4a_7c15);
    let mut z = *x;
    z = (z ^ (z >> 30)).wrapping_mul(0xbf58_476d_1ce4_e5b9);
    z = (z ^ (z >> 27)).wrapping_mul(0x94d0_49bb_1331_11eb);
    z ^ (z >> 31)
}

impl Rng {
    pub fn new(seed: u64) -> Self {
        let mut x = seed;
        let s = [
            splitmix(&mut x),
            splitmix(&mut x),
            splitmix(&mut x),
            splitmix(&mut x),
        ];
        Rng { s }
    }

    /// RNG for one case: depends on (seed, stream label, case index) only,
    /// never on how cases are distributed over shards.
    pub fn for_case(seed: u64, label: &str, case: u64) -> Self {
        let mut x = seed ^ 0x5151_7ea5_eed0_0001;
        let mut acc = splitmix(&mut x);
        for b in label.bytes() {
            x ^= u64::from(b).wrapping_mul(0x100_0000_01b3);
            acc ^= splitmix(&mut x);
        }
        x ^= case.wrapping_mul(0x9e37_79b9_7f4a_7c15);
        acc ^= splitmix(&mut x);
        Rng::new(acc)
    }

    pub fn u64(&mut self) -> u64 {
        let r = self.s[1].wrapping_mul(5).rotate_left(7).wrapping_mul(9);
        let t = self.s[1] << 17;
        self.s[2] ^= self.s[0];
        self.s[3] ^= self.s[1];
        self.s[1] ^= self.s[2];
        self.s[0] ^= self.s[3];
        self.s[2] ^= t;
        self.s[3] = self.s[3].rotate_left(45);
        r
    }

    pub fn u32(&mut self) -> u32 {
        (self.u64() >> 32) as u32
    }

    pub fn u8(&mut self) -> u8 {
        (self.u64() >> 56) as u8
    }

    /// uniform in 0..n; `below(0)` is 0 (still consumes one draw)
    pub fn below(&mut self, n: u64) -> u64 {
        if n == 0 {
            let _ = self.u64();
            return 0;
        }
        // multiply-shift; bias is irrelevant for workload generation
        ((u128::from(self.u64()) * u128::from(n)) >> 64) as u64
    }

    pub fn usize(&mut self, n: usize) -> usize {
        self.below(n as u64) as usize
    }

    /// inclusive range
    pub fn range(&mut self, lo: u64, hi: u64) -> u64 {
        lo + self.below(hi - lo + 1)
    }

    /// true with probability num/den
    pub fn chance(&mut self, num: u64, den: u64) -> bool {
        self.below(den) < num
    }

    pub fn bool(&mut self) -> bool {
        self.u64() >> 63 == 1
    }

    pub fn pick<'a, T>(&mut self, xs: &'a [T]) -> &'a T {
        &xs[self.usize(xs.len())]
    }

    pub fn bytes(&mut self, n: usize) -> Vec<u8> {
        let mut v = Vec::with_capacity(n);
        while v.len() < n {
            let w = self.u64().to_le_bytes();
            let take = (n - v.len()).min(8);
            v.extend_from_slice(&w[..take]);
        }
        v
    }

    pub fn bytes32(&mut self) -> [u8; 32] {
        let mut r = [0u8; 32];
        r.copy_from_slice(&self.bytes(32));
        r
    }

    pub fn shuffle<T>(&mut self, xs: &mut [T]) {
        for i in (1..xs.len()).rev() {
            let j = self.usize(i + 1);
            xs.swap(i, j);
        }
    }

    /// pick an index according to integer weights
    pub fn weighted(&mut self, weights: &[u32]) -> usize {
        let total: u64 = weights.iter().map(|w| u64::from(*w)).sum();
        let mut r = self.below(total);
        for (i, w) in weights.iter().enumerate() {
            if r < u64::from(*w) {
                return i;
            }
            r -= u64::from(*w);
        }
        weights.len() - 1
    }
}
