//! C17 — every tree-hash routine computes the same hash.
//!
//! Oracle: `vcore::Sx::tree_hash` / `model_hash_dag` (sha2, written from the
//! definition). Observed: clvm_utils::{tree_hash, tree_hash_cached,
//! tree_hash_from_bytes, curry_tree_hash, CurriedProgram, TreeHasher}.

use clvm_traits::{clvm_curried_args, ToClvm};
use clvm_utils::{
    curry_tree_hash, tree_hash, tree_hash_cached, tree_hash_from_bytes, CurriedProgram, ToTreeHash,
    TreeCache, TreeHash,
};
use clvmr::allocator::{Allocator, NodePtr, SExp};
use clvmr::serde::{node_to_bytes, node_to_bytes_backrefs};
use serde_json::json;
use std::collections::HashMap;
use vcore::report::{run_cases, with_big_stack};
use vcore::sx::Repr;
use vcore::{hx, sha256, Args, Report, Rng, Sx};

/// Reference hash of a node inside an allocator, memoised per node so DAGs
/// with exponential unfolding are fine. Independent of clvm-utils.
fn model_hash_dag(a: &Allocator, root: NodePtr, memo: &mut HashMap<NodePtr, [u8; 32]>) -> [u8; 32] {
    enum Op {
        Visit(NodePtr),
        Combine(NodePtr),
    }
    let mut ops = vec![Op::Visit(root)];
    let mut vals: Vec<[u8; 32]> = vec![];
    while let Some(op) = ops.pop() {
        match op {
            Op::Visit(n) => {
                if let Some(h) = memo.get(&n) {
                    vals.push(*h);
                    continue;
                }
                match a.sexp(n) {
                    SExp::Atom => vals.push(sha256(&[&[1u8], a.atom(n).as_ref()])),
                    SExp::Pair(l, r) => {
                        ops.push(Op::Combine(n));
                        ops.push(Op::Visit(r));
                        ops.push(Op::Visit(l));
                    }
                }
            }
            Op::Combine(n) => {
                let r = vals.pop().unwrap();
                let l = vals.pop().unwrap();
                let h = sha256(&[&[2u8], &l, &r]);
                memo.insert(n, h);
                vals.push(h);
            }
        }
    }
    vals.pop().unwrap()
}

const EDGE_ATOMS: &[&[u8]] = &[
    &[], &[0], &[1], &[2], &[22], &[23], &[24], &[25], &[0x7f], &[0x80], &[0xff], &[0, 5], &[0, 0x80],
    &[0, 0], &[1, 0], &[0xff, 0xff], &[0x7f, 0xff, 0xff, 0xff], &[0, 0xff, 0xff, 0xff, 0xff],
    &[3, 0xff, 0xff, 0xff], &[4, 0, 0, 0],
];

fn gen_atom(rng: &mut Rng) -> Vec<u8> {
    match rng.below(10) {
        0..=2 => rng.pick(EDGE_ATOMS).to_vec(),
        3 => vec![rng.below(30) as u8],
        4 => rng.bytes(32),
        5 => {
            let n = rng.usize(5);
            rng.bytes(n)
        }
        6 => {
            let n = 1 + rng.usize(64);
            rng.bytes(n)
        }
        7 => rng.bytes(if miri() { 40 } else { 1024 }),
        _ => {
            let n = rng.usize(9);
            rng.bytes(n)
        }
    }
}

fn gen_tree(rng: &mut Rng, budget: &mut i64, depth: u32) -> Sx {
    *budget -= 1;
    if *budget <= 0 || depth > 60 || rng.chance(2, 5) {
        return Sx::atom(&gen_atom(rng));
    }
    let l = gen_tree(rng, budget, depth + 1);
    let r = gen_tree(rng, budget, depth + 1);
    Sx::pair(l, r)
}

fn check(rep: &mut Report, what: &str, got: &[u8], want: &[u8; 32], detail: impl FnOnce() -> serde_json::Value) {
    rep.eval();
    rep.count(&format!("eval:{what}"));
    if got != want {
        rep.violation(
            &format!("treehash-mismatch:{what}"),
            &format!("{what} returned {} but the definition gives {}", hx(got), hx(want)),
            detail(),
        );
    }
}

fn case_random_tree(rng: &mut Rng, rep: &mut Report) {
    let big = rng.chance(1, 10) && !miri();
    let mut budget = 1 + rng.below(if big { 4000 } else if miri() { 16 } else { 60 }) as i64;
    let t = gen_tree(rng, &mut budget, 0);
    let want = t.tree_hash();
    let ser = t.serialize();
    let repr = *rng.pick(&[Repr::Plain, Repr::Substr, Repr::Concat, Repr::Mixed]);
    let mut a = Allocator::new();
    let n = t.to_node(&mut a, repr, rng);
    let det = || json!({"tree": t.show(), "repr": format!("{repr:?}"), "ser": hx(&ser)});
    check(rep, "tree_hash", tree_hash(&a, n).as_ref(), &want, det);
    let mut cache = TreeCache::default();
    check(rep, "tree_hash_cached/fresh", tree_hash_cached(&a, n, &mut cache).as_ref(), &want, det);
    // again through the same cache (now "seen" counters have moved)
    check(rep, "tree_hash_cached/again", tree_hash_cached(&a, n, &mut cache).as_ref(), &want, det);
    check(rep, "tree_hash_cached/third", tree_hash_cached(&a, n, &mut cache).as_ref(), &want, det);
    match tree_hash_from_bytes(&ser) {
        Ok(h) => check(rep, "tree_hash_from_bytes/plain", h.as_ref(), &want, det),
        Err(e) => rep.violation("treehash-from-bytes-error", &format!("plain serialization rejected: {e:?}"), det()),
    }
    // the model's serializer and clvmr's must agree, otherwise the case is ill-formed
    let real_ser = node_to_bytes(&a, n).expect("node_to_bytes");
    if real_ser != ser {
        rep.harness_error("model serializer disagrees with clvmr");
    }
    let br = node_to_bytes_backrefs(&a, n).expect("backrefs");
    if br != ser {
        rep.count("backref_serialization_differs");
    }
    match tree_hash_from_bytes(&br) {
        Ok(h) => check(rep, "tree_hash_from_bytes/backrefs", h.as_ref(), &want, || {
            json!({"tree": t.show(), "backrefs": hx(&br)})
        }),
        Err(e) => rep.violation("treehash-from-bytes-error", &format!("backref serialization rejected: {e:?}"), det()),
    }
    rep.cell_digest(u64::from_le_bytes(want[..8].try_into().unwrap()));
    if rep.want_sample() {
        rep.sample(json!({"kind": "random-tree", "tree": t.show(), "repr": format!("{repr:?}"), "hash": hx(&want)}));
    }
}

/// atoms 0..=40 and neighbours in small-int and heap representation
fn case_small_atoms(rng: &mut Rng, rep: &mut Report) {
    let mut a = Allocator::new();
    for v in 0u32..=(if miri() { 26 } else { 300 }) {
        let bytes = vcore::ints::minimal_be_u64(u64::from(v));
        let want = sha256(&[&[1u8], &bytes]);
        let small = a.new_small_number(v).unwrap();
        let heap = Sx::atom(&bytes).to_node(&mut a, Repr::Substr, rng);
        let plain = a.new_atom(&bytes).unwrap();
        for (name, n) in [("small", small), ("heap", heap), ("plain", plain)] {
            let det = || json!({"value": v, "repr": name});
            check(rep, &format!("atom/{name}"), tree_hash(&a, n).as_ref(), &want, det);
            let mut c = TreeCache::default();
            check(rep, &format!("atom-cached/{name}"), tree_hash_cached(&a, n, &mut c).as_ref(), &want, det);
            // as children of a pair
            let p = a.new_pair(n, n).unwrap();
            let wantp = sha256(&[&[2u8], &want, &want]);
            check(rep, &format!("atom-in-pair/{name}"), tree_hash(&a, p).as_ref(), &wantp, det);
            check(rep, &format!("atom-in-pair-cached/{name}"), tree_hash_cached(&a, p, &mut c).as_ref(), &wantp, det);
        }
        // non-canonical spellings of small numbers must hash as their bytes
        let padded = [&[0u8][..], &bytes].concat();
        let np = a.new_atom(&padded).unwrap();
        check(rep, "atom/padded", tree_hash(&a, np).as_ref(), &sha256(&[&[1u8], &padded]), || json!({"padded": hx(&padded)}));
        rep.cell(&format!("small-atom:{v}"));
    }
}

/// DAG with heavy sharing, built directly in the allocator
fn case_dag(rng: &mut Rng, rep: &mut Report, thorough: bool) {
    let mut a = Allocator::new();
    let mut pool: Vec<NodePtr> = vec![];
    for _ in 0..(2 + rng.usize(6)) {
        let b = gen_atom(rng);
        pool.push(Sx::atom(&b).to_node(&mut a, *rng.pick(&[Repr::Plain, Repr::Substr]), rng));
    }
    let layers = if miri() { 4 + rng.usize(8) } else if thorough { 20 + rng.usize(60) } else { 10 + rng.usize(30) };
    for _ in 0..layers {
        // strongly prefer recent nodes => 2^layers unfolded paths
        let pick = |rng: &mut Rng, pool: &Vec<NodePtr>| {
            if rng.chance(3, 4) {
                pool[pool.len() - 1 - rng.usize(pool.len().min(3))]
            } else {
                pool[rng.usize(pool.len())]
            }
        };
        let l = pick(rng, &pool);
        let r = pick(rng, &pool);
        pool.push(a.new_pair(l, r).unwrap());
    }
    let mut memo = HashMap::new();
    // history: hash several roots, in random order, with repeats, through ONE cache
    let mut cache = TreeCache::default();
    let roots = 1 + rng.usize(12);
    let mut memoised = 0u64;
    for step in 0..roots {
        let n = pool[pool.len() - 1 - rng.usize(pool.len().min(12))];
        let want = model_hash_dag(&a, n, &mut memo);
        let use_cache = !rng.chance(1, 4);
        let det = || json!({"kind": "dag-history", "step": step, "layers": layers});
        if use_cache {
            check(rep, "dag/tree_hash_cached", tree_hash_cached(&a, n, &mut cache).as_ref(), &want, det);
        } else if layers <= 24 {
            // plain tree_hash unfolds the DAG: only affordable for shallow ones
            check(rep, "dag/tree_hash", tree_hash(&a, n).as_ref(), &want, det);
        }
        // every memo entry the cache exposes must be the true hash of that node
        for p in &pool {
            if let Some(h) = cache.get(*p) {
                memoised += 1;
                let w = model_hash_dag(&a, *p, &mut memo);
                if h.as_ref() != w {
                    rep.violation(
                        "treehash-cache-entry-wrong",
                        &format!("TreeCache::get returned {} for a node whose hash is {}", hx(h.as_ref()), hx(&w)),
                        det(),
                    );
                }
            }
        }
    }
    // atoms as ROOTS through the cache the pairs were memoised in: small integers and heap atoms
    // whose allocator index equals the index of a memoised pair must still hash as atoms
    let npairs = a.pair_count() as u32;
    for _ in 0..6 {
        let k = rng.below(u64::from(npairs) + 3) as u32;
        let small = a.new_small_number(k).unwrap();
        let want = sha256(&[&[1u8], &vcore::ints::minimal_be_u64(u64::from(k))]);
        check(rep, "dag/atom-root-small-through-used-cache", tree_hash_cached(&a, small, &mut cache).as_ref(), &want, || {
            json!({"kind": "atom-root", "value": k, "pairs_in_allocator": npairs})
        });
    }
    for p in pool.iter().take(8) {
        if let SExp::Atom = a.sexp(*p) {
            let want = sha256(&[&[1u8], a.atom(*p).as_ref()]);
            check(rep, "dag/atom-root-heap-through-used-cache", tree_hash_cached(&a, *p, &mut cache).as_ref(), &want, || {
                json!({"kind": "atom-root-heap", "atom": hx(a.atom(*p).as_ref())})
            });
        }
    }
    rep.add("memoised_nodes_observed", memoised);
    rep.count("dag_histories");
    // back-referenced serialization of the top root
    let top = *pool.last().unwrap();
    if layers <= 40 {
        if let Ok(br) = node_to_bytes_backrefs(&a, top) {
            let want = model_hash_dag(&a, top, &mut memo);
            match tree_hash_from_bytes(&br) {
                Ok(h) => check(rep, "dag/tree_hash_from_bytes", h.as_ref(), &want, || json!({"backrefs": hx(&br)})),
                Err(e) => rep.violation("treehash-from-bytes-error", &format!("{e:?}"), json!({"backrefs": hx(&br)})),
            }
        }
    }
    let w = model_hash_dag(&a, top, &mut memo);
    rep.cell_digest(u64::from_le_bytes(w[..8].try_into().unwrap()));
}

/// One cache memoising MANY distinct shared pairs (tens of thousands, beyond any plausible bound on the
/// memo table): the tree (X . (BIG . X)) with BIG a list of n elements (P_i . P_i), every P_i a distinct
/// pair reached twice, and X a shared pair reached before and after BIG. Every routine and every
/// entry the cache exposes afterwards must still be right.
fn case_many_memoised(rng: &mut Rng, rep: &mut Report) {
    let n = if miri() { 40 } else { *rng.pick(&[300usize, 66_000, 70_000]) };
    let mut a = Allocator::new();
    let xa = a.new_atom(&gen_atom(rng)).unwrap();
    let xb = a.new_atom(&gen_atom(rng)).unwrap();
    let x = a.new_pair(xa, xb).unwrap();
    let mut ps: Vec<NodePtr> = Vec::with_capacity(n);
    let mut big = a.nil();
    for i in 0..n {
        let l = a.new_small_number((i as u32).wrapping_mul(7919) % 50_000_000).unwrap();
        let r = a.new_atom(&(i as u32).to_be_bytes()).unwrap();
        let p = a.new_pair(l, r).unwrap();
        ps.push(p);
        let e = a.new_pair(p, p).unwrap();
        big = a.new_pair(e, big).unwrap();
    }
    let tail = a.new_pair(big, x).unwrap();
    let root = a.new_pair(x, tail).unwrap();
    let mut memo = HashMap::new();
    let want = model_hash_dag(&a, root, &mut memo);
    let det = || json!({"kind": "many-memoised", "shared_pairs": n});
    rep.cell(&format!("many-memoised:{n}"));
    check(rep, "many-memoised/tree_hash", tree_hash(&a, root).as_ref(), &want, det);
    let mut cache = TreeCache::default();
    check(rep, "many-memoised/tree_hash_cached", tree_hash_cached(&a, root, &mut cache).as_ref(), &want, det);
    let mut memoised = 0u64;
    for p in ps.iter().chain([x, big, tail, root].iter()) {
        if let Some(h) = cache.get(*p) {
            memoised += 1;
            let w = model_hash_dag(&a, *p, &mut memo);
            if h.as_ref() != w {
                rep.violation(
                    "treehash-cache-entry-wrong",
                    &format!("TreeCache::get returned {} for a node whose hash is {}", hx(h.as_ref()), hx(&w)),
                    det(),
                );
                break;
            }
        }
    }
    // the used cache again: the early pairs, the root, and a fresh tree over early and late pairs
    for p in [x, ps[0], ps[n / 2], ps[n - 1], root] {
        let w = model_hash_dag(&a, p, &mut memo);
        check(rep, "many-memoised/tree_hash_cached-reused", tree_hash_cached(&a, p, &mut cache).as_ref(), &w, det);
    }
    let mix = a.new_pair(ps[0], ps[n - 1]).unwrap();
    let mix = a.new_pair(mix, x).unwrap();
    let w = model_hash_dag(&a, mix, &mut memo);
    check(rep, "many-memoised/tree_hash_cached-reused", tree_hash_cached(&a, mix, &mut cache).as_ref(), &w, det);
    rep.add("memoised_nodes_observed", memoised);
    rep.count("many_memoised_cases");
    if let Ok(br) = node_to_bytes_backrefs(&a, root) {
        match tree_hash_from_bytes(&br) {
            Ok(h) => check(rep, "many-memoised/tree_hash_from_bytes-backrefs", h.as_ref(), &want, det),
            Err(e) => rep.violation("treehash-from-bytes-error", &format!("{e:?}"), det()),
        }
    }
    if let Ok(plain) = clvmr::serde::node_to_bytes(&a, root) {
        match tree_hash_from_bytes(&plain) {
            Ok(h) => check(rep, "many-memoised/tree_hash_from_bytes-plain", h.as_ref(), &want, det),
            Err(e) => rep.violation("treehash-from-bytes-error", &format!("{e:?}"), det()),
        }
    }
}

/// several trees sharing sub-trees inside one allocator, hashed through one cache
fn case_history(rng: &mut Rng, rep: &mut Report) {
    let mut a = Allocator::new();
    let mut shared: Vec<(NodePtr, Sx)> = vec![];
    for _ in 0..(1 + rng.usize(5)) {
        let mut b = 1 + rng.below(30) as i64;
        let t = gen_tree(rng, &mut b, 0);
        let n = t.to_node(&mut a, Repr::Mixed, rng);
        shared.push((n, t));
    }
    // trees = random combinations of shared parts
    let mut trees: Vec<(NodePtr, Sx)> = vec![];
    for _ in 0..(1 + rng.usize(20)) {
        let k = 1 + rng.usize(5);
        let mut node = a.nil();
        let mut sx = Sx::nil();
        for _ in 0..k {
            let (sn, st) = if !trees.is_empty() && rng.chance(1, 3) {
                trees[rng.usize(trees.len())].clone()
            } else {
                shared[rng.usize(shared.len())].clone()
            };
            if rng.bool() {
                node = a.new_pair(sn, node).unwrap();
                sx = Sx::pair(st, sx);
            } else {
                node = a.new_pair(node, sn).unwrap();
                sx = Sx::pair(sx, st);
            }
        }
        trees.push((node, sx));
    }
    let mut cache = TreeCache::default();
    let steps = 1 + rng.usize(if miri() { 8 } else { 50 });
    let mut memoised = 0u64;
    for step in 0..steps {
        let (n, t) = &trees[rng.usize(trees.len())];
        let want = t.tree_hash();
        let det = || json!({"kind": "history", "step": step, "tree": t.show()});
        if rng.chance(1, 5) {
            check(rep, "history/tree_hash", tree_hash(&a, *n).as_ref(), &want, det);
        } else {
            check(rep, "history/tree_hash_cached", tree_hash_cached(&a, *n, &mut cache).as_ref(), &want, det);
        }
        if cache.get(*n).is_some() {
            memoised += 1;
        }
    }
    for (n, t) in &trees {
        if let Some(h) = cache.get(*n) {
            memoised += 1;
            if h.as_ref() != t.tree_hash() {
                rep.violation("treehash-cache-entry-wrong", "TreeCache::get holds a wrong hash", json!({"tree": t.show()}));
            }
        }
    }
    let npairs = a.pair_count() as u32;
    for _ in 0..6 {
        let k = rng.below(u64::from(npairs) + 3) as u32;
        let small = a.new_small_number(k).unwrap();
        let want = sha256(&[&[1u8], &vcore::ints::minimal_be_u64(u64::from(k))]);
        check(rep, "history/atom-root-small-through-used-cache", tree_hash_cached(&a, small, &mut cache).as_ref(), &want, || {
            json!({"kind": "atom-root", "value": k, "pairs_in_allocator": npairs})
        });
    }
    for j in 0..4u8 {
        // heap atoms created after the pairs: their atom index is small, like the memoised pairs' indices
        let bytes = vec![0x80 | j; 5 + j as usize];
        let n = a.new_atom(&bytes).unwrap();
        let want = sha256(&[&[1u8], &bytes]);
        check(rep, "history/atom-root-heap-through-used-cache", tree_hash_cached(&a, n, &mut cache).as_ref(), &want, || {
            json!({"kind": "atom-root-heap", "atom": hx(&bytes)})
        });
    }
    rep.add("memoised_nodes_observed", memoised);
    rep.count("cache_histories");
}

fn case_deep(rng: &mut Rng, rep: &mut Report, thorough: bool) {
    let depth = if miri() { 200 + rng.usize(300) } else if thorough { 200_000 + rng.usize(800_000) } else { 20_000 + rng.usize(100_000) };
    let mut a = Allocator::new();
    let left_spine = rng.bool();
    let leaf = gen_atom(rng);
    let mut node = a.new_atom(&leaf).unwrap();
    let mut h = sha256(&[&[1u8], &leaf]);
    let items: Vec<Vec<u8>> = (0..4).map(|_| gen_atom(rng)).collect();
    let item_nodes: Vec<NodePtr> = items.iter().map(|b| a.new_atom(b).unwrap()).collect();
    let item_hashes: Vec<[u8; 32]> = items.iter().map(|b| sha256(&[&[1u8], b])).collect();
    for i in 0..depth {
        let k = i % 4;
        if left_spine {
            node = a.new_pair(node, item_nodes[k]).unwrap();
            h = sha256(&[&[2u8], &h, &item_hashes[k]]);
        } else {
            node = a.new_pair(item_nodes[k], node).unwrap();
            h = sha256(&[&[2u8], &item_hashes[k], &h]);
        }
    }
    let det = || json!({"kind": "deep", "depth": depth, "left_spine": left_spine});
    check(rep, "deep/tree_hash", tree_hash(&a, node).as_ref(), &h, det);
    let mut c = TreeCache::default();
    check(rep, "deep/tree_hash_cached", tree_hash_cached(&a, node, &mut c).as_ref(), &h, det);
    check(rep, "deep/tree_hash_cached-again", tree_hash_cached(&a, node, &mut c).as_ref(), &h, det);
    if !left_spine {
        // clvmr's serializer has its own size limit; a refusal there is not an observation
        if let Ok(ser) = node_to_bytes(&a, node) {
            if let Ok(got) = tree_hash_from_bytes(&ser) {
                check(rep, "deep/tree_hash_from_bytes", got.as_ref(), &h, det);
            } else {
                rep.count("deep_from_bytes_rejected");
            }
        } else {
            rep.count("deep_serializer_limit");
        }
    }
    rep.max("depth", depth as u64);
    rep.cell(&format!("deep:{}:{}", depth / 50_000, left_spine));
}

fn model_curry(program: &Sx, args: &[Sx]) -> Sx {
    // (a (q . p) (c (q . a1) (c (q . a2) ... 1)))
    let mut tail = Sx::atom(&[1]);
    for arg in args.iter().rev() {
        tail = Sx::list(&[Sx::atom(&[4]), Sx::pair(Sx::atom(&[1]), arg.clone()), tail]);
    }
    Sx::list(&[Sx::atom(&[2]), Sx::pair(Sx::atom(&[1]), program.clone()), tail])
}

fn case_curry(rng: &mut Rng, rep: &mut Report) {
    let mut b = 1 + rng.below(40) as i64;
    let program = gen_tree(rng, &mut b, 0);
    let nargs = rng.usize(11);
    let args: Vec<Sx> = (0..nargs)
        .map(|_| {
            let mut b = 1 + rng.below(12) as i64;
            gen_tree(rng, &mut b, 0)
        })
        .collect();
    let curried = model_curry(&program, &args);
    let want = curried.tree_hash();
    let ph = TreeHash::new(program.tree_hash());
    let ahs: Vec<TreeHash> = args.iter().map(|x| TreeHash::new(x.tree_hash())).collect();
    let det = || json!({"kind": "curry", "program": program.show(), "args": args.iter().map(Sx::show).collect::<Vec<_>>()});
    check(rep, &format!("curry_tree_hash/{nargs}"), curry_tree_hash(ph, &ahs).as_ref(), &want, det);

    // the real CurriedProgram encoder, for arities the macro can express
    let mut a = Allocator::new();
    let p = program.to_node(&mut a, Repr::Mixed, rng);
    let an: Vec<NodePtr> = args.iter().map(|x| x.to_node(&mut a, Repr::Mixed, rng)).collect();
    let built = match nargs {
        0 => Some(CurriedProgram { program: p, args: clvm_curried_args!() }.to_clvm(&mut a).unwrap()),
        1 => Some(CurriedProgram { program: p, args: clvm_curried_args!(an[0]) }.to_clvm(&mut a).unwrap()),
        2 => Some(CurriedProgram { program: p, args: clvm_curried_args!(an[0], an[1]) }.to_clvm(&mut a).unwrap()),
        3 => Some(CurriedProgram { program: p, args: clvm_curried_args!(an[0], an[1], an[2]) }.to_clvm(&mut a).unwrap()),
        4 => Some(
            CurriedProgram { program: p, args: clvm_curried_args!(an[0], an[1], an[2], an[3]) }
                .to_clvm(&mut a)
                .unwrap(),
        ),
        _ => None,
    };
    if let Some(n) = built {
        check(rep, "CurriedProgram+tree_hash", tree_hash(&a, n).as_ref(), &want, det);
        if Sx::from_node(&a, n) != curried {
            rep.violation("curried-program-shape", "CurriedProgram::to_clvm differs from the curry definition", det());
        }
        // hashes-only route through the TreeHasher encoder
        let th = match nargs {
            0 => CurriedProgram { program: ph, args: clvm_curried_args!() }.tree_hash(),
            1 => CurriedProgram { program: ph, args: clvm_curried_args!(ahs[0]) }.tree_hash(),
            2 => CurriedProgram { program: ph, args: clvm_curried_args!(ahs[0], ahs[1]) }.tree_hash(),
            3 => CurriedProgram { program: ph, args: clvm_curried_args!(ahs[0], ahs[1], ahs[2]) }.tree_hash(),
            _ => CurriedProgram { program: ph, args: clvm_curried_args!(ahs[0], ahs[1], ahs[2], ahs[3]) }.tree_hash(),
        };
        check(rep, "CurriedProgram/TreeHasher", th.as_ref(), &want, det);
    }
    rep.cell(&format!("curry:{nargs}"));
    rep.cell_digest(u64::from_le_bytes(want[..8].try_into().unwrap()));
}

/// Rust values through the TreeHasher encoder vs through the allocator
fn case_tree_hasher(rng: &mut Rng, rep: &mut Report) {
    let v64 = match rng.below(4) {
        0 => rng.u64(),
        1 => rng.below(300),
        2 => 1u64 << rng.below(64),
        _ => (1u64 << rng.below(64)).wrapping_sub(1),
    };
    let i = v64 as i64;
    let bytes = gen_atom(rng);
    let s = "héllo".repeat(rng.usize(4));
    let nums: Vec<u64> = bytes.iter().map(|b| u64::from(*b)).collect();
    let val = ((v64, i), ((nums, (s.clone(), ((), Some(v64 as u8)))), [i as i32, 7]));
    let mut a = Allocator::new();
    let n = val.to_clvm(&mut a).expect("to_clvm");
    let want = Sx::from_node(&a, n).tree_hash();
    let got: TreeHash = val.tree_hash();
    check(rep, "TreeHasher/value", got.as_ref(), &want, || json!({"v64": v64, "bytes": hx(&bytes), "s": s}));
    check(rep, "TreeHasher/tree_hash", tree_hash(&a, n).as_ref(), &want, || json!({"v64": v64}));
}

/// under the Miri interpreter (about 10^4 times slower) only small structures are used
static MIRI: std::sync::atomic::AtomicBool = std::sync::atomic::AtomicBool::new(false);
fn miri() -> bool {
    MIRI.load(std::sync::atomic::Ordering::Relaxed)
}

fn main() {
    let args = Args::parse();
    MIRI.store(args.lane == "miri", std::sync::atomic::Ordering::Relaxed);
    with_big_stack(move || {
        let mut rep = Report::new(&args.prop, &args.lane);
        let thorough = args.thorough();
        let n = args.cases(200_000, 4_000_000);
        run_cases(&args, "c17", n, &mut rep, |i, rng, rep| {
            // the case kind is drawn from the case's own rng (an `i % k` rule would tie kinds to shards:
            // with 16 shards all deep-spine cases would land in one of them)
            let _ = i;
            match rng.below(4000) {
                0..=9 => case_small_atoms(rng, rep),
                10..=14 => case_deep(rng, rep, thorough),
                3990 => case_many_memoised(rng, rep),
                15..=19 if !thorough => case_deep(rng, rep, thorough),
                20..=619 => case_dag(rng, rep, thorough),
                620..=1219 => case_history(rng, rep),
                1220..=1819 => case_curry(rng, rep),
                1820..=2119 => case_tree_hasher(rng, rep),
                _ => case_random_tree(rng, rep),
            }
        });
        rep.finish(&args);
    });
}
