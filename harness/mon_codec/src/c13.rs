//! C13 — wire encoding is a canonical bijection consistent with hashing.
//!
//! Relations between real calls, with `sha2` (vcore::sha256) as the
//! independent hash:
//!   value side : from_bytes(to_bytes(v)) == v, from_bytes_unchecked likewise,
//!                hash(v) == sha256(to_bytes(v))   (v2 proofs of space: with
//!                the proof replaced by its quality string)
//!   byte side  : every byte of a valid encoding perturbed; whenever the
//!                perturbed string still decodes -> re-encoding reproduces it,
//!                the trusted decoder agrees, and the hash relation holds.

use crate::registry::{Hw, Ty, Typed, F_POS};
use chia_bls::PublicKey;
use chia_protocol::{Bytes, Bytes32, ProofOfSpace};
use serde_json::json;
use vcore::report::guarded;
use vcore::{hx, sha256, Report, Rng};

#[derive(Clone, Copy, PartialEq, Eq, Debug)]
pub enum Kind {
    /// value-side relations only
    Value,
    /// value-side relations + perturbation of the encoding
    Perturb,
    /// PoS-bearing types: every contained proof of space replaced by a valid
    /// v2 proof from the quality-string vectors (expected quality from the file)
    V2Vector,
    /// the same, followed by the perturbation of the encoding
    V2VectorPerturb,
    /// value-side relations on a value one of whose sequences holds around 1..4 MiB worth of
    /// elements (in-memory size), on and next to the whole-MiB counts
    LongList,
}

/// one file of /repo/crates/chia-protocol/quality-string-tests
pub struct PosVector {
    #[allow(dead_code)]
    pub name: String,
    pub strength: u8,
    pub plot_index: u16,
    pub meta_group: u8,
    pub pool_pk: Option<PublicKey>,
    pub pool_contract: Option<Bytes32>,
    pub proof: Vec<u8>,
    pub expect_quality: [u8; 32],
}

pub const VECTOR_DIR: &str = "/repo/crates/chia-protocol/quality-string-tests";
const VECTOR_PLOT_PK: &str =
    "a9c96f979d895b9ded08907ecd775abf889d51219bb7776dd73fdbac6b0dcc063c72c9e10d96776f486bbd1416b54533";

pub fn load_vectors() -> Result<Vec<PosVector>, String> {
    let mut out = vec![];
    let mut names: Vec<_> = std::fs::read_dir(VECTOR_DIR)
        .map_err(|e| format!("{VECTOR_DIR}: {e}"))?
        .flatten()
        .map(|e| e.path())
        .filter(|p| p.extension().and_then(|s| s.to_str()) == Some("txt"))
        .collect();
    names.sort();
    for p in names {
        let txt = std::fs::read_to_string(&p).map_err(|e| format!("{}: {e}", p.display()))?;
        let l: Vec<&str> = txt
            .lines()
            .map(|line| line.split('#').next().unwrap_or(line).trim())
            .filter(|s| !s.is_empty())
            .collect();
        if l.len() != 7 {
            return Err(format!("{}: expected 7 lines", p.display()));
        }
        let bad = |w: &str| format!("{}: bad {w}", p.display());
        let pool = hex::decode(l[4]).map_err(|_| bad("pool"))?;
        let (pool_pk, pool_contract) = if pool.len() == 48 {
            let a: [u8; 48] = pool.try_into().unwrap();
            (Some(PublicKey::from_bytes(&a).map_err(|_| bad("pool pk"))?), None)
        } else {
            let a: [u8; 32] = pool.try_into().map_err(|_| bad("pool contract"))?;
            (None, Some(Bytes32::new(a)))
        };
        out.push(PosVector {
            name: p.file_stem().unwrap().to_string_lossy().to_string(),
            strength: l[1].parse().map_err(|_| bad("strength"))?,
            plot_index: l[2].parse().map_err(|_| bad("plot_index"))?,
            meta_group: l[3].parse().map_err(|_| bad("meta_group"))?,
            pool_pk,
            pool_contract,
            proof: hex::decode(l[5]).map_err(|_| bad("proof"))?,
            expect_quality: hex::decode(l[6]).map_err(|_| bad("quality"))?.try_into().map_err(|_| bad("quality"))?,
        });
    }
    Ok(out)
}

impl PosVector {
    /// the proof does not commit to the challenge, so that field is free
    pub fn build(&self, challenge: [u8; 32]) -> ProofOfSpace {
        let pk: [u8; 48] = hex::decode(VECTOR_PLOT_PK).unwrap().try_into().unwrap();
        ProofOfSpace::new(
            Bytes32::new(challenge),
            self.pool_pk,
            self.pool_contract,
            PublicKey::from_bytes(&pk).expect("vector plot pk"),
            1,
            self.plot_index,
            self.meta_group,
            self.strength,
            0,
            Bytes::from(self.proof.clone()),
        )
    }
}

pub struct Cx {
    pub vectors: Vec<PosVector>,
    pub ffi_ok: bool,
    /// all positions of encodings up to this length, this many sampled ones beyond
    pub max_positions: usize,
}

fn find_all(hay: &[u8], needle: &[u8]) -> Vec<usize> {
    if needle.is_empty() || hay.len() < needle.len() {
        return vec![];
    }
    let first = needle[0];
    let mut out = vec![];
    let last = hay.len() - needle.len();
    let mut i = 0;
    while i <= last {
        if hay[i] == first && &hay[i..i + needle.len()] == needle {
            out.push(i);
        }
        i += 1;
    }
    out
}

pub enum Expect {
    Hash([u8; 32], &'static str),
    Skip(&'static str),
}

/// What the property says `hash(v)` must be, given `v` and its encoding.
/// `qual_override`: expected quality string of a proof of space that equals a
/// vector-file proof in everything its plot id and proof consist of (vector file),
/// otherwise `quality_string()` of the contained proof is used (a second real
/// run; only the *placement* in the digest is judged then).
pub fn expected_hash<T: Ty>(
    e: &Typed<T>,
    v: &T,
    enc: &[u8],
    qual_override: Option<&dyn Fn(&ProofOfSpace) -> Option<[u8; 32]>>,
) -> Expect {
    let (Some(walk), true) = (e.walk, e.flags & F_POS != 0) else {
        return Expect::Hash(sha256(&[enc]), "plain");
    };
    let Ok(mut c) = guarded(|| v.clone()) else {
        return Expect::Skip("clone-panicked");
    };
    // (needle = u32 length ‖ proof, replacement = quality string)
    let mut subst: Vec<(Vec<u8>, Option<[u8; 32]>)> = vec![];
    let mut from_file = false;
    walk(&mut c, &mut |hw| {
        if let Hw::Pos(p) = hw {
            if p.version == 1 {
                let proof = p.proof.as_slice().to_vec();
                let q = match qual_override.and_then(|f| f(p)) {
                    Some(q) => {
                        from_file = true;
                        Some(q)
                    }
                    None => guarded(|| p.quality_string()).ok().flatten().map(|b| b.to_bytes()),
                };
                let mut needle = (proof.len() as u32).to_be_bytes().to_vec();
                needle.extend_from_slice(&proof);
                subst.push((needle, q));
            }
        }
    });
    if subst.is_empty() {
        return Expect::Hash(sha256(&[enc]), "plain");
    }
    if subst.iter().any(|(_, q)| q.is_none()) {
        return Expect::Skip("v2-proof-without-quality-string");
    }
    // every needle must be locatable unambiguously. Proofs of space are streamed in
    // the order they are walked, so the k-th value with a given needle owns the k-th
    // occurrence of that needle (equal proofs may have different quality strings:
    // the quality also depends on the plot id).
    let mut sites: Vec<(usize, usize, [u8; 32])> = vec![];
    let mut seen: Vec<&[u8]> = vec![];
    for (needle, _) in &subst {
        if seen.contains(&needle.as_slice()) {
            continue;
        }
        seen.push(needle);
        let owners: Vec<&Option<[u8; 32]>> = subst.iter().filter(|(n, _)| n == needle).map(|(_, q)| q).collect();
        let at = find_all(enc, needle);
        if at.len() != owners.len() {
            return Expect::Skip("v2-proof-site-ambiguous");
        }
        for (a, q) in at.into_iter().zip(owners) {
            sites.push((a, needle.len(), q.unwrap()));
        }
    }
    sites.sort();
    let mut parts: Vec<&[u8]> = vec![];
    let mut cur = 0;
    for (a, n, q) in &sites {
        if *a < cur {
            return Expect::Skip("v2-proof-site-ambiguous");
        }
        parts.push(&enc[cur..*a]);
        parts.push(q);
        cur = a + n;
    }
    parts.push(&enc[cur..]);
    Expect::Hash(sha256(&parts), if from_file { "v2-vector" } else { "v2-quality" })
}

fn check_hash<T: Ty>(
    e: &Typed<T>,
    v: &T,
    enc: &[u8],
    rep: &mut Report,
    side: &str,
    qual_override: Option<&dyn Fn(&ProofOfSpace) -> Option<[u8; 32]>>,
    detail: &dyn Fn() -> serde_json::Value,
) {
    match expected_hash(e, v, enc, qual_override) {
        Expect::Skip(why) => rep.count(&format!("hash_skipped:{why}:{}", e.name)),
        Expect::Hash(want, how) => {
            rep.eval();
            rep.count(&format!("hash_checked:{how}"));
            match guarded(|| v.hash()) {
                Ok(h) if h == want => {}
                Ok(h) => rep.violation(
                    &format!("hash-mismatch:{}", e.name),
                    &format!("{side}: hash() = {} but sha256 over the encoding ({how}) = {}", hx(&h), hx(&want)),
                    detail(),
                ),
                Err(p) => rep.violation(
                    &format!("hash-panic:{}", e.name),
                    &format!("{side}: hash() panicked: {}", p.message),
                    detail(),
                ),
            }
        }
    }
}

const PERTURB_VALUES: [u8; 7] = [0, 1, 2, 3, 0x7f, 0x80, 0xff];

fn sample_positions(n: usize, k: usize, rng: &mut Rng) -> Vec<usize> {
    if n <= k {
        return (0..n).collect();
    }
    // stratified: one position per stratum, so the whole encoding is covered
    (0..k)
        .map(|i| {
            let lo = i * n / k;
            let hi = ((i + 1) * n / k).max(lo + 1);
            lo + rng.usize(hi - lo)
        })
        .collect()
}

pub fn case<T: Ty>(e: &Typed<T>, rng: &mut Rng, rep: &mut Report, cx: &Cx, kind: Kind) {
    let name = e.name;
    let Some(mut v) = e.make(rng) else {
        rep.count(&format!("skipped:generator-gave-no-value:{name}"));
        return;
    };
    if kind == Kind::LongList {
        let Some(grow) = e.grow else {
            rep.count(&format!("skipped:no-sequence-to-grow:{name}"));
            return;
        };
        if !grow(&mut v, rng) {
            rep.count(&format!("skipped:could-not-grow:{name}"));
            return;
        }
        e.normalise(&mut v, rng);
        rep.count(&format!("long_list:{name}"));
        rep.count("long_list_values");
    }
    let mut vec_quality: Vec<(ProofOfSpace, [u8; 32])> = vec![];
    let vector = matches!(kind, Kind::V2Vector | Kind::V2VectorPerturb);
    if vector {
        let (Some(walk), false) = (e.walk, cx.vectors.is_empty()) else {
            rep.count(&format!("skipped:no-vectors:{name}"));
            return;
        };
        let mut n = 0;
        walk(&mut v, &mut |hw| {
            if let Hw::Pos(p) = hw {
                let vc = &cx.vectors[rng.usize(cx.vectors.len())];
                *p = vc.build(rng.bytes32());
                vec_quality.push((p.clone(), vc.expect_quality));
                n += 1;
            }
        });
        if n == 0 {
            rep.count(&format!("skipped:value-holds-no-proof-of-space:{name}"));
            return;
        }
        rep.add(&format!("v2_vector_proofs:{name}"), n);
    }
    // the file's quality string applies only while everything the quality is computed from
    // (proof, plot id inputs) is untouched; the challenge is not part of it
    let lookup = |x: &ProofOfSpace| {
        vec_quality
            .iter()
            .find(|(p, _)| {
                x.version == 1
                    && p.proof == x.proof
                    && p.pool_public_key == x.pool_public_key
                    && p.pool_contract_puzzle_hash == x.pool_contract_puzzle_hash
                    && p.plot_public_key == x.plot_public_key
                    && p.plot_index == x.plot_index
                    && p.meta_group == x.meta_group
                    && p.strength == x.strength
            })
            .map(|(_, q)| *q)
    };
    let qov: Option<&dyn Fn(&ProofOfSpace) -> Option<[u8; 32]>> =
        if vector { Some(&lookup) } else { None };

    // ---- value side -------------------------------------------------------------
    let enc = match guarded(|| v.to_bytes()) {
        Ok(Ok(b)) => b,
        Ok(Err(_)) => {
            // outside the codec's domain (e.g. a sequence that does not fit u32)
            rep.count(&format!("skipped:not-encodable:{name}"));
            return;
        }
        Err(p) => {
            rep.violation(
                &format!("encode-panic:{name}"),
                &format!("to_bytes panicked on a generated value: {}", p.message),
                json!({"type": name, "value": format!("{v:?}").chars().take(2000).collect::<String>()}),
            );
            return;
        }
    };
    rep.count(&format!("values:{name}"));
    rep.max("encoding_len", enc.len() as u64);
    let dg = sha256(&[name.as_bytes(), &enc]);
    rep.cell_digest(u64::from_le_bytes(dg[..8].try_into().unwrap()));
    let det = || json!({"type": name, "encoding": hx(&enc[..enc.len().min(4096)]), "len": enc.len()});

    for (trusted, which) in [(false, "from_bytes"), (true, "from_bytes_unchecked")] {
        rep.eval();
        let r = guarded(|| if trusted { T::from_bytes_unchecked(&enc) } else { T::from_bytes(&enc) });
        match r {
            Ok(Ok(d)) => match guarded(|| d == v) {
                Ok(true) => {}
                Ok(false) => rep.violation(
                    &format!("roundtrip-mismatch:{which}:{name}"),
                    &format!("{which}(to_bytes(v)) != v"),
                    det(),
                ),
                Err(p) => rep.violation(&format!("eq-panic:{name}"), &p.message, det()),
            },
            Ok(Err(err)) => rep.violation(
                &format!("roundtrip-decode-error:{which}:{name}"),
                &format!("{which} rejected the encoding of a well-formed value: {err:?}"),
                det(),
            ),
            Err(p) => rep.violation(
                &format!("decode-panic:{which}:{name}"),
                &format!("{which} panicked on a valid encoding: {}", p.message),
                det(),
            ),
        }
    }
    if cx.ffi_ok || e.flags & F_POS == 0 {
        check_hash(e, &v, &enc, rep, "value", qov, &det);
    } else {
        rep.count(&format!("hash_skipped:lane-without-ffi:{name}"));
    }
    if rep.want_sample() && rng.chance(1, 50) {
        rep.sample(json!({"type": name, "kind": format!("{kind:?}"), "encoding": hx(&enc[..enc.len().min(256)]), "len": enc.len()}));
    }
    if matches!(kind, Kind::Value | Kind::V2Vector | Kind::LongList) {
        return;
    }

    // ---- byte side --------------------------------------------------------------
    let n = enc.len();
    let positions = sample_positions(n, cx.max_positions, rng);
    let mut buf = enc.clone();
    let mut tried = 0u64;
    let mut decoded = 0u64;
    for pos in positions {
        let b = enc[pos];
        let mut vals: Vec<u8> = PERTURB_VALUES.to_vec();
        vals.extend([b.wrapping_add(1), b.wrapping_sub(1), b ^ 0x20]);
        vals.sort_unstable();
        vals.dedup();
        for val in vals {
            if val == b {
                continue;
            }
            buf[pos] = val;
            tried += 1;
            rep.eval();
            let r = guarded(|| T::from_bytes(&buf));
            let pdet = || {
                json!({"type": name, "original": hx(&enc[..n.min(2048)]), "len": n, "position": pos,
                       "byte_was": b, "byte_now": val})
            };
            match r {
                Ok(Err(_)) => {}
                Err(p) => rep.violation(
                    &format!("decode-panic:from_bytes:{name}"),
                    &format!("from_bytes panicked on a perturbed encoding: {}", p.message),
                    pdet(),
                ),
                Ok(Ok(v2)) => {
                    decoded += 1;
                    // canonical: the accepted string is THE encoding of the value it denotes
                    rep.eval();
                    match guarded(|| v2.to_bytes()) {
                        Ok(Ok(re)) if re == buf => {}
                        Ok(Ok(re)) => rep.violation(
                            &format!("non-canonical-accept:{name}"),
                            "from_bytes accepted a byte string that is not the encoding of the value it returned",
                            json!({"type": name, "accepted": hx(&buf[..n.min(2048)]), "reencoded": hx(&re[..re.len().min(2048)]),
                                   "position": pos, "byte_was": b, "byte_now": val}),
                        ),
                        Ok(Err(err)) => rep.violation(
                            &format!("decoded-value-not-encodable:{name}"),
                            &format!("from_bytes returned a value that to_bytes rejects: {err:?}"),
                            pdet(),
                        ),
                        Err(p) => rep.violation(&format!("encode-panic:{name}"), &p.message, pdet()),
                    }
                    // trusted decoding agrees on everything the untrusted decoder accepts
                    rep.eval();
                    match guarded(|| T::from_bytes_unchecked(&buf)) {
                        Ok(Ok(u)) => {
                            if !matches!(guarded(|| u == v2), Ok(true)) {
                                rep.violation(
                                    &format!("trusted-untrusted-disagree:{name}"),
                                    "from_bytes_unchecked returned a different value than from_bytes",
                                    pdet(),
                                );
                            }
                        }
                        Ok(Err(err)) => rep.violation(
                            &format!("trusted-untrusted-disagree:{name}"),
                            &format!("from_bytes accepted but from_bytes_unchecked rejected: {err:?}"),
                            pdet(),
                        ),
                        Err(p) => rep.violation(
                            &format!("decode-panic:from_bytes_unchecked:{name}"),
                            &p.message,
                            pdet(),
                        ),
                    }
                    if cx.ffi_ok || e.flags & F_POS == 0 {
                        check_hash(e, &v2, &buf, rep, "perturbed", qov, &pdet);
                    }
                }
            }
        }
        buf[pos] = b;
    }
    if tried > 0 {
        // (types with an empty encoding have nothing to perturb)
        rep.add(&format!("perturbed:{name}"), tried);
        rep.add(&format!("perturbed_decoded:{name}"), decoded);
    }
    rep.add("perturbed_total", tried);
    rep.add("perturbed_decoded_total", decoded);
    rep.cell(&format!("perturb:{name}:{}", if decoded > 0 { "some-decoded" } else { "none-decoded" }));
}
