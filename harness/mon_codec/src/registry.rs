//! Type registry: every Streamable type of the repository, listed once.
//!
//! An entry knows how to generate well-formed values of its type (through
//! `arbitrary::Arbitrary` driven by rng bytes, or a hand-written generator for
//! the types without an `Arbitrary` impl), how to reach the hand-written
//! version-packed codecs nested inside a value (`Walk`) so they can be
//! normalised into the codec's domain, and type-erases the C13/C14 checks.

use arbitrary::{Arbitrary, Unstructured};
use chia_bls::{GTElement, PublicKey, SecretKey, Signature};
use chia_consensus::consensus_constants::ConsensusConstants;
use chia_consensus::owned_conditions::{OwnedSpendBundleConditions, OwnedSpendConditions};
use chia_datalayer as dl;
use chia_protocol::*;
use chia_traits::Streamable;
use vcore::report::guarded;
use vcore::{Report, Rng};

pub const F_BLS: u32 = 1; // reaches blst / chia-pos2 FFI (excluded under Miri)
pub const F_POS: u32 = 2; // is or contains ProofOfSpace
pub const F_PROG: u32 = 4; // is or contains Program
pub const F_HAND: u32 = 8; // hand-written codec (not derive-generated)
pub const F_HEAVY: u32 = 16; // decoding costs several group-element checks
pub const F_PRIM: u32 = 32; // primitive / combinator instantiation

pub trait Ty: Streamable + PartialEq + std::fmt::Debug + Clone + 'static {}
impl<T: Streamable + PartialEq + std::fmt::Debug + Clone + 'static> Ty for T {}

/// the hand-written, version-packed codecs reachable inside a value
pub enum Hw<'a> {
    Pos(&'a mut ProofOfSpace),
    Full(&'a mut FullBlock),
    Unf(&'a mut UnfinishedBlock),
    Prog(&'a mut Program),
}

pub trait Walk {
    fn walk(&mut self, f: &mut dyn FnMut(Hw<'_>));
}

impl Walk for ProofOfSpace {
    fn walk(&mut self, f: &mut dyn FnMut(Hw<'_>)) {
        f(Hw::Pos(self));
    }
}
impl Walk for Program {
    fn walk(&mut self, f: &mut dyn FnMut(Hw<'_>)) {
        f(Hw::Prog(self));
    }
}
impl Walk for FullBlock {
    fn walk(&mut self, f: &mut dyn FnMut(Hw<'_>)) {
        self.reward_chain_block.walk(f);
        self.transactions_generator.walk(f);
        f(Hw::Full(self));
    }
}
impl Walk for UnfinishedBlock {
    fn walk(&mut self, f: &mut dyn FnMut(Hw<'_>)) {
        self.reward_chain_block.walk(f);
        self.transactions_generator.walk(f);
        f(Hw::Unf(self));
    }
}
impl<T: Walk> Walk for Vec<T> {
    fn walk(&mut self, f: &mut dyn FnMut(Hw<'_>)) {
        for x in self {
            x.walk(f);
        }
    }
}
impl<T: Walk> Walk for Option<T> {
    fn walk(&mut self, f: &mut dyn FnMut(Hw<'_>)) {
        if let Some(x) = self {
            x.walk(f);
        }
    }
}
macro_rules! walk_fields {
    ($($t:ty : $($f:ident),* ;)*) => {$(
        impl Walk for $t {
            fn walk(&mut self, f: &mut dyn FnMut(Hw<'_>)) { $( self.$f.walk(f); )* }
        }
    )*};
}
walk_fields! {
    RewardChainBlock: proof_of_space;
    RewardChainBlockUnfinished: proof_of_space;
    ChallengeBlockInfo: proof_of_space;
    SubSlotData: proof_of_space;
    SubEpochChallengeSegment: sub_slots;
    SubEpochSegments: challenge_segments;
    HeaderBlock: reward_chain_block;
    UnfinishedHeaderBlock: reward_chain_block;
    ProofBlockHeader: reward_chain_block;
    RecentChainData: recent_chain_data;
    WeightProof: sub_epoch_segments, recent_chain_data;
    RespondProofOfWeight: wp;
    RespondBlockHeader: header_block;
    RespondBlockHeaders: header_blocks;
    RespondHeaderBlocks: header_blocks;
    RespondBlock: block;
    RespondBlocks: blocks;
    RespondUnfinishedBlock: unfinished_block;
    CoinSpend: puzzle_reveal, solution;
    SpendBundle: coin_spends;
    RespondTransaction: transaction;
    SendTransaction: transaction;
    PuzzleSolutionResponse: puzzle, solution;
    RespondPuzzleSolution: response;
}

fn walk_of<T: Walk>(v: &mut T, f: &mut dyn FnMut(Hw<'_>)) {
    v.walk(f);
}

// ---------------------------------------------------------------------------
// well-formedness normalisers (the invariants the hand-written codecs assume)

/// ProofOfSpace: version ∈ {0,1}; fields not carried by the version at the
/// value `parse` gives them; v2 needs exactly one of pool key / contract hash.
pub fn norm_pos(p: &mut ProofOfSpace, rng: &mut Rng) {
    p.version = u8::from(rng.bool());
    if p.version == 0 {
        p.plot_index = 0;
        p.meta_group = 0;
        p.strength = 0;
    } else {
        p.size = 0;
        match (p.pool_public_key.is_some(), p.pool_contract_puzzle_hash.is_some()) {
            (true, true) => {
                if rng.bool() {
                    p.pool_public_key = None;
                } else {
                    p.pool_contract_puzzle_hash = None;
                }
            }
            (false, false) => {
                if rng.bool() {
                    p.pool_public_key = Some(p.plot_public_key);
                } else {
                    p.pool_contract_puzzle_hash = Some(Bytes32::new(rng.bytes32()));
                }
            }
            _ => {}
        }
        if rng.chance(1, 3) {
            // shape accepted by chia-pos2: 128 x-values of k bits, k even in 18..=32, strength >= 2
            let k = 18 + 2 * rng.usize(8);
            p.strength = 2 + rng.below(254) as u8;
            p.proof = Bytes::new(rng.bytes(16 * k));
        }
    }
}

pub fn norm_full(b: &mut FullBlock, rng: &mut Rng) {
    b.version = u8::from(rng.bool());
    if b.version == 0 {
        b.transactions_generator_buffer = None;
    } else {
        b.transactions_generator = None;
        b.transactions_generator_ref_list = vec![];
    }
}

pub fn norm_unf(b: &mut UnfinishedBlock, rng: &mut Rng) {
    b.version = u8::from(rng.bool());
    if b.version == 0 {
        b.transactions_generator_buffer = None;
    } else {
        b.transactions_generator = None;
        b.transactions_generator_ref_list = vec![];
    }
}

/// CLVM atom in canonical serialized form
pub fn ser_atom(out: &mut Vec<u8>, a: &[u8]) {
    let n = a.len();
    if n == 0 {
        out.push(0x80);
    } else if n == 1 && a[0] <= 0x7f {
        out.push(a[0]);
    } else if n < 0x40 {
        out.push(0x80 | n as u8);
        out.extend_from_slice(a);
    } else if n < 0x2000 {
        out.push(0xc0 | (n >> 8) as u8);
        out.push(n as u8);
        out.extend_from_slice(a);
    } else if n < 0x10_0000 {
        out.push(0xe0 | (n >> 16) as u8);
        out.push((n >> 8) as u8);
        out.push(n as u8);
        out.extend_from_slice(a);
    } else {
        out.push(0xf0 | (n >> 24) as u8);
        out.push((n >> 16) as u8);
        out.push((n >> 8) as u8);
        out.push(n as u8);
        out.extend_from_slice(a);
    }
}

/// one complete CLVM serialization: random tree with atoms of varied length,
/// optionally compressed with back-references by clvmr's own serializer
pub fn gen_program_bytes(rng: &mut Rng) -> Vec<u8> {
    let mut out = vec![];
    let mut left = 1u32;
    let mut total = 0u32;
    let max_items = 1 + rng.below(200) as u32;
    while left > 0 {
        if total < max_items && rng.chance(2, 5) {
            out.push(0xff);
            left += 2;
        } else {
            let n = match rng.below(8) {
                0 => 0,
                1..=3 => 1,
                4 => 32,
                5 => rng.usize(0x40),
                6 => 0x40 + rng.usize(200),
                _ => rng.usize(12),
            };
            let a = if rng.chance(1, 4) { vec![rng.u8() & 0x7f; n] } else { rng.bytes(n) };
            ser_atom(&mut out, &a);
        }
        total += 1;
        left -= 1;
    }
    if rng.chance(1, 3) {
        // re-serialize with back-references (repeated sub-trees get 0xfe paths)
        let mut a = clvmr::Allocator::new();
        if let Ok(n) = clvmr::serde::node_from_bytes(&mut a, &out) {
            if let Ok(p) = a.new_pair(n, n) {
                if let Ok(p2) = a.new_pair(p, n) {
                    if let Ok(br) = clvmr::serde::node_to_bytes_backrefs(&a, p2) {
                        return br;
                    }
                }
            }
        }
    }
    out
}

// ---------------------------------------------------------------------------
// generators

pub type GenFn<T> = for<'a> fn(&mut Unstructured<'a>) -> arbitrary::Result<T>;

fn arb<T: for<'a> Arbitrary<'a>>(u: &mut Unstructured<'_>) -> arbitrary::Result<T> {
    T::arbitrary(u)
}

/// rng-driven byte buffer for `Unstructured`: segments of different bias so
/// that vectors/options/ints take short, long, zero and extreme shapes
pub fn arb_buffer(rng: &mut Rng) -> Vec<u8> {
    let target = match rng.below(20) {
        0 => 0,
        1..=4 => 16 + rng.usize(64),
        5..=10 => 64 + rng.usize(512),
        11..=16 => 512 + rng.usize(4096),
        _ => 4096 + rng.usize(28_000),
    };
    let mut buf = Vec::with_capacity(target);
    while buf.len() < target {
        let long = rng.chance(1, 8);
        let seg = 1 + rng.usize(if long { 600 } else { 48 });
        let seg = seg.min(target - buf.len());
        match rng.below(8) {
            0..=2 => buf.extend_from_slice(&rng.bytes(seg)),
            3..=4 => buf.extend(rng.bytes(seg).into_iter().map(|b| b | 1)), // "keep going"/Some
            5 => buf.extend(rng.bytes(seg).into_iter().map(|b| b & 0xfe)),  // stop/None
            6 => buf.extend(std::iter::repeat_n(*rng.pick(&[0u8, 1, 0xff, 0x7f, 0x80]), seg)),
            _ => buf.extend(rng.bytes(seg).into_iter().map(|b| b & 3)),
        }
    }
    buf
}

fn gen_gt(u: &mut Unstructured<'_>) -> arbitrary::Result<GTElement> {
    if u.arbitrary::<bool>()? {
        let sk = SecretKey::arbitrary(u)?;
        let sig = chia_bls::sign(&sk, b"gt");
        Ok(sig.pair(&sk.public_key()))
    } else {
        let mut b = [0u8; 576];
        u.fill_buffer(&mut b)?;
        Ok(GTElement::from_bytes(&b))
    }
}

fn gen_pk(u: &mut Unstructured<'_>) -> arbitrary::Result<PublicKey> {
    Ok(match u.int_in_range(0..=7u8)? {
        0 => PublicKey::default(),
        1 => -PublicKey::arbitrary(u)?,
        _ => PublicKey::arbitrary(u)?,
    })
}

fn gen_sig(u: &mut Unstructured<'_>) -> arbitrary::Result<Signature> {
    Ok(match u.int_in_range(0..=7u8)? {
        0 => Signature::default(),
        1 => -Signature::arbitrary(u)?,
        _ => Signature::arbitrary(u)?,
    })
}

fn gen_program(u: &mut Unstructured<'_>) -> arbitrary::Result<Program> {
    if u.arbitrary::<bool>()? {
        Program::arbitrary(u)
    } else {
        // drive the richer generator from the same byte source
        let seed = u64::arbitrary(u)?;
        Ok(Program::from(gen_program_bytes(&mut Rng::new(seed))))
    }
}

fn gen_owned_spend(u: &mut Unstructured<'_>) -> arbitrary::Result<OwnedSpendConditions> {
    Ok(OwnedSpendConditions {
        coin_id: u.arbitrary()?,
        parent_id: u.arbitrary()?,
        puzzle_hash: u.arbitrary()?,
        coin_amount: u.arbitrary()?,
        height_relative: u.arbitrary()?,
        seconds_relative: u.arbitrary()?,
        before_height_relative: u.arbitrary()?,
        before_seconds_relative: u.arbitrary()?,
        birth_height: u.arbitrary()?,
        birth_seconds: u.arbitrary()?,
        create_coin: u.arbitrary()?,
        agg_sig_me: u.arbitrary()?,
        agg_sig_parent: u.arbitrary()?,
        agg_sig_puzzle: u.arbitrary()?,
        agg_sig_amount: u.arbitrary()?,
        agg_sig_puzzle_amount: u.arbitrary()?,
        agg_sig_parent_amount: u.arbitrary()?,
        agg_sig_parent_puzzle: u.arbitrary()?,
        flags: u.arbitrary()?,
        execution_cost: u.arbitrary()?,
        condition_cost: u.arbitrary()?,
        fingerprint: u.arbitrary()?,
    })
}

fn gen_owned_bundle(u: &mut Unstructured<'_>) -> arbitrary::Result<OwnedSpendBundleConditions> {
    let n = u.int_in_range(0..=3usize)?;
    let mut spends = vec![];
    for _ in 0..n {
        spends.push(gen_owned_spend(u)?);
    }
    Ok(OwnedSpendBundleConditions {
        spends,
        reserve_fee: u.arbitrary()?,
        height_absolute: u.arbitrary()?,
        seconds_absolute: u.arbitrary()?,
        before_height_absolute: u.arbitrary()?,
        before_seconds_absolute: u.arbitrary()?,
        agg_sig_unsafe: u.arbitrary()?,
        cost: u.arbitrary()?,
        removal_amount: u.arbitrary()?,
        addition_amount: u.arbitrary()?,
        validated_signature: u.arbitrary()?,
        execution_cost: u.arbitrary()?,
        condition_cost: u.arbitrary()?,
        num_atoms: u.arbitrary()?,
        num_pairs: u.arbitrary()?,
        heap_size: u.arbitrary()?,
    })
}

macro_rules! call_arb {
    ($f:path; $u:ident; $($x:tt)*) => { $f($( { let _ = stringify!($x); $u.arbitrary()? } ),*) };
}

fn gen_constants(u: &mut Unstructured<'_>) -> arbitrary::Result<ConsensusConstants> {
    // 56 fields, all fixed-width (ints, Bytes32, bool): types are inferred from `new`
    Ok(call_arb!(ConsensusConstants::new; u;
        . . . . . . . . . .  . . . . . . . . . .  . . . . . . . . . .
        . . . . . . . . . .  . . . . . . . . . .  . . . . . .))
}

fn gen_tree_index(u: &mut Unstructured<'_>) -> arbitrary::Result<dl::TreeIndex> {
    Ok(dl::TreeIndex(u.arbitrary()?))
}
fn gen_parent(u: &mut Unstructured<'_>) -> arbitrary::Result<dl::Parent> {
    Ok(dl::Parent(if u.arbitrary()? { Some(gen_tree_index(u)?) } else { None }))
}
fn gen_dl_node_type(u: &mut Unstructured<'_>) -> arbitrary::Result<dl::NodeType> {
    Ok(if u.arbitrary()? { dl::NodeType::Internal } else { dl::NodeType::Leaf })
}
fn gen_side(u: &mut Unstructured<'_>) -> arbitrary::Result<dl::Side> {
    Ok(if u.arbitrary()? { dl::Side::Left } else { dl::Side::Right })
}
fn gen_node_metadata(u: &mut Unstructured<'_>) -> arbitrary::Result<dl::NodeMetadata> {
    Ok(dl::NodeMetadata { node_type: gen_dl_node_type(u)?, dirty: u.arbitrary()? })
}
fn gen_internal_node(u: &mut Unstructured<'_>) -> arbitrary::Result<dl::InternalNode> {
    Ok(dl::InternalNode {
        hash: u.arbitrary()?,
        parent: gen_parent(u)?,
        left: gen_tree_index(u)?,
        right: gen_tree_index(u)?,
    })
}
fn gen_leaf_node(u: &mut Unstructured<'_>) -> arbitrary::Result<dl::LeafNode> {
    Ok(dl::LeafNode { hash: u.arbitrary()?, parent: gen_parent(u)?, key: u.arbitrary()?, value: u.arbitrary()? })
}
fn gen_poi_layer(u: &mut Unstructured<'_>) -> arbitrary::Result<dl::ProofOfInclusionLayer> {
    Ok(dl::ProofOfInclusionLayer {
        other_hash_side: gen_side(u)?,
        other_hash: u.arbitrary()?,
        combined_hash: u.arbitrary()?,
    })
}
fn gen_poi(u: &mut Unstructured<'_>) -> arbitrary::Result<dl::ProofOfInclusion> {
    let n = u.int_in_range(0..=40usize)?;
    let mut layers = vec![];
    for _ in 0..n {
        layers.push(gen_poi_layer(u)?);
    }
    Ok(dl::ProofOfInclusion { node_hash: u.arbitrary()?, layers })
}
fn gen_vec_pk_bytes(u: &mut Unstructured<'_>) -> arbitrary::Result<Vec<(PublicKey, Bytes)>> {
    u.arbitrary()
}

// ---------------------------------------------------------------------------
// long sequences
//
// `Arbitrary` driven by a few kilobytes of rng bytes never builds a sequence of more than a few
// thousand elements. `Grow` makes one sequence inside a value long: element counts whose
// in-memory size sits on, just below and just above whole numbers of MiB (the scale at which
// decoders budget their reservations), and counts drawn between those.

pub type GrowFn<T> = fn(&mut T, &mut Rng) -> bool;

pub trait Grow {
    /// true when a sequence inside `self` was made long
    fn grow(&mut self, rng: &mut Rng) -> bool;
}

/// element count for a long `Vec<X>`
pub fn long_len(elem_size: usize, rng: &mut Rng) -> usize {
    let sz = elem_size.max(1);
    let mib = (1usize << 20) / sz;
    let base = match rng.below(10) {
        0 => mib,
        1..=5 => 2 * mib,
        6 => 3 * mib,
        7 => 4 * mib,
        _ => mib + rng.usize(3 * mib + 1),
    };
    let n = match rng.below(8) {
        0 => base.saturating_sub(1),
        1 => base,
        2..=4 => base + 1,
        5 => base + 1 + rng.usize(64),
        _ => base + rng.usize(base / 4 + 2),
    };
    n.max(2)
}

fn fresh<X: for<'a> Arbitrary<'a>>(rng: &mut Rng) -> Option<X> {
    for _ in 0..8 {
        let buf = arb_buffer(rng);
        let mut u = Unstructured::new(&buf);
        if let Ok(Ok(x)) = guarded(|| X::arbitrary(&mut u)) {
            return Some(x);
        }
    }
    None
}

impl<X: Clone + for<'a> Arbitrary<'a>> Grow for Vec<X> {
    fn grow(&mut self, rng: &mut Rng) -> bool {
        let n = long_len(std::mem::size_of::<X>(), rng);
        // a small pool of distinct elements (the ones already there plus fresh ones), tiled
        let mut pool: Vec<X> = self.iter().take(24).cloned().collect();
        for _ in 0..(1 + rng.usize(6)) {
            if let Some(x) = fresh::<X>(rng) {
                pool.push(x);
            }
        }
        if pool.is_empty() {
            return false;
        }
        self.clear();
        self.reserve_exact(n);
        let k = pool.len();
        let start = rng.usize(k);
        for i in 0..n {
            self.push(pool[(start + i) % k].clone());
        }
        true
    }
}
impl<V: Grow + Default> Grow for Option<V> {
    fn grow(&mut self, rng: &mut Rng) -> bool {
        self.get_or_insert_with(V::default).grow(rng)
    }
}
impl<A, V: Grow> Grow for (A, V) {
    fn grow(&mut self, rng: &mut Rng) -> bool {
        self.1.grow(rng)
    }
}
impl Grow for Bytes {
    fn grow(&mut self, rng: &mut Rng) -> bool {
        let n = long_len(1, rng);
        let mut b = rng.bytes(4096);
        b.resize(n, rng.u8());
        *self = Bytes::new(b);
        true
    }
}
macro_rules! grow_fields {
    ($($t:ty : $($f:ident),+ ;)*) => {$(
        impl Grow for $t {
            fn grow(&mut self, rng: &mut Rng) -> bool {
                let fs: &[fn(&mut $t, &mut Rng) -> bool] = &[$(|s, r| s.$f.grow(r)),+];
                let f = fs[rng.usize(fs.len())];
                f(self, rng)
            }
        }
    )*};
}
grow_fields! {
    Handshake: capabilities;
    FeeEstimateGroup: estimates;
    BlockRecord: reward_claims_incorporated, finished_challenge_slot_hashes,
        finished_infused_challenge_slot_hashes, finished_reward_slot_hashes;
    RespondPeers: peer_list;
    SpendBundle: coin_spends;
    HeaderBlock: finished_sub_slots;
    RespondBlockHeaders: header_blocks;
    RespondHeaderBlocks: header_blocks;
    SubEpochChallengeSegment: sub_slots;
    WeightProof: sub_epochs;
    RequestRemovals: coin_names;
    RespondRemovals: coins, proofs;
    RequestAdditions: puzzle_hashes;
    RespondAdditions: coins, proofs;
    RegisterForPhUpdates: puzzle_hashes;
    RespondToPhUpdates: puzzle_hashes, coin_states;
    RegisterForCoinUpdates: coin_ids;
    RespondToCoinUpdates: coin_ids, coin_states;
    CoinStateUpdate: items;
    RespondChildren: coin_states;
    RespondSesInfo: reward_chain_hash, heights;
    RequestFeeEstimates: time_targets;
    RequestRemovePuzzleSubscriptions: puzzle_hashes;
    RespondRemovePuzzleSubscriptions: puzzle_hashes;
    RequestRemoveCoinSubscriptions: coin_ids;
    RespondRemoveCoinSubscriptions: coin_ids;
    RequestPuzzleState: puzzle_hashes;
    RespondPuzzleState: puzzle_hashes, coin_states;
    RequestCoinState: coin_ids;
    RespondCoinState: coin_ids, coin_states;
    MempoolItemsAdded: transaction_ids;
    MempoolItemsRemoved: removed_items;
}

/// `Some(<T as Grow>::grow)` when `T: Grow`, `None` otherwise (resolved per concrete type
/// inside the registry macros: the by-reference impl is only reached when the first fails)
pub struct Probe<T>(pub std::marker::PhantomData<T>);
pub trait PickGrow<T> {
    fn pick(&self) -> Option<GrowFn<T>>;
}
impl<T: Grow> PickGrow<T> for Probe<T> {
    fn pick(&self) -> Option<GrowFn<T>> {
        Some(<T as Grow>::grow)
    }
}
pub trait PickNone<T> {
    fn pick(&self) -> Option<GrowFn<T>>;
}
impl<T> PickNone<T> for &Probe<T> {
    fn pick(&self) -> Option<GrowFn<T>> {
        None
    }
}

// ---------------------------------------------------------------------------
// entries

pub struct Typed<T> {
    pub name: &'static str,
    pub covers: &'static [&'static str],
    pub flags: u32,
    pub gen: GenFn<T>,
    pub walk: Option<fn(&mut T, &mut dyn FnMut(Hw<'_>))>,
    /// make one sequence inside the value long (see `Grow`); None for types without one
    pub grow: Option<GrowFn<T>>,
}

impl<T: Ty> Typed<T> {
    /// a well-formed value (inside the domain of the codec), or None
    pub fn make(&self, rng: &mut Rng) -> Option<T> {
        let buf = arb_buffer(rng);
        let mut u = Unstructured::new(&buf);
        let mut v = guarded(|| (self.gen)(&mut u)).ok()?.ok()?;
        self.normalise(&mut v, rng);
        Some(v)
    }

    pub fn normalise(&self, v: &mut T, rng: &mut Rng) {
        if let Some(w) = self.walk {
            w(v, &mut |hw| match hw {
                Hw::Pos(p) => norm_pos(p, rng),
                Hw::Full(b) => norm_full(b, rng),
                Hw::Unf(b) => norm_unf(b, rng),
                Hw::Prog(p) => {
                    if rng.chance(1, 4) {
                        *p = Program::from(gen_program_bytes(rng));
                    }
                }
            });
        }
    }
}

/// what the parent/worker machinery and the case schedulers see
pub trait DynEntry {
    fn name(&self) -> &'static str;
    fn covers(&self) -> &'static [&'static str];
    fn flags(&self) -> u32;
    fn can_grow(&self) -> bool;
    fn c13_case(&self, rng: &mut Rng, rep: &mut Report, cx: &crate::c13::Cx, kind: crate::c13::Kind);
    fn c14_case(&self, rng: &mut Rng, rep: &mut Report, cx: &mut crate::c14::WCx, kind: u32);
    /// (max heap-peak / wire-length, in-memory size) over generated valid encodings
    fn measure(&self, rng: &mut Rng, n: u32) -> (f64, usize, usize);
    /// reproducer aid: one given input through both decoders and all receiver operations
    fn c14_single(&self, input: &[u8], rep: &mut Report, cx: &mut crate::c14::WCx) -> String;
}

impl<T: Ty> DynEntry for Typed<T> {
    fn name(&self) -> &'static str {
        self.name
    }
    fn covers(&self) -> &'static [&'static str] {
        self.covers
    }
    fn flags(&self) -> u32 {
        self.flags
    }
    fn can_grow(&self) -> bool {
        self.grow.is_some()
    }
    fn c13_case(&self, rng: &mut Rng, rep: &mut Report, cx: &crate::c13::Cx, kind: crate::c13::Kind) {
        crate::c13::case(self, rng, rep, cx, kind);
    }
    fn c14_case(&self, rng: &mut Rng, rep: &mut Report, cx: &mut crate::c14::WCx, kind: u32) {
        crate::c14::case(self, rng, rep, cx, kind);
    }
    fn measure(&self, rng: &mut Rng, n: u32) -> (f64, usize, usize) {
        crate::c14::measure(self, rng, n)
    }
    fn c14_single(&self, input: &[u8], rep: &mut Report, cx: &mut crate::c14::WCx) -> String {
        let a = crate::c14::decode_ops(self, input, false, cx, rep);
        let b = crate::c14::decode_ops(self, input, true, cx, rep);
        format!("from_bytes: {a:?}, from_bytes_unchecked: {b:?}")
    }
}

pub type Registry = Vec<Box<dyn DynEntry>>;

pub fn registry() -> Registry {
    let mut v: Registry = vec![];

    macro_rules! add {
        ($name:expr, $ty:ty, [$($cov:expr),*], $flags:expr, $gen:expr, $walk:expr) => {
            v.push(Box::new(Typed::<$ty> { name: $name, covers: &[$($cov),*], flags: $flags, gen: $gen, walk: $walk,
                grow: (&Probe::<$ty>(std::marker::PhantomData)).pick() }))
        };
    }
    // protocol structs/enums with derived Arbitrary, named after the type
    macro_rules! p {
        ($flags:expr; $($ty:ident),* $(,)?) => {$(
            add!(stringify!($ty), $ty, [stringify!($ty)], $flags, arb::<$ty>, None);
        )*};
    }
    // same, with a Walk impl (contains ProofOfSpace / Program / a versioned block)
    macro_rules! pw {
        ($flags:expr; $($ty:ident),* $(,)?) => {$(
            add!(stringify!($ty), $ty, [stringify!($ty)], $flags, arb::<$ty>, Some(walk_of::<$ty>));
        )*};
    }
    // primitive / combinator instantiations
    macro_rules! c {
        ($($name:expr => $ty:ty [$($cov:expr),*]),* $(,)?) => {$(
            add!($name, $ty, [$($cov),*], F_PRIM, arb::<$ty>, None);
        )*};
    }

    // --- chia-traits: primitives and combinators -------------------------------
    c! {
        "u8" => u8 ["u8"], "u16" => u16 ["u16"], "u32" => u32 ["u32"], "u64" => u64 ["u64"],
        "u128" => u128 ["u128"], "i8" => i8 ["i8"], "i16" => i16 ["i16"], "i32" => i32 ["i32"],
        "i64" => i64 ["i64"], "i128" => i128 ["i128"], "bool" => bool ["bool"],
        "String" => String ["String"], "unit" => () ["unit"],
        "Option<u32>" => Option<u32> ["Option"],
        "Option<bool>" => Option<bool> [],
        "Option<String>" => Option<String> [],
        "Option<Bytes32>" => Option<Bytes32> [],
        "Option<Option<u8>>" => Option<Option<u8>> [],
        "Option<Vec<Bytes32>>" => Option<Vec<Bytes32>> [],
        "Vec<u8>" => Vec<u8> ["Vec"],
        "Vec<u32>" => Vec<u32> [],
        "Vec<u64>" => Vec<u64> [],
        "Vec<bool>" => Vec<bool> [],
        "Vec<String>" => Vec<String> [],
        "Vec<Bytes32>" => Vec<Bytes32> [],
        "Vec<Bytes>" => Vec<Bytes> [],
        "Vec<Coin>" => Vec<Coin> [],
        "Vec<Option<Bytes>>" => Vec<Option<Bytes>> [],
        "Vec<Vec<u32>>" => Vec<Vec<u32>> [],
        "Vec<Vec<Vec<u8>>>" => Vec<Vec<Vec<u8>>> [],
        "Vec<Vec<String>>" => Vec<Vec<String>> [],
        "(u32,u8)" => (u32, u8) ["tuple2"],
        "(Bytes32,Vec<Coin>)" => (Bytes32, Vec<Coin>) [],
        "(Bytes32,Option<Coin>)" => (Bytes32, Option<Coin>) [],
        "(Bytes32,u64,Option<Bytes>)" => (Bytes32, u64, Option<Bytes>) ["tuple3"],
        "(bool,String,i64)" => (bool, String, i64) [],
        "(u8,u16,u32,u64)" => (u8, u16, u32, u64) ["tuple4"],
        "(Bytes,Option<u8>,Vec<u16>,bool)" => (Bytes, Option<u8>, Vec<u16>, bool) [],
        "Vec<(Bytes32,Bytes,Option<Bytes>)>" => Vec<(Bytes32, Bytes, Option<Bytes>)> [],
        "[u8;4]" => [u8; 4] ["array"],
        "[u32;3]" => [u32; 3] [],
        "[u64;16]" => [u64; 16] [],
        "[bool;5]" => [bool; 5] [],
        "[Bytes32;2]" => [Bytes32; 2] [],
    }

    // --- chia-protocol: byte strings and Program --------------------------------
    add!("Bytes", Bytes, ["Bytes"], F_HAND, arb::<Bytes>, None);
    add!("Bytes32", Bytes32, ["BytesImpl"], F_HAND, arb::<Bytes32>, None);
    add!("Bytes48", Bytes48, [], F_HAND, arb::<Bytes48>, None);
    add!("Bytes96", Bytes96, [], F_HAND, arb::<Bytes96>, None);
    add!("Bytes100", Bytes100, [], F_HAND, arb::<Bytes100>, None);
    add!("BytesImpl<1>", BytesImpl<1>, [], F_HAND, arb::<BytesImpl<1>>, None);
    add!("Program", Program, ["Program"], F_HAND | F_PROG, gen_program, Some(walk_of::<Program>));
    add!("Option<Program>", Option<Program>, [], F_PROG | F_PRIM, arb::<Option<Program>>,
        Some(walk_of::<Option<Program>>));

    // --- chia-bls ----------------------------------------------------------------
    add!("PublicKey", PublicKey, ["PublicKey"], F_HAND | F_BLS, gen_pk, None);
    add!("Signature", Signature, ["Signature"], F_HAND | F_BLS, gen_sig, None);
    add!("SecretKey", SecretKey, ["SecretKey"], F_HAND | F_BLS, arb::<SecretKey>, None);
    add!("GTElement", GTElement, ["GTElement"], F_HAND | F_BLS, gen_gt, None);
    add!("Option<PublicKey>", Option<PublicKey>, [], F_BLS | F_PRIM, arb::<Option<PublicKey>>, None);
    add!("Vec<(PublicKey,Bytes)>", Vec<(PublicKey, Bytes)>, [], F_BLS | F_PRIM, gen_vec_pk_bytes, None);

    // --- chia-protocol: hand-written codecs -------------------------------------
    pw!(F_HAND | F_POS | F_BLS; ProofOfSpace);
    pw!(F_HAND | F_POS | F_BLS | F_HEAVY; RewardChainBlock);
    pw!(F_HAND | F_POS | F_PROG | F_BLS | F_HEAVY; FullBlock, UnfinishedBlock);
    p!(F_HAND; SubEpochSummary, SubEpochData);
    add!("Option<ProofOfSpace>", Option<ProofOfSpace>, [], F_POS | F_BLS | F_PRIM,
        arb::<Option<ProofOfSpace>>, Some(walk_of::<Option<ProofOfSpace>>));
    add!("Vec<CoinSpend>", Vec<CoinSpend>, [], F_PROG | F_PRIM, arb::<Vec<CoinSpend>>,
        Some(walk_of::<Vec<CoinSpend>>));

    // --- chia-protocol: derived codecs -------------------------------------------
    p!(0; ProtocolMessageTypes, NodeType, Message, Handshake,
        ClassgroupElement, Coin, CoinRecord, CoinState, PoolTarget, TimestampedPeerInfo,
        PartialProof, FeeRate, FeeEstimate, FeeEstimateGroup, BlockRecord,
        VDFInfo, VDFProof, FoliageTransactionBlock,
        ChallengeChainSubSlot, InfusedChallengeChainSubSlot, RewardChainSubSlot, SubSlotProofs,
        EndOfSubSlotBundle);
    p!(F_BLS; TransactionsInfo, FoliageBlockData, Foliage);
    pw!(F_POS | F_BLS | F_HEAVY; RewardChainBlockUnfinished, ChallengeBlockInfo, SubSlotData,
        SubEpochChallengeSegment, SubEpochSegments, HeaderBlock, UnfinishedHeaderBlock,
        ProofBlockHeader, RecentChainData, WeightProof);
    pw!(F_PROG; CoinSpend, PuzzleSolutionResponse);
    pw!(F_PROG | F_BLS; SpendBundle);

    // full node protocol
    p!(0; NewPeak, NewTransaction, RequestTransaction, RequestProofOfWeight, RequestBlock,
        RejectBlock, RequestBlocks, RejectBlocks, NewUnfinishedBlock, RequestUnfinishedBlock,
        NewSignagePointOrEndOfSubSlot, RequestSignagePointOrEndOfSubSlot, RespondSignagePoint,
        RespondEndOfSubSlot, RequestMempoolTransactions, NewCompactVDF, RequestCompactVDF,
        RespondCompactVDF, RequestPeers, RespondPeers, NewUnfinishedBlock2, RequestUnfinishedBlock2);
    pw!(F_PROG | F_BLS; RespondTransaction);
    pw!(F_POS | F_BLS | F_HEAVY; RespondProofOfWeight);
    pw!(F_POS | F_PROG | F_BLS | F_HEAVY; RespondBlock, RespondBlocks, RespondUnfinishedBlock);

    // wallet protocol
    p!(0; RequestPuzzleSolution, RejectPuzzleSolution, TransactionAck, NewPeakWallet,
        RequestBlockHeader, RejectHeaderRequest, RequestRemovals, RespondRemovals,
        RejectRemovalsRequest, RequestAdditions, RespondAdditions, RejectAdditionsRequest,
        RejectBlockHeaders, RequestBlockHeaders, RequestHeaderBlocks, RejectHeaderBlocks,
        RegisterForPhUpdates, RespondToPhUpdates, RegisterForCoinUpdates, RespondToCoinUpdates,
        CoinStateUpdate, RequestChildren, RespondChildren, RequestSesInfo, RespondSesInfo,
        RequestFeeEstimates, RespondFeeEstimates, RequestRemovePuzzleSubscriptions,
        RespondRemovePuzzleSubscriptions, RequestRemoveCoinSubscriptions,
        RespondRemoveCoinSubscriptions, CoinStateFilters, RequestPuzzleState, RespondPuzzleState,
        RejectPuzzleState, RequestCoinState, RespondCoinState, RejectCoinState,
        RejectStateReason, MempoolRemoveReason, RemovedMempoolItem, MempoolItemsAdded,
        MempoolItemsRemoved, RequestCostInfo, RespondCostInfo);
    pw!(F_PROG; RespondPuzzleSolution);
    pw!(F_PROG | F_BLS; SendTransaction);
    pw!(F_POS | F_BLS | F_HEAVY; RespondBlockHeader, RespondBlockHeaders, RespondHeaderBlocks);

    // --- chia-consensus ----------------------------------------------------------
    add!("OwnedSpendConditions", OwnedSpendConditions, ["OwnedSpendConditions"], F_BLS,
        gen_owned_spend, None);
    add!("OwnedSpendBundleConditions", OwnedSpendBundleConditions, ["OwnedSpendBundleConditions"],
        F_BLS, gen_owned_bundle, None);
    add!("ConsensusConstants", ConsensusConstants, ["ConsensusConstants"], 0, gen_constants, None);

    // --- chia-datalayer ----------------------------------------------------------
    add!("dl::TreeIndex", dl::TreeIndex, ["TreeIndex"], 0, gen_tree_index, None);
    add!("dl::Parent", dl::Parent, ["Parent"], 0, gen_parent, None);
    add!("dl::Hash", dl::Hash, ["Hash"], 0, arb::<dl::Hash>, None);
    add!("dl::KeyId", dl::KeyId, ["KeyId"], 0, arb::<dl::KeyId>, None);
    add!("dl::ValueId", dl::ValueId, ["ValueId"], 0, arb::<dl::ValueId>, None);
    add!("dl::NodeType", dl::NodeType, [], 0, gen_dl_node_type, None);
    add!("dl::NodeMetadata", dl::NodeMetadata, ["NodeMetadata"], 0, gen_node_metadata, None);
    add!("dl::InternalNode", dl::InternalNode, ["InternalNode"], 0, gen_internal_node, None);
    add!("dl::LeafNode", dl::LeafNode, ["LeafNode"], 0, gen_leaf_node, None);
    add!("dl::Side", dl::Side, ["Side"], 0, gen_side, None);
    add!("dl::ProofOfInclusionLayer", dl::ProofOfInclusionLayer, ["ProofOfInclusionLayer"], 0,
        gen_poi_layer, None);
    add!("dl::ProofOfInclusion", dl::ProofOfInclusion, ["ProofOfInclusion"], 0, gen_poi, None);

    v
}

/// Streamable type names found in the sources that cannot be linked from a
/// monitor (declared under `#[cfg(test)]`)
pub const NOT_LINKABLE: &[&str] = &["TestEnum", "TestStruct", "TestTuple"];
