//! Source scan: which types in /repo/crates are Streamable?
//!
//! Finds `#[streamable…] struct X`, `#[derive(… Streamable …)] struct|enum X`,
//! `impl … Streamable for X`, and `streamable_primitive!(x)`. The result is
//! compared with the registry; a name that is not covered is a coverage gap
//! (reported, never a violation).

use std::collections::BTreeMap;
use std::path::{Path, PathBuf};

pub const CRATES_DIR: &str = "/repo/crates";

fn rs_files(dir: &Path, out: &mut Vec<PathBuf>) {
    let Ok(rd) = std::fs::read_dir(dir) else { return };
    let mut entries: Vec<_> = rd.flatten().map(|e| e.path()).collect();
    entries.sort();
    for p in entries {
        if p.is_dir() {
            let n = p.file_name().and_then(|s| s.to_str()).unwrap_or("");
            if n == "target" || n.starts_with('.') {
                continue;
            }
            rs_files(&p, out);
        } else if p.extension().and_then(|s| s.to_str()) == Some("rs") {
            out.push(p);
        }
    }
}

fn is_ident(c: char) -> bool {
    c.is_ascii_alphanumeric() || c == '_'
}

fn tokens(s: &str) -> impl Iterator<Item = &str> {
    s.split(|c: char| !is_ident(c)).filter(|t| !t.is_empty())
}

/// strip `//` comments (good enough: none of the scanned constructs sit in strings)
fn strip_comments(src: &str) -> String {
    let mut out = String::with_capacity(src.len());
    for line in src.lines() {
        let l = match line.find("//") {
            Some(i) => &line[..i],
            None => line,
        };
        out.push_str(l);
        out.push('\n');
    }
    out
}

/// name of the item (`struct X` / `enum X`) following byte offset `from`
fn next_item_name(src: &str, from: usize) -> Option<String> {
    let rest = &src[from..];
    let mut toks = tokens(rest);
    let mut budget = 400; // attributes between the derive and the item
    while let Some(t) = toks.next() {
        budget -= 1;
        if budget == 0 {
            return None;
        }
        if t == "struct" || t == "enum" {
            return toks.next().map(str::to_string);
        }
        if t == "fn" || t == "impl" || t == "mod" || t == "trait" {
            return None;
        }
    }
    None
}

fn normalise_impl_target(t: &str) -> String {
    let t = t.trim();
    if t == "()" {
        return "unit".into();
    }
    if t.starts_with('(') {
        let n = t.matches(',').count() + 1;
        return format!("tuple{n}");
    }
    if t.starts_with('[') {
        return "array".into();
    }
    let head: String = t.chars().take_while(|c| is_ident(*c)).collect();
    if head.starts_with('$') || head.is_empty() {
        return String::new();
    }
    head
}

/// name -> files (relative to /repo/crates) where it was found
pub fn scan(root: &str) -> BTreeMap<String, Vec<String>> {
    let mut files = vec![];
    rs_files(Path::new(root), &mut files);
    let mut found: BTreeMap<String, Vec<String>> = BTreeMap::new();
    for f in files {
        let rel = f.strip_prefix(root).unwrap_or(&f).to_string_lossy().to_string();
        // the proc-macro crates only *generate* impls
        if rel.starts_with("chia_streamable_macro") || rel.starts_with("chia_py_streamable_macro") {
            continue;
        }
        let Ok(raw) = std::fs::read_to_string(&f) else { continue };
        if !raw.contains("treamable") {
            continue;
        }
        let src = strip_comments(&raw);
        let mut add = |name: String| {
            if !name.is_empty() {
                let e = found.entry(name).or_default();
                if !e.contains(&rel) {
                    e.push(rel.clone());
                }
            }
        };
        // attribute forms
        let mut i = 0;
        while let Some(off) = src[i..].find("#[") {
            let start = i + off;
            // find the matching ']' (attributes here contain no nested brackets besides parens)
            let Some(end_rel) = src[start..].find(']') else { break };
            let end = start + end_rel;
            let attr = &src[start + 2..end];
            let mut at = tokens(attr);
            let first = at.next().unwrap_or("");
            let hit = if first == "streamable" {
                true
            } else if first == "derive" || first == "cfg_attr" {
                // `derive(... Streamable ...)`, also inside cfg_attr(.., derive(..))
                attr.contains("derive") && tokens(attr).any(|t| t == "Streamable")
            } else {
                false
            };
            if hit {
                if let Some(n) = next_item_name(&src, end + 1) {
                    add(n);
                }
            }
            i = end + 1;
        }
        // hand-written impls
        let mut i = 0;
        while let Some(off) = src[i..].find("Streamable for ") {
            let start = i + off;
            let before = &src[..start];
            let after = &src[start + "Streamable for ".len()..];
            i = start + 1;
            // must be the trait name itself (not PyStreamable / ToStreamable…)
            if before.chars().last().is_some_and(is_ident) {
                continue;
            }
            // must be an `impl` (look back on the same statement)
            let stmt_start = before.rfind(['}', ';', '{']).map_or(0, |p| p + 1);
            if !tokens(&before[stmt_start..]).any(|t| t == "impl") {
                continue;
            }
            let endt = after.find(['{', '\n']).unwrap_or(after.len());
            let target = after[..endt].split(" where").next().unwrap_or("");
            add(normalise_impl_target(target));
        }
        // primitives via macro
        let mut i = 0;
        while let Some(off) = src[i..].find("streamable_primitive!(") {
            let start = i + off + "streamable_primitive!(".len();
            let end = src[start..].find(')').map_or(src.len(), |e| start + e);
            let t = src[start..end].trim();
            if !t.starts_with('$') {
                add(t.to_string());
            }
            i = end;
        }
    }
    found
}
