//! Counting global allocator (C14 monitor).
//!
//! Wraps `System`. Tracks live bytes, the peak of live bytes since the last
//! `begin()`, and the largest single request since the last `begin()`.
//! While *armed*, a single request above `CEILING` is refused (null is
//! returned after a raw `write(2)` of a marker line to stderr): allocation
//! failure cannot be caught in-process, the process aborts and the parent
//! shard process maps the marker to a violation for the in-flight case.
//! Nothing in here allocates, formats or panics.

use std::alloc::{GlobalAlloc, Layout, System};
use std::sync::atomic::{AtomicBool, AtomicUsize, Ordering::Relaxed};

pub const CEILING: usize = 128 << 20;
pub const MARKER: &str = "VERIF-ALLOC-CEILING";

static LIVE: AtomicUsize = AtomicUsize::new(0);
static PEAK: AtomicUsize = AtomicUsize::new(0);
static LARGEST: AtomicUsize = AtomicUsize::new(0);
static OVER: AtomicUsize = AtomicUsize::new(0);
static ARMED: AtomicBool = AtomicBool::new(false);

pub struct Counting;

#[inline]
fn note_alloc(sz: usize) {
    let live = LIVE.fetch_add(sz, Relaxed).wrapping_add(sz);
    PEAK.fetch_max(live, Relaxed);
    LARGEST.fetch_max(sz, Relaxed);
}

#[inline]
fn note_free(sz: usize) {
    LIVE.fetch_sub(sz, Relaxed);
}

#[cfg(not(miri))]
fn raw_stderr(buf: &[u8]) {
    unsafe {
        libc::write(2, buf.as_ptr().cast(), buf.len());
    }
}
#[cfg(miri)]
fn raw_stderr(_buf: &[u8]) {}

#[cold]
fn refuse(sz: usize) {
    OVER.fetch_max(sz, Relaxed);
    // "VERIF-ALLOC-CEILING size=<decimal>\n" without allocating
    let mut line = [0u8; 64];
    let head = b"VERIF-ALLOC-CEILING size=";
    line[..head.len()].copy_from_slice(head);
    let mut digits = [0u8; 24];
    let mut n = sz;
    let mut d = 0;
    loop {
        digits[d] = b'0' + (n % 10) as u8;
        d += 1;
        n /= 10;
        if n == 0 {
            break;
        }
    }
    let mut p = head.len();
    while d > 0 {
        d -= 1;
        line[p] = digits[d];
        p += 1;
    }
    line[p] = b'\n';
    raw_stderr(&line[..=p]);
}

unsafe impl GlobalAlloc for Counting {
    unsafe fn alloc(&self, l: Layout) -> *mut u8 {
        let sz = l.size();
        if sz > CEILING && ARMED.load(Relaxed) {
            refuse(sz);
            return std::ptr::null_mut();
        }
        let p = unsafe { System.alloc(l) };
        if !p.is_null() {
            note_alloc(sz);
        }
        p
    }
    unsafe fn alloc_zeroed(&self, l: Layout) -> *mut u8 {
        let sz = l.size();
        if sz > CEILING && ARMED.load(Relaxed) {
            refuse(sz);
            return std::ptr::null_mut();
        }
        let p = unsafe { System.alloc_zeroed(l) };
        if !p.is_null() {
            note_alloc(sz);
        }
        p
    }
    unsafe fn dealloc(&self, p: *mut u8, l: Layout) {
        unsafe { System.dealloc(p, l) };
        note_free(l.size());
    }
    unsafe fn realloc(&self, p: *mut u8, l: Layout, new: usize) -> *mut u8 {
        if new > CEILING && ARMED.load(Relaxed) {
            refuse(new);
            return std::ptr::null_mut();
        }
        let q = unsafe { System.realloc(p, l, new) };
        if !q.is_null() {
            note_free(l.size());
            note_alloc(new);
        }
        q
    }
}

/// Readings of one metered region.
#[derive(Debug, Clone, Copy, Default)]
pub struct Reading {
    /// peak of live bytes above the level at `begin()`
    pub peak_above: usize,
    pub largest: usize,
    /// size of a refused over-ceiling request (0 = none)
    pub refused: usize,
}

pub struct Region {
    live0: usize,
}

/// Start a metered region: peak/largest are reset, the ceiling is armed.
pub fn begin() -> Region {
    let live0 = LIVE.load(Relaxed);
    PEAK.store(live0, Relaxed);
    LARGEST.store(0, Relaxed);
    OVER.store(0, Relaxed);
    ARMED.store(true, Relaxed);
    Region { live0 }
}

/// Start a metered region without the ceiling (calibration runs on valid encodings only).
pub fn begin_unarmed() -> Region {
    let r = begin();
    ARMED.store(false, Relaxed);
    r
}

impl Region {
    pub fn end(self) -> Reading {
        ARMED.store(false, Relaxed);
        let peak = PEAK.load(Relaxed);
        Reading {
            peak_above: peak.saturating_sub(self.live0),
            largest: LARGEST.load(Relaxed),
            refused: OVER.load(Relaxed),
        }
    }
}

pub fn disarm() {
    ARMED.store(false, Relaxed);
}
