//! C14 — decoding arbitrary bytes is total and bounded (worker side).
//!
//! Every call into the code under test runs inside `metered()`: panic hook +
//! catch_unwind, counting allocator (peak live bytes above the level at entry,
//! largest single request, refused over-ceiling request), thread CPU time.
//! Before each call the worker publishes (case, type, op, step, input prefix)
//! in a shared status page so the parent can attribute an abort / runaway.

use crate::alloc;
use crate::registry::{Hw, Ty, Typed, F_HEAVY, F_POS, F_PROG};
use chia_protocol::{Bytes32, Program};
use serde_json::json;
use vcore::report::{guarded, PanicInfo};
use vcore::{hx, Report, Rng};

/// `c` of the allocation bound `peak ≤ c·len + 32 MiB`: 8 × the largest
/// heap-peak/wire-length ratio measured on valid encodings, rounded up to a
/// power of two. `--prop measure` (seed 0, 300 generated values per type plus
/// all-zero / count-prefixed all-zero encodings up to 2.4 MB) gives
///   254.11  RespondBlocks (Vec<FullBlock>: 3776-byte elements, mostly-None wire form)
///   155.07  SubEpochChallengeSegment (Vec<SubSlotData>, 13-byte all-None elements)
///    24.89  SubEpochSegments, 24.00 Vec<Option<Bytes>>, ≤ 6 for everything else
/// after taking off clvmr's fixed 1 MiB `Allocator::new()` reservation that the
/// untrusted Program parser makes regardless of the input (constant term).
/// 8 × 254.11 = 2033 → 2048.
pub const C_BYTES_PER_INPUT_BYTE: usize = 2048;
pub const SLACK: usize = 32 << 20;
pub const CPU_BASE_NS: u64 = 2_000_000_000;
pub const CPU_PER_BYTE_NS: u64 = 50_000;

pub const OP_NAMES: [&str; 9] = [
    "harness", "from_bytes", "from_bytes_unchecked", "to_bytes", "hash", "eq", "clone", "debug_fmt",
    "quality_string",
];

// ---------------------------------------------------------------------------
// status page shared with the parent

pub const STATUS_SIZE: usize = 4096;
pub const STATUS_MAGIC: u64 = 0x5645_5249_4643_3134; // "VERIFC14"
pub const PREFIX_OFF: usize = 64;
pub const PREFIX_MAX: usize = 1024;

pub struct Status {
    ptr: *mut u8,
}

impl Status {
    pub fn heap() -> Status {
        let b = vec![0u8; STATUS_SIZE].into_boxed_slice();
        Status { ptr: Box::leak(b).as_mut_ptr() }
    }

    #[cfg(not(miri))]
    pub fn mapped(path: &str) -> Result<Status, String> {
        use std::os::unix::io::AsRawFd;
        let f = std::fs::OpenOptions::new()
            .read(true)
            .write(true)
            .create(true)
            .truncate(false)
            .open(path)
            .map_err(|e| format!("{path}: {e}"))?;
        f.set_len(STATUS_SIZE as u64).map_err(|e| e.to_string())?;
        let p = unsafe {
            libc::mmap(
                std::ptr::null_mut(),
                STATUS_SIZE,
                libc::PROT_READ | libc::PROT_WRITE,
                libc::MAP_SHARED,
                f.as_raw_fd(),
                0,
            )
        };
        if p == libc::MAP_FAILED {
            return Err("mmap failed".into());
        }
        Ok(Status { ptr: p.cast() })
    }
    #[cfg(miri)]
    pub fn mapped(_path: &str) -> Result<Status, String> {
        Ok(Status::heap())
    }

    #[inline]
    fn put(&self, off: usize, v: u64) {
        unsafe { std::ptr::write_volatile(self.ptr.add(off).cast::<u64>(), v) }
    }

    pub fn set_case(&self, pos: u64, case: u64) {
        self.put(8, pos);
        self.put(16, case);
        self.put(32, 0);
        self.put(40, 0);
        self.put(0, STATUS_MAGIC);
    }

    #[inline]
    pub fn set_op(&self, type_idx: u32, op: u32, step: u64, input: &[u8]) {
        self.put(24, u64::from(type_idx));
        self.put(40, step);
        self.put(48, input.len() as u64);
        let n = input.len().min(PREFIX_MAX);
        unsafe { std::ptr::copy_nonoverlapping(input.as_ptr(), self.ptr.add(PREFIX_OFF), n) };
        self.put(32, u64::from(op));
    }

    #[inline]
    pub fn set_op_only(&self, op: u32) {
        self.put(32, u64::from(op));
    }
}

/// what the parent reads back from the status file
#[derive(Debug, Clone, Default)]
pub struct StatusView {
    pub valid: bool,
    pub pos: u64,
    pub case: u64,
    pub type_idx: u64,
    pub op: u64,
    pub step: u64,
    pub in_len: u64,
    pub prefix: Vec<u8>,
}

pub fn read_status(path: &str) -> StatusView {
    let Ok(b) = std::fs::read(path) else { return StatusView::default() };
    if b.len() < STATUS_SIZE {
        return StatusView::default();
    }
    let g = |o: usize| u64::from_ne_bytes(b[o..o + 8].try_into().unwrap());
    let in_len = g(48);
    let n = (in_len as usize).min(PREFIX_MAX);
    StatusView {
        valid: g(0) == STATUS_MAGIC,
        pos: g(8),
        case: g(16),
        type_idx: g(24),
        op: g(32),
        step: g(40),
        in_len,
        prefix: b[PREFIX_OFF..PREFIX_OFF + n].to_vec(),
    }
}

// ---------------------------------------------------------------------------
// metering

pub struct WCx {
    pub status: Status,
    /// judge the CPU-time bound (native / checked lanes only)
    pub cpu: bool,
    pub thorough: bool,
    /// FFI (blst, chia-pos2) may be called in this lane
    pub ffi_ok: bool,
    pub type_idx: u32,
    pub step: u64,
    /// sensitivity/testing aid: abort the process at this step of this case
    pub selftest_abort_case: Option<u64>,
    pub case: u64,
    /// `c` of the allocation bound (bytes of heap per input byte)
    pub c: usize,
    /// 0 = full per-case workload; 1 = valgrind (≈40× slower); 2 = Miri (≈1000× slower):
    /// the inner loops of a case are shortened, the case kinds stay the same
    pub light: u8,
}

impl WCx {
    /// per-case loop length for this lane
    fn n(&self, full: usize, heavy: bool) -> usize {
        let base = if heavy { full.div_ceil(3) } else { full };
        match self.light {
            0 => base,
            1 => base.div_ceil(4).max(1),
            _ => base.div_ceil(16).max(1),
        }
    }
}

#[cfg(not(miri))]
fn thread_cpu_ns() -> u64 {
    let mut ts = libc::timespec { tv_sec: 0, tv_nsec: 0 };
    unsafe { libc::clock_gettime(libc::CLOCK_THREAD_CPUTIME_ID, &mut ts) };
    ts.tv_sec as u64 * 1_000_000_000 + ts.tv_nsec as u64
}
#[cfg(miri)]
fn thread_cpu_ns() -> u64 {
    0
}

pub struct Meter {
    pub alloc: alloc::Reading,
    pub cpu_ns: u64,
}

fn metered<R>(cx: &WCx, f: impl FnOnce() -> R) -> (Result<R, PanicInfo>, Meter) {
    let t0 = if cx.cpu { thread_cpu_ns() } else { 0 };
    let region = alloc::begin();
    let r = guarded(f);
    let reading = region.end();
    let t1 = if cx.cpu { thread_cpu_ns() } else { 0 };
    (r, Meter { alloc: reading, cpu_ns: t1.saturating_sub(t0) })
}

fn in_detail(name: &str, op: &str, input: &[u8]) -> serde_json::Value {
    json!({"type": name, "op": op, "input": hx(&input[..input.len().min(2048)]), "len": input.len()})
}

fn judge(cx: &WCx, rep: &mut Report, name: &str, op: &str, input: &[u8], m: &Meter) {
    let len = input.len();
    rep.max("peak_alloc_bytes", m.alloc.peak_above as u64);
    rep.max("largest_request_bytes", m.alloc.largest as u64);
    if m.alloc.refused > 0 {
        rep.violation(
            &format!("alloc-ceiling:{name}:{op}"),
            &format!("a single allocation request of {} bytes (ceiling {} MiB) for a {len}-byte input", m.alloc.refused, alloc::CEILING >> 20),
            in_detail(name, op, input),
        );
    }
    let bound = cx.c.saturating_mul(len).saturating_add(SLACK);
    if m.alloc.peak_above > bound {
        rep.violation(
            &format!("alloc-bound:{name}:{op}"),
            &format!("peak live heap {} bytes above entry level for a {len}-byte input (bound {bound})", m.alloc.peak_above),
            in_detail(name, op, input),
        );
    }
    if cx.cpu {
        rep.max("cpu_us", m.cpu_ns / 1000);
        rep.max(&format!("cpu_us:{op}"), m.cpu_ns / 1000);
        let cpu_bound = CPU_BASE_NS + CPU_PER_BYTE_NS * len as u64;
        if m.cpu_ns > cpu_bound {
            rep.violation(
                &format!("cpu-bound:{name}:{op}"),
                &format!("{} ms of thread CPU time for a {len}-byte input (bound {} ms)", m.cpu_ns / 1_000_000, cpu_bound / 1_000_000),
                in_detail(name, op, input),
            );
        }
    }
}

#[derive(Clone, Copy, PartialEq, Eq, Debug)]
pub enum Dec {
    Accepted,
    Rejected,
    Panicked,
}

/// decode `input` with one decoder; on success run every receiver operation
pub fn decode_ops<T: Ty>(e: &Typed<T>, input: &[u8], trusted: bool, cx: &mut WCx, rep: &mut Report) -> Dec {
    let name = e.name;
    let opi = if trusted { 2 } else { 1 };
    let opn = OP_NAMES[opi as usize];
    cx.step += 1;
    cx.status.set_op(cx.type_idx, opi, cx.step, input);
    if cx.selftest_abort_case == Some(cx.case) && cx.step == 3 {
        std::process::abort();
    }
    rep.eval();
    let (r, m) = metered(cx, || if trusted { T::from_bytes_unchecked(input) } else { T::from_bytes(input) });
    judge(cx, rep, name, opn, input, &m);
    let v = match r {
        Err(p) => {
            rep.count(&format!("dec:{name}:panicked"));
            rep.violation(
                &format!("decode-panic:{name}:{opn}"),
                &format!("{opn} panicked at {}: {}", p.location, p.message),
                in_detail(name, opn, input),
            );
            return Dec::Panicked;
        }
        Ok(Err(_)) => {
            rep.count(&format!("dec:{name}:rejected"));
            return Dec::Rejected;
        }
        Ok(Ok(v)) => v,
    };
    rep.count(&format!("dec:{name}:accepted"));

    let op_panic = |rep: &mut Report, op: &str, class: Option<&str>, p: &PanicInfo| {
        let sig = match class {
            Some(c) => format!("decoded-value-op-panic:{op}:{c}"),
            None => format!("decoded-value-op-panic:{op}:{name}"),
        };
        rep.violation(
            &sig,
            &format!("{opn} accepted the input, then {op} panicked at {}: {}", p.location, p.message),
            json!({"type": name, "decoder": opn, "op": op, "input": hx(&input[..input.len().min(4096)]), "len": input.len()}),
        );
    };

    // clone
    cx.status.set_op_only(6);
    rep.eval();
    let (c, m) = metered(cx, || v.clone());
    judge(cx, rep, name, "clone", input, &m);
    let clone = match c {
        Ok(c) => Some(c),
        Err(p) => {
            op_panic(rep, "clone", None, &p);
            None
        }
    };

    // does the value hold a v2 proof of space whose quality string is None?
    let mut v2_invalid = false;
    let mut has_v2 = false;
    let mut clone = clone;
    if let (Some(walk), true, Some(c)) = (e.walk, e.flags & F_POS != 0, clone.as_mut()) {
        let mut qs_panic: Option<PanicInfo> = None;
        walk(c, &mut |hw| {
            if let Hw::Pos(p) = hw {
                if p.version == 1 {
                    has_v2 = true;
                    if cx.ffi_ok {
                        cx.status.set_op_only(8);
                        match guarded(|| p.quality_string()) {
                            Ok(None) => v2_invalid = true,
                            Ok(Some(_)) => {}
                            Err(pi) => qs_panic = Some(pi),
                        }
                    }
                }
            }
        });
        if let Some(p) = qs_panic {
            op_panic(rep, "quality_string", None, &p);
        }
        if has_v2 {
            rep.count(if v2_invalid { "decoded_v2_pos:quality-none" } else { "decoded_v2_pos:quality-some" });
        }
    }

    // re-encode
    cx.status.set_op_only(3);
    rep.eval();
    let (r, m) = metered(cx, || v.to_bytes());
    judge(cx, rep, name, "to_bytes", input, &m);
    if let Err(p) = &r {
        op_panic(rep, "to_bytes", None, p);
    }

    // hash
    if cx.ffi_ok || !has_v2 {
        cx.status.set_op_only(4);
        rep.eval();
        let (r, m) = metered(cx, || v.hash());
        judge(cx, rep, name, "hash", input, &m);
        if let Err(p) = &r {
            // the known finding is this panic site and message only, on a value that holds a v2 proof
            // without a quality string; any other hash panic keeps its own signature
            let class = if v2_invalid && p.location.contains("proof_of_space.rs") && p.message.contains("invalid ProofOfSpace") {
                Some("ProofOfSpace-v2-invalid-proof")
            } else {
                None
            };
            op_panic(rep, "hash", class, p);
        }
    } else {
        rep.count("hash_skipped:lane-without-ffi");
    }

    // compare
    if let Some(c) = &clone {
        cx.status.set_op_only(5);
        rep.eval();
        let (r, m) = metered(cx, || v == *c);
        judge(cx, rep, name, "eq", input, &m);
        match r {
            Ok(true) => {}
            Ok(false) => rep.count(&format!("eq_false_on_clone:{name}")),
            Err(p) => op_panic(rep, "eq", None, &p),
        }
    }

    // Debug
    cx.status.set_op_only(7);
    rep.eval();
    let (r, m) = metered(cx, || format!("{v:?}").len());
    judge(cx, rep, name, "debug_fmt", input, &m);
    if let Err(p) = &r {
        op_panic(rep, "debug_fmt", None, p);
    }
    cx.status.set_op_only(0);
    Dec::Accepted
}

fn both<T: Ty>(e: &Typed<T>, input: &[u8], cx: &mut WCx, rep: &mut Report) -> (Dec, Dec) {
    (decode_ops(e, input, false, cx, rep), decode_ops(e, input, true, cx, rep))
}

/// `input` must be rejected by the decoder (prefix-freeness)
fn must_reject<T: Ty>(e: &Typed<T>, input: &[u8], trusted: bool, what: &str, cx: &mut WCx, rep: &mut Report) {
    if decode_ops(e, input, trusted, cx, rep) == Dec::Accepted {
        let d = if trusted { "from_bytes_unchecked" } else { "from_bytes" };
        rep.violation(
            &format!("{what}-bytes-accepted:{}:{d}", e.name),
            &format!("{d} accepted a valid encoding with {what} bytes"),
            in_detail(e.name, d, input),
        );
    }
    rep.count(&format!("prefix_free_checked:{what}"));
}

// ---------------------------------------------------------------------------
// inputs

fn valid<T: Ty>(e: &Typed<T>, rng: &mut Rng, rep: &mut Report) -> Option<(T, Vec<u8>)> {
    for _ in 0..4 {
        let Some(v) = e.make(rng) else { continue };
        match guarded(|| v.to_bytes()) {
            Ok(Ok(b)) => return Some((v, b)),
            Ok(Err(_)) => rep.count(&format!("skipped:not-encodable:{}", e.name)),
            Err(p) => {
                rep.violation(&format!("encode-panic:{}", e.name), &p.message, json!({"type": e.name}));
                return None;
            }
        }
    }
    rep.count(&format!("skipped:no-valid-encoding:{}", e.name));
    None
}

fn random_input(rng: &mut Rng) -> Vec<u8> {
    let len = match rng.below(10) {
        0 => 0,
        1..=2 => rng.usize(17),
        3..=5 => rng.usize(257),
        _ => rng.usize(4097),
    };
    match rng.below(6) {
        0..=2 => rng.bytes(len),
        3 => rng.bytes(len).into_iter().map(|b| if b < 160 { 0 } else { b }).collect(),
        4 => rng.bytes(len).into_iter().map(|b| [0u8, 1, 2, 3, 0xff, 0x80, 0x7f, 0xfe][(b & 7) as usize]).collect(),
        _ => {
            // plausible header (small counts / option bytes) then noise
            let mut v = rng.bytes(len);
            for b in v.iter_mut().take(24) {
                *b &= 1;
            }
            v
        }
    }
}

const EDGE_U32: [u32; 8] = [0, 1, 0xffff_ffff, 0x8000_0000, 0x00ff_ffff, 0x7fff_ffff, 0x0001_0000, 0xffff_fffe];

fn mutate(base: &[u8], rng: &mut Rng) -> Vec<u8> {
    let mut b = base.to_vec();
    for _ in 0..(1 + rng.usize(4)) {
        let n = b.len();
        match rng.below(10) {
            0 | 1 if n > 0 => {
                let i = rng.usize(n);
                b[i] ^= 1 << rng.below(8);
            }
            2 if n > 0 => {
                let i = rng.usize(n);
                b[i] = *rng.pick(&[0u8, 1, 2, 3, 4, 0x7f, 0x80, 0xfe, 0xff]);
            }
            3 if n > 0 => {
                let i = rng.usize(n);
                b[i] = rng.u8();
            }
            4 => {
                let i = rng.usize(n + 1);
                let k = 1 + rng.usize(8);
                let ins = rng.bytes(k);
                b.splice(i..i, ins);
            }
            5 if n > 0 => {
                let i = rng.usize(n);
                let k = (1 + rng.usize(8)).min(n - i);
                b.drain(i..i + k);
            }
            6 if n > 0 => {
                // duplicate a chunk
                let i = rng.usize(n);
                let k = (1 + rng.usize(64)).min(n - i);
                let chunk = b[i..i + k].to_vec();
                let at = rng.usize(n + 1);
                b.splice(at..at, chunk);
            }
            7 if n >= 4 => {
                let i = rng.usize(n - 3);
                let v = *rng.pick(&EDGE_U32);
                b[i..i + 4].copy_from_slice(&v.to_be_bytes());
            }
            8 if n > 0 => {
                b.truncate(rng.usize(n));
            }
            _ => {
                let k = 1 + rng.usize(16);
                b.extend(rng.bytes(k));
            }
        }
    }
    b
}

fn program_bombs(rng: &mut Rng, nmax: usize) -> Vec<(&'static str, Vec<u8>)> {
    let n = match rng.below(4) {
        0 => nmax,
        1 => nmax / 10,
        _ => 1 + rng.usize(nmax),
    };
    let mut out: Vec<(&'static str, Vec<u8>)> = vec![];
    match rng.below(7) {
        0 => {
            // complete, left-deep
            let mut b = vec![0xffu8; n];
            b.extend(std::iter::repeat_n(0x80u8, n + 1));
            out.push(("deep-complete", b));
        }
        1 => out.push(("deep-truncated", vec![0xffu8; n])),
        2 => {
            // complete, right-deep list
            let mut b = Vec::with_capacity(2 * n + 1);
            for _ in 0..n {
                b.push(0xff);
                b.push(0x01);
            }
            b.push(0x80);
            out.push(("list-complete", b));
        }
        3 => {
            for p in [
                &[0xfc, 0xff, 0xff, 0xff, 0xff, 0xff][..],
                &[0xfb, 0xff, 0xff, 0xff, 0xff, 0xff],
                &[0xf8, 0x00, 0x00, 0x00, 0x00],
                &[0xf7, 0xff, 0xff, 0xff],
                &[0xf0, 0x00, 0x00, 0x01],
                &[0xef, 0xff, 0xff],
                &[0xdf, 0xff],
                &[0xbf],
                &[0xfd],
                &[0xfc, 0x80, 0x00, 0x00, 0x00, 0x00],
                &[0xfc, 0x7f, 0xff, 0xff, 0xff, 0xff],
            ] {
                let mut b = p.to_vec();
                let k = rng.usize(80);
                b.extend(rng.bytes(k));
                out.push(("atom-prefix", b));
                // the same inside a pair
                let mut c = vec![0xff, 0x01];
                c.extend_from_slice(p);
                let k = rng.usize(80);
                c.extend(rng.bytes(k));
                out.push(("atom-prefix-in-pair", c));
            }
        }
        4 => {
            // back-references: valid, dangling, oversized paths
            for tail in [
                &[0xfe, 0x02][..],
                &[0xfe, 0x01],
                &[0xfe, 0x80],
                &[0xfe, 0x00],
                &[0xfe, 0x03],
                &[0xfe, 0x7f],
                &[0xfe, 0x81, 0xff],
                &[0xfe, 0xfc, 0xff, 0xff, 0xff, 0xff, 0xff],
                &[0xfe, 0xc0, 0x40],
                &[0xfe, 0xfe],
                &[0xfe, 0xff],
                &[0xfe],
            ] {
                let mut b = vec![0xff, 0x85, b'h', b'e', b'l', b'l', b'o'];
                b.extend_from_slice(tail);
                out.push(("backref", b));
                out.push(("backref-bare", tail.to_vec()));
            }
        }
        5 => {
            // many back-references to one atom
            let k = n.min(200_000);
            let mut b = Vec::with_capacity(3 * k + 8);
            b.extend_from_slice(&[0xff, 0x83, 1, 2, 3]);
            for _ in 0..k {
                b.extend_from_slice(&[0xff, 0xfe, 0x02]);
            }
            b.push(0x80);
            out.push(("backref-chain", b));
        }
        _ => {
            // long back-reference path into a deep tree
            let d = n.min(50_000);
            let mut b = vec![0xffu8; d];
            b.extend(std::iter::repeat_n(0x01u8, d));
            b.push(0xfe);
            let path = vec![0xffu8; d / 8 + 1];
            crate::registry::ser_atom(&mut b, &path);
            out.push(("backref-long-path", b));
        }
    }
    out
}

// ---------------------------------------------------------------------------
// case kinds

pub const KINDS: [&str; 7] =
    ["random", "mutated", "u32-windows", "vector-bombs", "program-bombs", "prefix-sweep", "truncation"];

pub fn case<T: Ty>(e: &Typed<T>, rng: &mut Rng, rep: &mut Report, cx: &mut WCx, kind: u32) {
    let mut kind = kind as usize % KINDS.len();
    if kind == 4 && e.flags & F_PROG == 0 {
        kind = 1;
    }
    rep.count(&format!("kind:{}", KINDS[kind]));
    let before = (rep.counter(&format!("dec:{}:accepted", e.name)), rep.counter(&format!("dec:{}:rejected", e.name)));
    match kind {
        0 => k_random(e, rng, rep, cx),
        1 => k_mutated(e, rng, rep, cx),
        2 => k_windows(e, rng, rep, cx),
        3 => k_bombs(e, rng, rep, cx),
        4 => k_program(e, rng, rep, cx),
        5 => k_sweep(e, rng, rep, cx),
        _ => k_trunc(e, rng, rep, cx),
    }
    let acc = rep.counter(&format!("dec:{}:accepted", e.name)) > before.0;
    let rej = rep.counter(&format!("dec:{}:rejected", e.name)) > before.1;
    rep.cell(&format!("{}:{}:{}{}", e.name, KINDS[kind], if acc { "A" } else { "" }, if rej { "R" } else { "" }));
    rep.count(&format!("cases:{}", e.name));
}

fn k_random<T: Ty>(e: &Typed<T>, rng: &mut Rng, rep: &mut Report, cx: &mut WCx) {
    let n = cx.n(24, e.flags & F_HEAVY != 0);
    for _ in 0..n {
        let input = random_input(rng);
        both(e, &input, cx, rep);
    }
}

fn k_mutated<T: Ty>(e: &Typed<T>, rng: &mut Rng, rep: &mut Report, cx: &mut WCx) {
    let Some((_, enc)) = valid(e, rng, rep) else { return };
    // the valid encoding itself: both decoders must accept it, every operation must complete
    let (a, b) = both(e, &enc, cx, rep);
    if a != Dec::Accepted || b != Dec::Accepted {
        rep.count(&format!("valid_encoding_not_accepted:{}", e.name));
    }
    let n = cx.n(40, e.flags & F_HEAVY != 0);
    for _ in 0..n {
        let m = mutate(&enc, rng);
        both(e, &m, cx, rep);
    }
}

fn k_windows<T: Ty>(e: &Typed<T>, rng: &mut Rng, rep: &mut Report, cx: &mut WCx) {
    let Some((_, enc)) = valid(e, rng, rep) else { return };
    let n = enc.len();
    if n < 4 {
        both(e, &enc, cx, rep);
        return;
    }
    let windows = n - 3;
    let limit = match cx.light {
        0 => if e.flags & F_HEAVY != 0 { 96 } else { 768 },
        1 => 48,
        _ => 8,
    };
    let positions: Vec<usize> = if windows <= limit {
        (0..windows).collect()
    } else {
        (0..limit).map(|i| i * windows / limit + rng.usize((windows / limit).max(1))).filter(|p| *p < windows).collect()
    };
    let mut buf = enc.clone();
    for p in positions {
        let saved: [u8; 4] = enc[p..p + 4].try_into().unwrap();
        for v in [0xffff_ffffu32, 0x8000_0000, 0x00ff_ffff, (n as u32).wrapping_add(1)] {
            buf[p..p + 4].copy_from_slice(&v.to_be_bytes());
            both(e, &buf, cx, rep);
            rep.count("u32_windows_overwritten");
        }
        buf[p..p + 4].copy_from_slice(&saved);
    }
}

fn k_bombs<T: Ty>(e: &Typed<T>, rng: &mut Rng, rep: &mut Report, cx: &mut WCx) {
    const PATTERNS: [&[u8]; 9] = [
        &[0, 0, 0, 1],
        &[0xff, 0xff, 0xff, 0xff],
        &[0, 0xff, 0xff, 0xff],
        &[0, 0, 0xff, 0xff],
        &[0, 0, 1, 0],
        &[0],
        &[1],
        &[1, 0, 0, 0, 2],
        &[0, 0, 0, 2, 1],
    ];
    let max = match cx.light {
        0 => if cx.thorough { 65_536 } else { 16_384 },
        1 => 4096,
        _ => 512,
    };
    // pure patterns
    for _ in 0..cx.n(3, false) {
        let pat = *rng.pick(&PATTERNS);
        let len = (*rng.pick(&[64usize, 1024, 4096, max])).min(max);
        let input: Vec<u8> = pat.iter().copied().cycle().take(len).collect();
        both(e, &input, cx, rep);
        rep.count("bombs:pattern");
    }
    // a valid prefix, a hostile count, then a repeated pattern the elements are parsed from
    let Some((_, enc)) = valid(e, rng, rep) else { return };
    for _ in 0..cx.n(8, e.flags & F_HEAVY != 0) {
        let cut = rng.usize(enc.len() + 1);
        let mut input = enc[..cut].to_vec();
        let count = *rng.pick(&[0xffff_ffffu32, 0x00ff_ffff, 0x0001_0000, 0x0000_1000, 0x8000_0000, 0x0020_0000]);
        input.extend_from_slice(&count.to_be_bytes());
        let pat = *rng.pick(&PATTERNS);
        let fill = (*rng.pick(&[16usize, 256, 4096, max])).min(max);
        input.extend(pat.iter().copied().cycle().take(fill));
        both(e, &input, cx, rep);
        rep.count("bombs:count-then-pattern");
    }
}

fn k_program<T: Ty>(e: &Typed<T>, rng: &mut Rng, rep: &mut Report, cx: &mut WCx) {
    let Some(walk) = e.walk else { return };
    let nmax = match cx.light {
        0 => if cx.thorough { 1_000_000 } else { 100_000 },
        1 => 20_000,
        _ => 600,
    };
    let mut bombs = program_bombs(rng, nmax);
    if cx.light > 0 {
        bombs.truncate(if cx.light == 1 { 8 } else { 3 });
    }
    for (label, bomb) in bombs {
        // plant the raw bytes in one Program field of a generated value
        let mut input = None;
        for _ in 0..8 {
            let Some(mut v) = e.make(rng) else { continue };
            let mut sites = 0u32;
            walk(&mut v, &mut |hw| match hw {
                Hw::Prog(_) => sites += 1,
                Hw::Full(b) if b.version == 0 && b.transactions_generator.is_none() => {
                    b.transactions_generator = Some(Program::default());
                    sites += 1;
                }
                Hw::Unf(b) if b.version == 0 && b.transactions_generator.is_none() => {
                    b.transactions_generator = Some(Program::default());
                    sites += 1;
                }
                _ => {}
            });
            if sites == 0 {
                continue;
            }
            let target = rng.below(u64::from(sites)) as u32;
            let mut k = 0u32;
            walk(&mut v, &mut |hw| {
                if let Hw::Prog(p) = hw {
                    if k == target {
                        *p = Program::from(bomb.clone());
                    }
                    k += 1;
                }
            });
            if let Ok(Ok(b)) = guarded(|| v.to_bytes()) {
                input = Some(b);
                break;
            }
        }
        let Some(input) = input else {
            rep.count(&format!("skipped:no-program-site:{}", e.name));
            continue;
        };
        rep.count(&format!("program_bombs:{label}"));
        rep.max("program_bomb_len", bomb.len() as u64);
        both(e, &input, cx, rep);
    }
}

fn toggle_site(hw: Hw<'_>, rng: &mut Rng) {
    match hw {
        Hw::Pos(p) => {
            if p.version == 0 {
                if rng.bool() {
                    // flip the presence of the contract hash (prefix bit 0)
                    p.pool_contract_puzzle_hash = match p.pool_contract_puzzle_hash {
                        Some(_) => None,
                        None => Some(Bytes32::new(rng.bytes32())),
                    };
                } else {
                    p.version = 1;
                    p.size = 0;
                    if p.pool_public_key.is_some() == p.pool_contract_puzzle_hash.is_some() {
                        p.pool_public_key = None;
                        p.pool_contract_puzzle_hash = Some(Bytes32::new(rng.bytes32()));
                    }
                }
            } else {
                p.version = 0;
                p.plot_index = 0;
                p.meta_group = 0;
                p.strength = 0;
            }
        }
        Hw::Full(b) => {
            if b.version == 0 {
                b.version = 1;
                b.transactions_generator = None;
                b.transactions_generator_ref_list = vec![];
            } else {
                b.version = 0;
                b.transactions_generator_buffer = None;
            }
        }
        Hw::Unf(b) => {
            if b.version == 0 {
                b.version = 1;
                b.transactions_generator = None;
                b.transactions_generator_ref_list = vec![];
            } else {
                b.version = 0;
                b.transactions_generator_buffer = None;
            }
        }
        Hw::Prog(_) => {}
    }
}

fn sweep_at<T: Ty>(e: &Typed<T>, enc: &[u8], pos: usize, cx: &mut WCx, rep: &mut Report) {
    let mut buf = enc.to_vec();
    for val in 0..=255u8 {
        // Miri: the 16 low values (all defined prefix bits) and a sample of the rest
        if cx.light == 2 && val >= 16 && val % 37 != 0 && val < 0xfe {
            continue;
        }
        buf[pos] = val;
        both(e, &buf, cx, rep);
    }
    rep.count("prefix_sweeps");
}

fn k_sweep<T: Ty>(e: &Typed<T>, rng: &mut Rng, rep: &mut Report, cx: &mut WCx) {
    let Some((v, enc)) = valid(e, rng, rep) else { return };
    let heavy = e.flags & F_HEAVY != 0;
    // (a) the version / option prefix bytes of the hand-written codecs, located by
    //     comparing the encodings of two values that differ in exactly that prefix
    if let Some(walk) = e.walk {
        let mut w = v.clone();
        let mut sites = 0u32;
        walk(&mut w, &mut |hw| {
            if !matches!(hw, Hw::Prog(_)) {
                sites += 1;
            }
        });
        if sites > 0 {
            let target = rng.below(u64::from(sites)) as u32;
            let mut k = 0u32;
            walk(&mut w, &mut |hw| {
                if !matches!(hw, Hw::Prog(_)) {
                    if k == target {
                        toggle_site(hw, rng);
                    }
                    k += 1;
                }
            });
            if let Ok(Ok(enc2)) = guarded(|| w.to_bytes()) {
                if let Some(pos) = enc.iter().zip(enc2.iter()).position(|(a, b)| a != b) {
                    rep.count(&format!("version_prefix_sweeps:{}", e.name));
                    sweep_at(e, &enc, pos, cx, rep);
                    sweep_at(e, &enc2, pos, cx, rep);
                }
            }
        }
    }
    // (b) bytes that look like Option/bool/discriminant prefixes
    let cands: Vec<usize> = (0..enc.len()).filter(|i| enc[*i] <= 3).collect();
    let take = cx.n(8, heavy);
    for _ in 0..take.min(cands.len()) {
        let pos = cands[rng.usize(cands.len())];
        sweep_at(e, &enc, pos, cx, rep);
    }
}

fn k_trunc<T: Ty>(e: &Typed<T>, rng: &mut Rng, rep: &mut Report, cx: &mut WCx) {
    let Some((_, enc)) = valid(e, rng, rep) else { return };
    let (a, b) = both(e, &enc, cx, rep);
    let n = enc.len();
    let offsets: Vec<usize> = if cx.light > 0 && n > 64 {
        // supporting lanes: a stratified sample of the offsets
        let k = if cx.light == 1 { 64 } else { 12 };
        (0..k).map(|i| i * n / k + rng.usize(n / k)).filter(|x| *x < n).collect()
    } else if n <= 2048 {
        (0..n).collect()
    } else {
        let mut o: Vec<usize> = (0..256).map(|i| i * n / 256 + rng.usize(n / 256)).filter(|x| *x < n).collect();
        o.extend(n - 32..n);
        o
    };
    for (trusted, ok) in [(false, a == Dec::Accepted), (true, b == Dec::Accepted)] {
        if !ok {
            // a decoder that does not accept the encoding promises nothing about its prefixes
            rep.count(&format!("valid_encoding_not_accepted:{}", e.name));
            continue;
        }
        for &k in &offsets {
            must_reject(e, &enc[..k], trusted, "missing", cx, rep);
        }
        let k = 1 + rng.usize(8);
        for extra in [vec![0u8], vec![0xff], vec![1], rng.bytes(k), enc.clone()] {
            if extra.is_empty() {
                continue;
            }
            let mut t = enc.clone();
            t.extend_from_slice(&extra);
            must_reject(e, &t, trusted, "trailing", cx, rep);
        }
    }
    rep.max("truncated_encoding_len", n as u64);
}

// ---------------------------------------------------------------------------
// calibration of the allocation bound

/// fixed pre-allocation of clvmr's `Allocator::new()` (used by the untrusted
/// `Program` parser to validate back-references): about 1 MiB regardless of the
/// input; it belongs to the constant term of the bound, not to `c`
pub const FIXED_ALLOWANCE: usize = 2 << 20;

pub fn measure<T: Ty>(e: &Typed<T>, rng: &mut Rng, n: u32) -> (f64, usize, usize) {
    let mut worst = 0f64;
    let mut maxlen = 0usize;
    let mut probe = |input: &[u8]| {
        let region = alloc::begin_unarmed();
        let r = guarded(|| T::from_bytes(input));
        let rd = region.end();
        if matches!(r, Ok(Ok(_))) {
            let ratio = rd.peak_above.saturating_sub(FIXED_ALLOWANCE) as f64 / input.len().max(1) as f64;
            let ratio = ratio.max(if rd.peak_above <= FIXED_ALLOWANCE && input.len() >= 4096 {
                rd.peak_above as f64 / input.len() as f64
            } else {
                0.0
            });
            if ratio > worst {
                worst = ratio;
            }
            maxlen = maxlen.max(input.len());
        }
    };
    for _ in 0..n {
        let Some(v) = e.make(rng) else { continue };
        let Ok(Ok(enc)) = guarded(|| v.to_bytes()) else { continue };
        probe(&enc);
    }
    // all-zero strings with one count field: the valid encodings with the
    // cheapest elements (every Option None, every vector empty)
    for l in 0..600 {
        probe(&vec![0u8; l]);
    }
    for lead in [0usize, 1, 4, 5, 8, 12] {
        for count in [1u32, 8, 64, 512, 4096, 65536] {
            for w in [1usize, 2, 3, 4, 5, 8, 9, 12, 13, 16, 17, 24, 32, 33, 40] {
                for tail in 0..=1usize {
                    let mut b = vec![0u8; lead];
                    b.extend_from_slice(&count.to_be_bytes());
                    b.extend(std::iter::repeat_n(0u8, count as usize * w + tail));
                    probe(&b);
                }
            }
        }
    }
    (worst, std::mem::size_of::<T>(), maxlen)
}
