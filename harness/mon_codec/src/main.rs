//! mon_codec — C13 (wire encoding is a canonical bijection consistent with
//! hashing) and C14 (decoding arbitrary bytes is total and bounded).
//!
//!   mon_codec --prop C13 …          in-process, `run_cases`
//!   mon_codec --prop C14 …          shard = parent; spawns itself with `--worker 1`
//!   mon_codec --prop measure        calibration of the C14 allocation bound
//!
//! C14 process model: the parent never runs code under test. The worker walks
//! the shard's case list, publishes (position, case, type, op, input prefix)
//! in a shared status page before every call into the code under test and
//! checkpoints its report. If the worker dies (signal, abort, non-zero exit)
//! the parent merges the last checkpoint, records a violation for the
//! in-flight case and restarts a worker behind it.

mod alloc;
mod c13;
mod c14;
mod registry;
mod scan;

use registry::{DynEntry, Registry, F_BLS, F_HEAVY, F_POS};
use serde_json::{json, Map, Value};
use std::io::Read;
use std::time::{Duration, Instant};
use vcore::report::{install_panic_hook, run_cases, take_last_panic, with_big_stack};
use vcore::{Args, Report, Rng};

#[global_allocator]
static GLOBAL: alloc::Counting = alloc::Counting;

fn lane_has_ffi(lane: &str) -> bool {
    lane != "miri"
}

fn lane_registry(lane: &str) -> Registry {
    let mut r = registry::registry();
    if !lane_has_ffi(lane) {
        r.retain(|e| e.flags() & F_BLS == 0);
    }
    r
}

/// registry vs. source scan (coverage gap report, never a violation)
fn coverage_report(rep: &mut Report, lane: &str) {
    let full = registry::registry();
    rep.set_extra("registry_size", json!(full.len()));
    rep.set_extra("registry_types", json!(full.iter().map(|e| e.name()).collect::<Vec<_>>()));
    if lane == "miri" || lane == "valgrind" {
        rep.set_extra("registry_scan", json!(format!("not run in lane {lane}")));
        return;
    }
    let found = scan::scan(scan::CRATES_DIR);
    if found.is_empty() {
        rep.harness_error(&format!("source scan of {} found no Streamable types", scan::CRATES_DIR));
        return;
    }
    let covered: std::collections::BTreeSet<&str> = full.iter().flat_map(|e| e.covers().iter().copied()).collect();
    let mut missing = vec![];
    let mut excluded = vec![];
    for (name, files) in &found {
        if covered.contains(name.as_str()) {
            continue;
        }
        if registry::NOT_LINKABLE.contains(&name.as_str()) {
            excluded.push(format!("{name} ({}; cfg(test))", files.join(",")));
        } else {
            missing.push(format!("{name} ({})", files.join(",")));
        }
    }
    let stale: Vec<&str> = covered.iter().copied().filter(|c| !found.contains_key(*c)).collect();
    rep.set_extra("registry_scanned_names", json!(found.len()));
    rep.set_extra("registry_missing", json!(missing));
    rep.set_extra("registry_excluded", json!(excluded));
    rep.set_extra("registry_names_not_in_sources", json!(stale));
}

// ---------------------------------------------------------------------------
// C13

fn run_c13(args: Args) {
    with_big_stack(move || {
        let mut rep = Report::new(&args.prop, &args.lane);
        let reg = lane_registry(&args.lane);
        if args.shard == 0 {
            coverage_report(&mut rep, &args.lane);
        }
        let ffi_ok = lane_has_ffi(&args.lane);
        let vectors = if ffi_ok {
            match c13::load_vectors() {
                Ok(v) => v,
                Err(e) => {
                    rep.harness_error(&format!("quality-string vectors: {e}"));
                    vec![]
                }
            }
        } else {
            vec![]
        };
        // every byte of encodings up to 512 bytes (512 sampled positions beyond that);
        // the sanitizer lanes sample 96 positions per encoding
        let max_positions = if matches!(args.lane.as_str(), "asan" | "valgrind" | "miri") { 96 } else { 512 };
        let cx = c13::Cx { vectors, ffi_ok, max_positions };
        let nt = reg.len() as u64;
        // one "round" = every registry type once
        let rounds = args.cases(240, 1600);
        let order = lane_order(&reg, &args.lane);
        let n = rounds * nt;
        run_cases(&args, "c13", n, &mut rep, |i, rng, rep| {
            let (ti, phase) = plan(i, &order);
            let e = &reg[ti];
            let heavy = e.flags() & F_HEAVY != 0;
            let pos = e.flags() & F_POS != 0 && ffi_ok;
            let long_ok = e.can_grow() && !matches!(args.lane.as_str(), "valgrind" | "miri");
            let kind = match phase % 8 {
                5 if long_ok && phase % 40 == 5 => c13::Kind::LongList,
                0 | 4 if !heavy => c13::Kind::Perturb,
                0 if phase % 32 == 0 => c13::Kind::Perturb,
                2 if pos && phase % 16 == 2 => c13::Kind::V2VectorPerturb,
                2 | 6 if pos => c13::Kind::V2Vector,
                _ => c13::Kind::Value,
            };
            e.c13_case(rng, rep, &cx, kind);
        });
        rep.finish(&args);
    });
}

// ---------------------------------------------------------------------------
// C14: shared between parent and worker

fn c14_case_count(args: &Args, nt: u64) -> u64 {
    args.cases(160, 1200) * nt
}

fn shard_cases(args: &Args, n: u64) -> Vec<u64> {
    match args.only_case {
        Some(c) => vec![c],
        None => (0..n).filter(|i| i % args.nshards == args.shard).collect(),
    }
}

/// Order in which the registry types take the cases of a round. Sanitizer lanes
/// run a small fraction of the workload: BLS- and PoS-bearing types (the ones that
/// reach C/C++ through FFI) are listed three times so they get 3/4 of it.
fn lane_order(reg: &Registry, lane: &str) -> Vec<usize> {
    let all: Vec<usize> = (0..reg.len()).collect();
    if !matches!(lane, "asan" | "valgrind") {
        return all;
    }
    let ffi: Vec<usize> = all.iter().copied().filter(|i| reg[*i].flags() & (F_BLS | F_POS) != 0).collect();
    let rest: Vec<usize> = all.iter().copied().filter(|i| reg[*i].flags() & (F_BLS | F_POS) == 0).collect();
    let mut o = vec![];
    // interleave so that a short run still sees both groups
    let n = ffi.len().max(rest.len());
    for k in 0..n {
        for rep in 0..3 {
            if !ffi.is_empty() {
                o.push(ffi[(k * 3 + rep) % ffi.len()]);
            }
        }
        if !rest.is_empty() {
            o.push(rest[k % rest.len()]);
        }
    }
    o
}

/// (index into the registry, phase) of case `i`. A type meets every phase as the
/// rounds go by, and one round already mixes all phases over the types, so even a
/// one-round run (Miri) sees every case kind.
fn plan(i: u64, order: &[usize]) -> (usize, u64) {
    let nt = order.len() as u64;
    let round = i / nt;
    let slot = (i + round) % nt;
    (order[slot as usize], round + slot)
}

// ---------------------------------------------------------------------------
// C14 worker

fn write_checkpoint(path: &str, rep: &Report, next_pos: u64, done: bool) {
    let v = json!({"next_pos": next_pos, "done": done, "report": rep.to_json()});
    let tmp = format!("{path}.tmp");
    if std::fs::write(&tmp, serde_json::to_vec(&v).expect("json")).is_ok() {
        let _ = std::fs::rename(&tmp, path);
    }
}

fn parse_skip(s: Option<&str>) -> Vec<u64> {
    s.unwrap_or("").split(',').filter_map(|x| x.parse().ok()).collect()
}

/// run the shard's cases from position `wstart`; returns the report
fn worker_loop(args: &Args, status: c14::Status, ckpt: Option<&str>) -> Report {
    let mut rep = Report::new(&args.prop, &args.lane);
    let reg = lane_registry(&args.lane);
    let nt = reg.len() as u64;
    let order = lane_order(&reg, &args.lane);
    let cases = shard_cases(args, c14_case_count(args, nt));
    let start: u64 = args.get("wstart").and_then(|s| s.parse().ok()).unwrap_or(0);
    let skip = parse_skip(args.get("wskip"));
    let mut cx = c14::WCx {
        status,
        cpu: matches!(args.lane.as_str(), "native" | "checked"),
        thorough: args.thorough(),
        ffi_ok: lane_has_ffi(&args.lane),
        type_idx: 0,
        step: 0,
        selftest_abort_case: args.get("selftest-abort-case").and_then(|s| s.parse().ok()),
        case: 0,
        c: args.get("c").and_then(|s| s.parse().ok()).unwrap_or(c14::C_BYTES_PER_INPUT_BYTE),
        // ASan is only 2-3x slower on plain code, but every untrusted Program parse makes
        // clvmr reserve 1 MiB, which under ASan is an mmap + shadow poisoning per decode
        // attempt (measured ~200x slower cases): same shortened loops as valgrind
        light: match args.lane.as_str() {
            "miri" => 2,
            "valgrind" | "asan" => 1,
            _ => 0,
        },
    };
    install_panic_hook();
    let mut last_ckpt = Instant::now();
    for pos in start..cases.len() as u64 {
        let i = cases[pos as usize];
        if skip.contains(&i) {
            continue;
        }
        if let Some(p) = ckpt {
            if last_ckpt.elapsed() > Duration::from_secs(4) {
                write_checkpoint(p, &rep, pos, false);
                last_ckpt = Instant::now();
            }
        }
        rep.case = i;
        let (ti, phase) = plan(i, &order);
        let kind = (phase % c14::KINDS.len() as u64) as u32;
        cx.type_idx = ti as u32;
        cx.step = 0;
        cx.case = i;
        cx.status.set_case(pos, i);
        let mut rng = Rng::for_case(args.seed, "c14", i);
        let e = &reg[ti];
        let r = std::panic::catch_unwind(std::panic::AssertUnwindSafe(|| {
            e.c14_case(&mut rng, &mut rep, &mut cx, kind);
        }));
        alloc::disarm();
        if r.is_err() {
            let (loc, msg) = take_last_panic().unwrap_or_else(|| ("?".into(), "?".into()));
            let in_harness = loc.contains("/verif/") || loc.starts_with("vcore/") || loc.starts_with("mon_");
            if in_harness {
                rep.harness_error(&format!("harness panic at {loc}: {msg}"));
            } else {
                // only value generation runs unguarded: a panic there is a generator problem
                rep.harness_error(&format!("panic outside a monitored call at {loc}: {msg}"));
            }
        }
    }
    if let Some(p) = ckpt {
        write_checkpoint(p, &rep, cases.len() as u64, true);
    }
    rep
}

fn run_worker(args: Args) {
    let status_path = args.get("status").map(str::to_string);
    let ckpt = args.get("wout").map(str::to_string);
    // the stack a receiver's thread would have, not the harness' 1 GiB
    let h = std::thread::Builder::new()
        .stack_size(8 << 20)
        .spawn(move || {
            let status = match &status_path {
                Some(p) => c14::Status::mapped(p).unwrap_or_else(|e| {
                    eprintln!("status page: {e}");
                    c14::Status::heap()
                }),
                None => c14::Status::heap(),
            };
            let mut rep = worker_loop(&args, status, ckpt.as_deref());
            if ckpt.is_none() {
                if args.shard == 0 && args.get("worker").is_none() {
                    coverage_report(&mut rep, &args.lane);
                }
                rep.finish(&args);
            }
        })
        .expect("spawn");
    if h.join().is_err() {
        std::process::exit(3);
    }
}

// ---------------------------------------------------------------------------
// C14 parent

fn merge_report(acc: &mut Map<String, Value>, part: &Value) {
    let get_u = |v: &Value| v.as_u64().unwrap_or(0);
    let ev = get_u(&acc["evaluations"]) + get_u(&part["evaluations"]);
    acc.insert("evaluations".into(), json!(ev));
    for key in ["cells", "cell_names"] {
        let mut set: Vec<Value> = acc[key].as_array().cloned().unwrap_or_default();
        let have: std::collections::HashSet<String> =
            set.iter().filter_map(|v| v.as_str().map(str::to_string)).collect();
        let cap = if key == "cell_names" { 60 } else { usize::MAX };
        for v in part[key].as_array().into_iter().flatten() {
            if let Some(s) = v.as_str() {
                if !have.contains(s) && set.len() < cap {
                    set.push(v.clone());
                }
            }
        }
        acc.insert(key.into(), Value::Array(set));
    }
    for key in ["counters", "violation_sigs"] {
        let mut m = acc[key].as_object().cloned().unwrap_or_default();
        for (k, v) in part[key].as_object().into_iter().flatten() {
            let old = m.get(k).map_or(0, get_u);
            let new = if k.starts_with("max:") { old.max(get_u(v)) } else { old + get_u(v) };
            m.insert(k.clone(), json!(new));
        }
        acc.insert(key.into(), Value::Object(m));
    }
    for (key, cap) in [("samples", 6usize), ("harness_errors", 20)] {
        let mut a = acc[key].as_array().cloned().unwrap_or_default();
        for v in part[key].as_array().into_iter().flatten() {
            if a.len() < cap {
                a.push(v.clone());
            }
        }
        acc.insert(key.into(), Value::Array(a));
    }
    // violation records: a few per signature, so that one that fires thousands of times (a known
    // finding) cannot crowd out the record of another
    {
        let mut a = acc["violations"].as_array().cloned().unwrap_or_default();
        let mut per: std::collections::HashMap<String, usize> = std::collections::HashMap::new();
        for v in &a {
            *per.entry(v["sig"].as_str().unwrap_or("").to_string()).or_insert(0) += 1;
        }
        for v in part["violations"].as_array().into_iter().flatten() {
            let n = per.entry(v["sig"].as_str().unwrap_or("").to_string()).or_insert(0);
            if *n < 3 && a.len() < 600 {
                *n += 1;
                a.push(v.clone());
            }
        }
        acc.insert("violations".into(), Value::Array(a));
    }
    let mut ex = acc["extra"].as_object().cloned().unwrap_or_default();
    for (k, v) in part["extra"].as_object().into_iter().flatten() {
        ex.entry(k.clone()).or_insert_with(|| v.clone());
    }
    acc.insert("extra".into(), Value::Object(ex));
}

fn proc_cpu_seconds(pid: u32) -> Option<f64> {
    let s = std::fs::read_to_string(format!("/proc/{pid}/stat")).ok()?;
    let rest = &s[s.rfind(')')? + 2..];
    let f: Vec<&str> = rest.split(' ').collect();
    let ut: f64 = f.get(11)?.parse().ok()?;
    let st: f64 = f.get(12)?.parse().ok()?;
    Some((ut + st) / 100.0)
}

fn tail_lines(s: &str, n: usize) -> String {
    let l: Vec<&str> = s.lines().filter(|l| !l.trim().is_empty()).collect();
    l[l.len().saturating_sub(n)..].join("\n")
}

fn run_parent(args: Args) {
    let mut rep = Report::new(&args.prop, &args.lane);
    if args.shard == 0 {
        coverage_report(&mut rep, &args.lane);
    }
    let reg = lane_registry(&args.lane);
    let names: Vec<&str> = reg.iter().map(|e| e.name()).collect();
    let nt = reg.len() as u64;
    let cases = shard_cases(&args, c14_case_count(&args, nt));
    drop(reg);
    rep.set_extra("c14_bound", json!({
        "peak_bytes": format!("{}*len + {}", c14::C_BYTES_PER_INPUT_BYTE, c14::SLACK),
        "single_request_ceiling": alloc::CEILING,
        "cpu_ns": format!("{} + {}*len (native, checked)", c14::CPU_BASE_NS, c14::CPU_PER_BYTE_NS),
    }));
    let mut acc: Map<String, Value> = rep.to_json().as_object().cloned().unwrap();

    let exe = std::env::current_exe().expect("current_exe");
    let base = args.out.clone().unwrap_or_else(|| format!("/tmp/mon_codec-{}-{}", std::process::id(), args.shard));
    let status_path = format!("{base}.status");
    let wout = format!("{base}.worker.json");
    let native_cpu = matches!(args.lane.as_str(), "native" | "checked");
    let slow = if native_cpu { 1.0 } else { 60.0 };

    let mut start = 0u64;
    let mut skip: Vec<u64> = vec![];
    let mut restarts = 0u32;
    let mut startup_failures = 0u32;
    let mut worker_exit_code = 0i32;
    let mut own = Report::new(&args.prop, &args.lane);
    let total = cases.len() as u64;

    while start < total {
        let _ = std::fs::remove_file(&wout);
        let _ = std::fs::remove_file(&status_path);
        let mut cmd = if args.lane == "valgrind" {
            let mut c = std::process::Command::new("valgrind");
            c.args(["--tool=memcheck", "--error-exitcode=97", "--leak-check=no", "--track-origins=no", "-q"]);
            c.arg(&exe);
            c
        } else {
            std::process::Command::new(&exe)
        };
        cmd.args(["--prop", &args.prop, "--tier", &args.tier, "--seed", &args.seed.to_string()])
            .args(["--shard", &args.shard.to_string(), "--nshards", &args.nshards.to_string()])
            .args(["--lane", &args.lane, "--scale", &args.scale.to_string()])
            .args(["--worker", "1", "--wstart", &start.to_string(), "--status", &status_path, "--wout", &wout]);
        if let Some(c) = args.only_case {
            cmd.args(["--only-case", &c.to_string()]);
        }
        if !skip.is_empty() {
            cmd.args(["--wskip", &skip.iter().map(u64::to_string).collect::<Vec<_>>().join(",")]);
        }
        for (k, v) in &args.extra {
            if k.starts_with("selftest") || k == "c" {
                cmd.args([format!("--{k}"), v.clone()]);
            }
        }
        cmd.stdin(std::process::Stdio::null()).stdout(std::process::Stdio::null()).stderr(std::process::Stdio::piped());
        let mut child = match cmd.spawn() {
            Ok(c) => c,
            Err(e) => {
                own.harness_error(&format!("cannot spawn worker: {e}"));
                break;
            }
        };
        let mut errpipe = child.stderr.take().expect("stderr");
        let reader = std::thread::spawn(move || {
            let mut s = Vec::new();
            let _ = errpipe.read_to_end(&mut s);
            String::from_utf8_lossy(&s).to_string()
        });

        // wait; watch for a call that never returns (judged on CPU time, not wall-clock)
        let pid = child.id();
        let mut last_key = (u64::MAX, u64::MAX);
        let mut cpu_at_key = 0f64;
        let mut wall_at_key = Instant::now();
        let mut killed: Option<&'static str> = None;
        let exit = loop {
            match child.try_wait() {
                Ok(Some(st)) => break st,
                Ok(None) => {}
                Err(e) => {
                    own.harness_error(&format!("wait: {e}"));
                    let _ = child.kill();
                    break child.wait().expect("wait");
                }
            }
            std::thread::sleep(Duration::from_millis(50));
            let sv = c14::read_status(&status_path);
            if !sv.valid {
                continue;
            }
            let key = (sv.case, sv.step);
            let cpu = proc_cpu_seconds(pid).unwrap_or(0.0);
            if key != last_key {
                last_key = key;
                cpu_at_key = cpu;
                wall_at_key = Instant::now();
                continue;
            }
            if sv.op == 0 {
                continue;
            }
            let allowance = (60.0 + sv.in_len as f64 * 50e-6) * slow;
            if native_cpu && cpu - cpu_at_key > allowance {
                killed = Some("cpu");
                let _ = child.kill();
            } else if wall_at_key.elapsed().as_secs_f64() > 20.0 * allowance {
                killed = Some("wall");
                let _ = child.kill();
            }
        };
        let stderr = reader.join().unwrap_or_default();

        // merge whatever the worker checkpointed
        let mut done = false;
        let mut next = start;
        if let Ok(txt) = std::fs::read_to_string(&wout) {
            if let Ok(v) = serde_json::from_str::<Value>(&txt) {
                merge_report(&mut acc, &v["report"]);
                next = v["next_pos"].as_u64().unwrap_or(start);
                done = v["done"].as_bool().unwrap_or(false);
            }
        }
        let code = exit.code();
        if done && (code == Some(0) || code == Some(97)) {
            if code == Some(97) {
                // memcheck reported errors: hand its report to the driver
                eprintln!("{stderr}");
                worker_exit_code = 97;
            }
            start = total;
            break;
        }

        // abnormal end: attribute it to the in-flight case
        let sv = c14::read_status(&status_path);
        let how = match (code, killed) {
            (_, Some("cpu")) => "killed by the parent: the call consumed CPU time without returning".to_string(),
            (_, Some(_)) => "killed by the parent: wall-clock watchdog".to_string(),
            (Some(c), _) => format!("exit code {c}"),
            (None, _) => {
                use std::os::unix::process::ExitStatusExt;
                format!("signal {}", exit.signal().unwrap_or(0))
            }
        };
        if code == Some(98) || stderr.contains("ERROR: AddressSanitizer") {
            eprintln!("{stderr}");
            worker_exit_code = 98;
        }
        if !sv.valid || sv.pos < next || sv.pos >= total {
            startup_failures += 1;
            own.harness_error(&format!(
                "worker ended ({how}) without a usable status page; stderr: {}",
                tail_lines(&stderr, 8)
            ));
            if startup_failures >= 3 {
                break;
            }
            start = next;
            continue;
        }
        let tname = names.get(sv.type_idx as usize).copied().unwrap_or("?");
        let op = c14::OP_NAMES.get(sv.op as usize).copied().unwrap_or("?");
        let detail = json!({
            "type": tname, "op": op, "case": sv.case, "step": sv.step, "how": how,
            "input_len": sv.in_len, "input_prefix": vcore::hx(&sv.prefix),
            "stderr_tail": tail_lines(&stderr, 12),
            "replay": format!("--prop C14 --tier {} --seed {} --only-case {}", args.tier, args.seed, sv.case),
        });
        own.case = sv.case;
        match killed {
            Some("wall") => own.harness_error(&format!(
                "wall-clock watchdog on case {} ({tname}:{op}); inconclusive for that case", sv.case
            )),
            Some(_) => own.violation(
                &format!("decode-cpu-runaway:{tname}:{op}"),
                &format!("{op} on a {}-byte input did not return within its CPU allowance", sv.in_len),
                detail,
            ),
            None if sv.op == 0 => own.harness_error(&format!(
                "worker died ({how}) outside a monitored call in case {}; stderr: {}", sv.case, tail_lines(&stderr, 8)
            )),
            None if stderr.contains(alloc::MARKER) => own.violation(
                &format!("alloc-ceiling:{tname}:{op}"),
                &format!("{op} on a {}-byte input requested a single allocation above {} MiB ({how})", sv.in_len, alloc::CEILING >> 20),
                detail,
            ),
            None if worker_exit_code == 98 => own.violation(
                &format!("sanitizer-abort:{tname}:{op}"),
                &format!("AddressSanitizer stopped the worker during {op}"),
                detail,
            ),
            None => own.violation(
                &format!("decode-abort:{tname}:{op}"),
                &format!("the process died during {op} on a {}-byte input ({how})", sv.in_len),
                detail,
            ),
        }
        own.count("worker_restarts");
        skip.push(sv.case);
        start = next;
        restarts += 1;
        if restarts >= 300 {
            own.harness_error("more than 300 worker restarts in this shard; remaining cases not run");
            break;
        }
    }
    if start < total {
        own.add("cases_not_run", total - start);
    }
    let _ = std::fs::remove_file(&wout);
    let _ = std::fs::remove_file(&status_path);
    merge_report(&mut acc, &own.to_json());
    let s = serde_json::to_string(&Value::Object(acc)).expect("json");
    match &args.out {
        Some(p) => std::fs::write(p, s).expect("write shard report"),
        None => println!("{s}"),
    }
    if worker_exit_code != 0 {
        std::process::exit(worker_exit_code);
    }
}

// ---------------------------------------------------------------------------

/// `--prop C14 --type <registry name> --hex <input>`: one input, in-process
fn run_single(args: &Args) {
    let reg = registry::registry();
    let tname = args.get("type").unwrap_or("");
    let Some(ti) = reg.iter().position(|e| e.name() == tname) else {
        eprintln!("unknown --type {tname:?}; registry names: {:?}", reg.iter().map(|e| e.name()).collect::<Vec<_>>());
        std::process::exit(2);
    };
    let input = hex::decode(args.get("hex").unwrap_or("")).expect("--hex");
    install_panic_hook();
    let mut rep = Report::new("C14", &args.lane);
    let mut cx = c14::WCx {
        status: c14::Status::heap(),
        cpu: true,
        thorough: false,
        ffi_ok: true,
        type_idx: ti as u32,
        step: 0,
        selftest_abort_case: None,
        case: 0,
        c: c14::C_BYTES_PER_INPUT_BYTE,
        light: 0,
    };
    let outcome = reg[ti].c14_single(&input, &mut rep, &mut cx);
    let j = rep.to_json();
    println!("{tname} <- {} bytes: {outcome}", input.len());
    for v in j["violations"].as_array().into_iter().flatten() {
        println!("VIOLATION {}: {}", v["sig"].as_str().unwrap_or(""), v["msg"].as_str().unwrap_or(""));
    }
}

fn run_measure(args: &Args) {
    let reg = registry::registry();
    let mut rows = vec![];
    for (k, e) in reg.iter().enumerate() {
        let mut rng = Rng::for_case(args.seed, "measure", k as u64);
        let (ratio, size, maxlen) = e.measure(&mut rng, 300);
        rows.push((ratio, e.name(), size, maxlen));
    }
    rows.sort_by(|a, b| b.0.partial_cmp(&a.0).unwrap());
    for (ratio, name, size, maxlen) in rows.iter().take(25) {
        println!("{ratio:10.2}  size_of={size:6}  maxlen={maxlen:7}  {name}");
    }
    println!("registry size {}", reg.len());
}

fn main() {
    let args = Args::parse();
    match args.prop.as_str() {
        "C13" => run_c13(args),
        "C14" if args.get("hex").is_some() => run_single(&args),
        "C14" => {
            // Miri cannot spawn processes: single process, no abort isolation there
            if args.get("worker").is_some() || args.lane == "miri" || args.get("inproc").is_some() {
                run_worker(args);
            } else {
                run_parent(args);
            }
        }
        "measure" => run_measure(&args),
        "scan" => {
            let mut rep = Report::new("scan", "native");
            coverage_report(&mut rep, "native");
            println!("{}", serde_json::to_string_pretty(&rep.to_json()["extra"]).unwrap());
        }
        other => {
            eprintln!("mon_codec serves --prop C13 and --prop C14 (got {other:?})");
            std::process::exit(2);
        }
    }
}

#[allow(dead_code)]
fn _unused(_: &dyn DynEntry) {}
